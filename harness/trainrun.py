"""Runs every off-policy training routine on the scripted recording environment and returns
what the loop-level properties (C01, C06, C10, C11, C13) observe: the environment's call log,
the stored experience, the returned counter, and parameter snapshots of every module taken
at each env.step() call (through a hook of the environment) and after the routine returns."""
from __future__ import annotations

import numpy as np

from stubs import ScriptEnv, StepAfterDone

CONTINUOUS = ["ddpg", "td3", "td3_lap", "sac", "td7", "mrq", "pets"]
DISCRETE = ["dqn", "nature_dqn", "ddqn", "per"]
ALL = DISCRETE + CONTINUOUS


class HookEnv(ScriptEnv):
    def __init__(self, *a, **k):
        super().__init__(*a, **k)
        self.hook = None

    def step(self, action):
        if self.hook is not None:
            self.hook()
        return super().step(action)


def snapshot(mods):
    import jax
    from flax import nnx
    out = {}
    for name, m in mods.items():
        m = resolve(m)
        if m is None:
            continue
        leaves = jax.tree_util.tree_leaves(nnx.state(m))
        out[name] = [np.array(x, copy=True) for x in leaves]
    return out


def resolve(m):
    """modules that a routine reaches through an attribute of another object are registered as thunks, so that every
    snapshot sees the object currently installed there (not the one installed when the run started)"""
    import types
    return m() if isinstance(m, types.FunctionType) else m


def same(a, b):
    return len(a) == len(b) and all(np.array_equal(x, y) for x, y in zip(a, b))


def tiny(hidden=(4,)):
    return list(hidden)


def _td7(train_td7, env, st, seed, total, limit, extra, batch, warm, buf, at, ct, start):
    return train_td7(env, st.embedding, st.embedding_optimizer, st.actor, st.actor_optimizer, st.critic, st.critic_optimizer, seed=seed,
                     total_timesteps=total, total_episodes=limit, gamma=0.9, target_delay=extra.get("td", 3), policy_delay=extra.get("pd", 2),
                     use_checkpoints=extra.get("use_checkpoints", False), max_episodes_when_checkpointing=extra.get("max_eps", 2),
                     steps_before_checkpointing=extra.get("steps_before", 6), batch_size=batch, learning_starts=warm, replay_buffer=buf,
                     actor_target=at, critic_target=ct, global_step=start, logger=extra.get("logger"), progress_bar=False, **extra.get("kw", {}))


def run(name, script, total, start=0, limit=None, warm=0, batch=2, cap=1000, seed=0, low=(-1.0,), high=(1.0,), extra=None):
    """Run routine `name`. Returns a dict (see module docstring)."""
    import jax.numpy as jnp
    import optax
    from flax import nnx
    extra = dict(extra or {})
    discrete = 3 if name in DISCRETE else 0
    env = HookEnv(script, discrete=discrete, low=low, high=high, reward_scale=0.25)
    snaps, mods = extra.get("snaps_ref", []), extra.get("mods_ref", {})
    env.hook = lambda: snaps.append(snapshot(mods))
    res = {"name": name, "raised": None, "returned_step": None, "has_counter": True, "start": start}
    buf = None
    try:
        if name in DISCRETE:
            from rl_blox.blox.function_approximator.mlp import MLP
            from rl_blox.blox.replay_buffer import PrioritizedReplayBuffer, ReplayBuffer
            q = MLP(3, 3, tiny(), "relu", nnx.Rngs(seed))
            opt = nnx.Optimizer(q, optax.sgd(0.05), wrt=nnx.Param)
            buf = (PrioritizedReplayBuffer if name == "per" else ReplayBuffer)(cap, discrete_actions=True)
            mods["q"] = q
            mods["q_optimizer"] = opt
            if name == "dqn":
                from rl_blox.algorithm.dqn import train_dqn
                out = train_dqn(q, env, buf, opt, batch_size=batch, total_timesteps=total, gamma=0.9, seed=seed, global_step=start, progress_bar=False)
                res["returned_step"] = int(out.global_step)
            else:
                qt = None if extra.get("own_targets") else _tclone(extra, q)
                mods["q_target"] = qt
                kw = dict(batch_size=batch, total_timesteps=total, total_episodes=limit, gamma=0.9, update_frequency=extra.get("uf", 1),
                          target_update_frequency=extra.get("tuf", 3), learning_starts=warm, q_target_net=qt, seed=seed, global_step=start, progress_bar=False)
                if name == "nature_dqn":
                    from rl_blox.algorithm.nature_dqn import train_nature_dqn
                    out = train_nature_dqn(q, env, buf, opt, **kw)
                    res["returned_step"] = int(out.global_step)
                elif name == "ddqn":
                    from rl_blox.algorithm.ddqn import train_ddqn
                    out = train_ddqn(q, env, buf, opt, **kw)
                    res["returned_step"] = int(out.global_step)
                else:
                    from rl_blox.algorithm.per import train_ddqn_per
                    out = train_ddqn_per(q, env, buf, opt, **kw)
                    res["has_counter"] = False
        elif name in ("ddpg", "td3", "td3_lap"):
            from rl_blox.blox.replay_buffer import LAP, ReplayBuffer
            if name == "ddpg":
                from rl_blox.algorithm.ddpg import create_ddpg_state, train_ddpg
                st = create_ddpg_state(env, policy_hidden_nodes=tiny(), q_hidden_nodes=tiny(), seed=seed)
            else:
                from rl_blox.algorithm.td3 import create_td3_state
                st = create_td3_state(env, policy_hidden_nodes=tiny(), q_hidden_nodes=tiny(), seed=seed)
            pt, qt = (None, None) if extra.get("own_targets") else (_tclone(extra, st.policy), _tclone(extra, st.q))
            buf = LAP(cap) if name == "td3_lap" else ReplayBuffer(cap)
            mods.update({"policy": st.policy, "q": st.q, "policy_target": pt, "q_target": qt, "policy_optimizer": st.policy_optimizer, "q_optimizer": st.q_optimizer})
            tau = extra.get("tau", 0.25)
            kw = dict(seed=seed, total_timesteps=total, gamma=0.9, tau=tau, batch_size=batch, learning_starts=warm, replay_buffer=buf,
                      policy_target=pt, q_target=qt, global_step=start, progress_bar=False, logger=extra.get("logger"))
            if name == "ddpg":
                out = train_ddpg(env, st.policy, st.policy_optimizer, st.q, st.q_optimizer, total_episodes=limit, **kw, **extra.get("kw", {}))
                res["returned_step"] = int(out.steps_trained)
            elif name == "td3":
                from rl_blox.algorithm.td3 import train_td3
                out = train_td3(env, st.policy, st.policy_optimizer, st.q, st.q_optimizer, total_episodes=limit, policy_delay=extra.get("pd", 2), **kw, **extra.get("kw", {}))
                res["returned_step"] = int(out.global_step)
            else:
                from rl_blox.algorithm.td3_lap import train_td3_lap
                out = train_td3_lap(env, st.policy, st.policy_optimizer, st.q, st.q_optimizer, policy_delay=extra.get("pd", 2), **kw, **extra.get("kw", {}))
                res["returned_step"] = int(out.global_step)
        elif name == "sac":
            from rl_blox.algorithm.sac import EntropyControl, create_sac_state, train_sac
            from rl_blox.blox.replay_buffer import ReplayBuffer
            st = create_sac_state(env, policy_hidden_nodes=tiny(), q_hidden_nodes=tiny(), seed=seed)
            qt = None if extra.get("own_targets") else _tclone(extra, st.q)
            buf = ReplayBuffer(cap)
            ec = EntropyControl(env, 0.2, True, 1e-2)
            mods.update({"policy": st.policy, "q": st.q, "q_target": qt, "alpha": ec._alpha, "policy_optimizer": st.policy_optimizer, "q_optimizer": st.q_optimizer,
                         "alpha_optimizer": ec.optimizer})
            out = train_sac(env, st.policy, st.policy_optimizer, st.q, st.q_optimizer, seed=seed, total_timesteps=total, total_episodes=limit,
                            gamma=0.9, tau=extra.get("tau", 0.25), batch_size=batch, learning_starts=warm, policy_delay=extra.get("pd", 2),
                            target_network_delay=extra.get("tnd", 1), replay_buffer=buf, q_target=qt, entropy_control=ec, global_step=start, progress_bar=False)
            res["returned_step"] = int(out.global_step)
        elif name == "td7":
            from rl_blox.algorithm.td7 import create_td7_state, train_td7
            from rl_blox.blox.replay_buffer import LAP
            st = create_td7_state(env, n_embedding_dimensions=4, state_embedding_hidden_nodes=(4,), state_action_embedding_hidden_nodes=(4,),
                                  policy_sa_encoding_nodes=4, policy_hidden_nodes=(4,), q_sa_encoding_nodes=4, q_hidden_nodes=(4,), seed=seed)
            at, ct = (None, None) if extra.get("own_targets") else (_tclone(extra, st.actor), _tclone(extra, st.critic))
            buf = LAP(cap)
            mods.update({"embedding": st.embedding, "actor": st.actor, "critic": st.critic, "actor_target": at, "critic_target": ct,
                         "embedding_optimizer": st.embedding_optimizer, "actor_optimizer": st.actor_optimizer, "critic_optimizer": st.critic_optimizer})
            import rl_blox.algorithm.td7 as td7m
            orig_pol, orig_assess, made, flags = td7m.DeterministicSALEPolicy, td7m.assess_performance_and_checkpoint, [], []

            def rec_policy(embedding, actor):     # train_td7 builds policy, policy_target, [checkpoint] in this order
                p = orig_pol(embedding, actor)
                tag = ["fixed_embedding", "fixed_embedding_target", "fixed_embedding_checkpoint"][len(made)]
                mods[tag] = lambda p=p: p.embedding
                if tag == "fixed_embedding_checkpoint":
                    mods["actor_checkpoint"] = lambda p=p: p.actor
                made.append(p)
                return p

            def rec_assess(*a, **k):
                r = orig_assess(*a, **k)
                flags.append((len(snaps) - 1, bool(r[0]), int(r[1])))
                return r
            td7m.DeterministicSALEPolicy, td7m.assess_performance_and_checkpoint = rec_policy, rec_assess
            res["checkpoint_decisions"] = flags
            try:
                out = _td7(train_td7, env, st, seed, total, limit, extra, batch, warm, buf, at, ct, start)
            finally:
                td7m.DeterministicSALEPolicy, td7m.assess_performance_and_checkpoint = orig_pol, orig_assess
            res["returned_step"] = int(out.global_step)
            res["td7_out"] = out
        elif name == "mrq":
            from rl_blox.algorithm.mrq import create_mrq_state, train_mrq
            from rl_blox.blox.replay_buffer import SubtrajectoryReplayBufferPER
            st = create_mrq_state(env, policy_hidden_nodes=(4,), q_hidden_nodes=(4,), encoder_n_bins=7, encoder_zs_dim=4, encoder_za_dim=3,
                                  encoder_zsa_dim=4, encoder_hidden_nodes=(4,), seed=seed)
            pet, qt = (None, None) if extra.get("own_targets") else (_tclone(extra, st.policy_with_encoder), _tclone(extra, st.q))
            buf = SubtrajectoryReplayBufferPER(cap, horizon=2)
            mods.update({"policy_with_encoder": st.policy_with_encoder, "q": st.q, "policy_with_encoder_target": pet, "q_target": qt,
                         "encoder_optimizer": st.encoder_optimizer, "policy_optimizer": st.policy_optimizer, "q_optimizer": st.q_optimizer})
            out = train_mrq(env, st.policy_with_encoder, st.encoder_optimizer, st.policy_optimizer, st.q, st.q_optimizer, st.the_bins, seed=seed,
                            total_timesteps=total, total_episodes=limit, gamma=0.9, target_delay=extra.get("td", 3), batch_size=batch,
                            learning_starts=warm, encoder_horizon=2, q_horizon=2, replay_buffer=buf, policy_with_encoder_target=pet, q_target=qt,
                            global_step=start, progress_bar=False, **extra.get("kw", {}))
            res["returned_step"] = int(out.global_step)
        elif name == "pets":
            from rl_blox.algorithm.pets import create_pets_state, train_pets
            from rl_blox.blox.replay_buffer import ReplayBuffer

            def reward_model(act, next_obs):
                return -jnp.sum(act ** 2, axis=-1)
            dm = create_pets_state(env, seed=seed, n_ensemble=2, hidden_nodes=(4,), batch_size=2)
            buf = ReplayBuffer(cap)
            mods["dynamics_model"] = dm.model
            mods["dynamics_optimizer"] = dm.optimizer
            train_pets(env, reward_model, dm, plan_horizon=2, n_particles=2, n_samples=20, n_opt_iter=1, seed=seed, total_timesteps=total,
                       learning_starts=warm, learning_starts_gradient_steps=1, n_steps_per_iteration=extra.get("n_iter", 3), gradient_steps=1,
                       replay_buffer=buf, progress_bar=False)
            res["has_counter"] = False
        else:
            raise ValueError(name)
    except StepAfterDone as e:
        res["raised"] = "StepAfterDone: " + str(e)
    snaps.append(snapshot(mods))
    import jax
    jax.clear_caches()        # hundreds of runs in one process otherwise exhaust the JIT's code memory ("Unable to allocate section memory")
    out_obj = locals().get("out")
    if out_obj is not None and hasattr(out_obj, "_fields"):
        res["result_modules"] = {f: getattr(out_obj, f) for f in out_obj._fields if isinstance(getattr(out_obj, f), (nnx.Module, nnx.Optimizer))}
    res.update({"env": env, "log": env.log, "snaps": snaps, "buffer": buf, "bounds": (np.asarray(low, dtype=np.float32), np.asarray(high, dtype=np.float32)),
                "discrete": discrete, "mods": mods})
    return res


def stored_rows(res):
    """The kept transitions as (obs(3,), action, reward, next_obs(3,), terminated) in buffer order (oldest first)."""
    buf = res["buffer"]
    n = len(buf)
    b = buf.buffer
    cap = buf.buffer_size
    if n < cap:
        idx = list(range(n))
    else:
        ins = buf.insert_idx
        idx = [(ins + i) % cap for i in range(cap)]
    tkey = "termination" if "termination" in b else "terminated"
    rows = []
    for i in idx:
        rows.append((np.asarray(b["observation"][i]), np.asarray(b["action"][i]), float(b["reward"][i]), np.asarray(b["next_observation"][i]),
                     bool(b[tkey][i])))
    return rows


def step_events(res):
    return [e for e in res["log"] if e[0] == "step"]


def _tclone(extra, module):
    """target handed to the routine: a clone of the online module, or (extra['distinct_targets']) a network of the same structure with
    other weights - as when training is continued with targets that lag behind the online networks"""
    import jax
    from flax import nnx
    c = nnx.clone(module)
    if extra.get("distinct_targets"):
        nnx.update(c, jax.tree.map(lambda v: v * 0.5 + 0.125, nnx.state(c, nnx.Param)))
    return c


def changed_iterations(res, name):
    """iterations i (0-based within this call) during which module `name` changed"""
    s = res["snaps"]
    return [i for i in range(len(s) - 1) if name in s[i] and not same(s[i][name], s[i + 1][name])]
