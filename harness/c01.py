"""C01 — stored experience equals what the environment actually produced."""
import numpy as np

import loopchecks as lc
from common import llit, nlit
import trainrun as tr
from stubs import ScriptEnv


def check_run(chk, r):
    name, res, case = r["name"], r["res"], lc.case_of(r)
    if res is None:
        chk.fail(f"C01:train_{name}:raised", "training routine raised on a scripted environment", {"case": case, "traceback": r["exception"]})
        return
    if res["raised"]:
        chk.fail(f"C01:train_{name}:raised", res["raised"], {"case": case})
        return
    steps = tr.step_events(res)
    adds = r["adds"]
    # --- spec: the k-th kept transition is the k-th environment step, starting from the observation returned last before it
    if len(adds) != len(steps):
        chk.fail(f"C01:train_{name}:kept-count", "number of kept transitions differs from the number of environment steps",
                 {"case": case, "kept": len(adds), "env_steps": len(steps)})
        return
    for k, (a, e) in enumerate(zip(adds, steps)):
        _, prev, act, rew, nxt, term, trunc = e
        tkey = "termination" if "termination" in a else "terminated"
        ok = (np.array_equal(np.asarray(a["observation"], dtype=np.float32), prev) and np.array_equal(np.asarray(a["next_observation"], dtype=np.float32), nxt)
              and np.allclose(np.asarray(a["action"], dtype=float).reshape(-1), np.asarray(act, dtype=float).reshape(-1))
              and float(a["reward"]) == rew and bool(a[tkey]) == term)
        if not ok:
            chk.fail(f"C01:train_{name}:kept-transition",
                     "a kept transition is not (observation returned last before the action, action passed to the environment, reward, "
                     "successor observation, termination flag) of the same environment step",
                     {"case": case, "step_index": k, "kept": {kk: np.asarray(v).tolist() for kk, v in a.items()},
                      "env_step": {"prev_obs": prev.tolist(), "action": np.asarray(act).tolist(), "reward": rew, "next_obs": nxt.tolist(), "terminated": term,
                                   "truncated": trunc}})
            return
    # --- what the buffer holds when the routine returns: the last min(n, capacity) environment transitions, oldest first
    if name != "mrq" and res["buffer"] is not None and steps:
        kept = tr.stored_rows(res)
        exp = steps[-len(kept):] if kept else []
        bad = len(kept) != min(len(steps), res["buffer"].buffer_size)
        for (o, a_, rw, no, te), e in zip(kept, exp):
            bad = bad or not (np.array_equal(np.asarray(o, dtype=np.float32).reshape(-1), e[1]) and np.array_equal(np.asarray(no, dtype=np.float32).reshape(-1), e[4])
                              and float(rw) == e[3] and bool(te) == e[5])
        if bad:
            chk.fail(f"C01:train_{name}:buffer-content", "the replay buffer returned by the routine does not hold the last min(steps, capacity) environment transitions",
                     {"case": case, "buffer_rows": [[np.asarray(o).tolist(), float(rw), np.asarray(no).tolist(), bool(te)] for o, _, rw, no, te in kept[:6]],
                      "expected_rows": [[e[1].tolist(), e[3], e[4].tolist(), e[5]] for e in exp[:6]]})
            return
        chk.count("buffer_contents_checked")
        if len(steps) > res["buffer"].buffer_size:
            chk.count("buffer_contents_checked_after_wrap")
    # --- the acting policy is conditioned on the same current observation (DQN family: greedy calls)
    gi = 0
    sampled_next = False
    for e in res["log"]:
        if e[0] == "sample":
            sampled_next = True
        elif e[0] == "step":
            if not sampled_next and r["greedy_calls"] and gi < len(r["greedy_calls"]):
                gobs, ga, _ = r["greedy_calls"][gi]
                gi += 1
                if not np.array_equal(np.asarray(gobs, dtype=np.float32), e[1]) or int(ga) != int(np.asarray(e[2])):
                    chk.fail(f"C01:train_{name}:policy-input", "the greedy policy was not conditioned on the current observation / its action was not the one executed",
                             {"case": case, "policy_obs": np.asarray(gobs).tolist(), "env_prev_obs": e[1].tolist()})
                    return
            sampled_next = False
    # --- correspondence with the loop-skeleton model
    m = r["model"]
    impl_stored = [[lc.obs_tag(a["observation"]), lc.obs_tag(a["next_observation"]), bool(a["termination" if "termination" in a else "terminated"])] for a in adds]
    model_stored = [[s[0], s[3], s[4]] for s in m["stored"]]
    if name != "pets" or True:
        if impl_stored != model_stored:
            chk.disagree(f"train_{name}.stored", {"case": case, "impl": impl_stored[:8], "model": model_stored[:8]})


def collectors(chk, rng, n):
    """on-policy collectors: sample_trajectories (REINFORCE / actor-critic), A2C and PPO rollouts"""
    import gymnasium as gym
    import jax
    import jax.numpy as jnp
    from flax import nnx
    from rl_blox.algorithm import a2c, ppo
    from rl_blox.algorithm.reinforce import sample_trajectories
    from rl_blox.blox.function_approximator.mlp import MLP
    from rl_blox.blox.function_approximator.policy_head import SoftmaxPolicy
    exprs, recs = [], []
    prow = '(fun r -> "[" ^ sp sn sn r.M.p_obs ^ "," ^ sn r.M.p_reward ^ "," ^ sb r.M.p_term ^ "," ^ sp sn sn r.M.p_boot ^ "]")'
    arow = '(fun r -> "[" ^ sp sn sn r.M.a_obs ^ "," ^ sn r.M.a_reward ^ "," ^ sb r.M.a_term ^ "," ^ sb r.M.a_trunc ^ "]")'
    for i in range(n):
        script = [(int(rng.choice([1, 2, 3, 5])), str(rng.choice(["term", "trunc"]))) for _ in range(3)]
        pol = SoftmaxPolicy(MLP(3, 2, [], "relu", nnx.Rngs(i)))
        # --- sample_trajectories
        env = ScriptEnv(script, discrete=2, reward_scale=0.25)
        total = int(rng.integers(1, 9))
        case = {"collector": "sample_trajectories", "script": script, "total_steps": total}
        ok, ds = chk.impl_call("C01:sample_trajectories:raised", case, sample_trajectories, env, pol, jax.random.key(i), None, False, total)
        chk.case(("sample_trajectories", str(script), total))
        chk.count("collector_sample_trajectories")
        if ok:
            steps = env.step_events()
            flat = [t for ep in ds.episodes for t in ep]
            good = len(flat) == len(steps) and all(
                np.array_equal(np.asarray(o, dtype=np.float32), e[1]) and int(np.asarray(a)) == int(np.asarray(e[2])) and np.array_equal(np.asarray(no, dtype=np.float32), e[4])
                and float(rw) == e[3] for (o, a, no, rw), e in zip(flat, steps))
            ep_ok = [len(ep) for ep in ds.episodes] == _episode_lengths(steps)
            if not (good and ep_ok):
                chk.fail("C01:sample_trajectories:kept-transition", "the episode dataset differs from the environment's transitions (or its episode split)",
                         {"case": case, "episode_lengths": [len(ep) for ep in ds.episodes], "env_episode_lengths": _episode_lengths(steps)})
            else:
                # the arrays handed to the learners (REINFORCE / actor-critic): row k is still environment step k, also across episode ends
                okp, prep = chk.impl_call("C01:prepare_policy_gradient_dataset:raised", case, ds.prepare_policy_gradient_dataset, env.action_space, 0.5)
                if okp:
                    O, A, NO = (np.asarray(prep[j], dtype=np.float32) for j in range(3))
                    exp_o, exp_no = np.stack([e[1] for e in steps]), np.stack([e[4] for e in steps])
                    exp_a = np.asarray([int(np.asarray(e[2])) for e in steps])
                    if O.shape[0] != len(steps) or not (np.array_equal(O.reshape(exp_o.shape), exp_o) and np.array_equal(NO.reshape(exp_no.shape), exp_no)
                                                        and np.array_equal(A.reshape(-1).astype(int), exp_a)):
                        chk.fail("C01:prepare_policy_gradient_dataset:kept-transition", "the observation / action / successor arrays prepared for learning differ from the "
                                 "environment's steps (a successor must be what that step returned, not the next episode's reset observation)",
                                 {"case": case, "next_observations": NO.tolist(), "environment_next_observations": exp_no.tolist()})
                    chk.count("prepared_datasets_checked")
                    if len(ds.episodes) > 1:
                        chk.count("prepared_datasets_with_several_episodes")
        # --- sample_trajectories with a Gaussian policy on a bounded action space (narrow box: most samples fall outside it):
        #     the action kept for learning is the action the environment was given, bit for bit
        from rl_blox.blox.function_approximator.gaussian_mlp import GaussianMLP
        from rl_blox.blox.function_approximator.policy_head import GaussianPolicy
        low, high = ([-0.25, 0.5], [0.125, 1.0]) if i % 2 else ([-0.5], [0.25])
        gpol = GaussianPolicy(GaussianMLP(bool(i % 2), 3, len(low), [4], "tanh", nnx.Rngs(100 + i)))
        envc = ScriptEnv(script, low=low, high=high, reward_scale=0.25)
        casec = {"collector": "sample_trajectories", "policy": "GaussianPolicy", "action_box": [low, high], "script": script, "total_steps": total}
        okc, dsc = chk.impl_call("C01:sample_trajectories:raised", casec, sample_trajectories, envc, gpol, jax.random.key(50 + i), None, False, total)
        chk.case(("sample_trajectories_box", str(script), total, str(low)))
        chk.count("collector_sample_trajectories_box")
        if okc:
            stepsc = envc.step_events()
            flatc = [t for ep in dsc.episodes for t in ep]
            bad = None
            if len(flatc) != len(stepsc) or [len(ep) for ep in dsc.episodes] != _episode_lengths(stepsc):
                bad = ("the episode dataset differs from the environment's transitions (or its episode split)", {})
            else:
                for k, ((o, a, no, rw), e) in enumerate(zip(flatc, stepsc)):
                    a_kept, a_env = np.asarray(a, dtype=np.float32).reshape(-1), np.asarray(e[2], dtype=np.float32).reshape(-1)
                    if a_kept.tobytes() != a_env.tobytes():
                        bad = ("the action kept for learning is not the action that was passed to the environment", {"step": k, "kept_action": a_kept.tolist(), "environment_action": a_env.tolist()})
                    elif not (np.array_equal(np.asarray(o, dtype=np.float32), e[1]) and np.array_equal(np.asarray(no, dtype=np.float32), e[4]) and float(rw) == e[3]):
                        bad = ("a kept transition differs from the environment's step", {"step": k})
                    if bad:
                        break
                if not bad:
                    okp, prep = chk.impl_call("C01:prepare_policy_gradient_dataset:raised", casec, dsc.prepare_policy_gradient_dataset, envc.action_space, 0.5)
                    if okp:
                        A = np.asarray(prep[1], dtype=np.float32).reshape(len(stepsc), -1)
                        exp_a = np.stack([np.asarray(e[2], dtype=np.float32).reshape(-1) for e in stepsc])
                        if A.tobytes() != exp_a.tobytes():
                            bad = ("the action array prepared for learning differs from the actions passed to the environment", {"prepared": A.tolist(), "environment": exp_a.tolist()})
                    outside = sum(1 for e in stepsc if np.any(np.asarray(e[2]).reshape(-1) < np.asarray(low)) or np.any(np.asarray(e[2]).reshape(-1) > np.asarray(high)))
                    chk.count("box_actions_outside_the_bounds", outside)
            if bad:
                chk.fail("C01:sample_trajectories:kept-action", bad[0], {"case": casec, **bad[1]})
        # --- A2C collect_trajectories (vector env, NEXT_STEP autoreset)
        N, T = int(rng.integers(1, 4)), int(rng.integers(1, 6))
        scripts = [[(int(rng.choice([1, 2, 3, 5])), str(rng.choice(["term", "trunc"]))) for _ in range(3)] for _ in range(N)]
        envs = gym.vector.SyncVectorEnv([(lambda s=scripts[j], j=j: ScriptEnv(s, env_id=j, discrete=2, reward_scale=0.25)) for j in range(N)])
        last, _ = envs.reset(seed=0)
        case = {"collector": "a2c.collect_trajectories", "scripts": scripts, "steps_per_update": T}
        ok, out = chk.impl_call("C01:a2c.collect_trajectories:raised", case, a2c.collect_trajectories, envs, pol, jax.random.key(i), jnp.asarray(last), T, None, 0)
        chk.case(("a2c_collect", str(scripts), T))
        chk.count("collector_a2c")
        if ok:
            rb, last_obs, gstep, _ = out
            bad = None
            for j in range(N):
                ev = [e for e in envs.envs[j].log if e[0] in ("step", "reset")]
                # with NEXT_STEP autoreset a step on a finished env is a reset: gymnasium calls reset() instead of step()
                k = 0
                cur = None
                rows = []
                for e in ev:
                    if e[0] == "reset":
                        if cur is not None:
                            rows.append(("autoreset", cur, e[1]))
                        cur = e[1]
                    else:
                        rows.append(("step", e[1], e[4], e[3], e[5], e[6], e[2]))
                        cur = e[4]
                rows = rows[:T] if len(rows) >= T else rows
                for t, row in enumerate(rows[:T]):
                    o = np.asarray(rb.buffer["obs"][t][j], dtype=np.float32)
                    if not np.array_equal(o, row[1]):
                        bad = (j, t, o.tolist(), row[1].tolist())
                        break
                    if row[0] == "step" and (float(rb.buffer["rewards"][t][j]) != row[3] or bool(rb.buffer["terminations"][t][j]) != row[4]):
                        bad = (j, t, "reward/termination", float(rb.buffer["rewards"][t][j]))
                        break
                if bad:
                    break
            if bad:
                chk.fail("C01:a2c.collect_trajectories:kept-transition", "an A2C rollout row does not start from the observation the environment returned last",
                         {"case": case, "env": bad[0], "t": bad[1], "kept": bad[2], "expected": bad[3]})
            if int(gstep) != T * N:
                chk.fail("C01:a2c.collect_trajectories:count", "returned step counter differs from steps * envs", {"case": case, "returned": int(gstep)})
            def rows_of(b_):
                return [[[[int(b_.buffer["obs"][t][j][0]), int(b_.buffer["obs"][t][j][1])], int(round(float(b_.buffer["rewards"][t][j]) * 4)),
                          bool(b_.buffer["terminations"][t][j]), bool(b_.buffer["truncations"][t][j])] for j in range(N)] for t in range(T)]
            impl_rows = rows_of(rb)
            # a second rollout continued from the returned observation, as train_a2c does: it must start from what the environments returned last
            ok2, out2 = chk.impl_call("C01:a2c.collect_trajectories:raised", case, a2c.collect_trajectories, envs, pol, jax.random.key(i + 1), last_obs, T, None, int(gstep))
            if ok2:
                for j in range(N):       # spec: rows of the second rollout against the environment's own log
                    cur, rows2 = None, []
                    for e in [e for e in envs.envs[j].log if e[0] in ("step", "reset")]:
                        if e[0] == "reset":
                            if cur is not None:
                                rows2.append(e[1] * 0 + cur)
                            cur = e[1]
                        else:
                            rows2.append(e[1])
                            cur = e[4]
                    for t in range(T, min(2 * T, len(rows2))):
                        o = np.asarray(out2[0].buffer["obs"][t - T][j], dtype=np.float32)
                        if not np.array_equal(o, rows2[t]):
                            chk.fail("C01:a2c.collect_trajectories:kept-transition", "a row of a rollout continued from the returned observation does not start from the "
                                     "observation the environment returned last", {"case": case, "env": j, "t_in_second_rollout": t - T, "kept": o.tolist(), "expected": rows2[t].tolist()})
                            break
                impl_rows = impl_rows + rows_of(out2[0])
                last_tags = [[int(np.asarray(out2[1])[j][0]), int(np.asarray(out2[1])[j][1])] for j in range(N)]
                exprs.append(f"(let ((rows, _), last) = M.a2c_run {nlit(2 * T)} {llit(scripts, lc.script_ml)} in \"[\" ^ sl (sl {arow}) rows ^ \",\" ^ sl (sp sn sn) last ^ \"]\")")
                recs.append(("a2c.collect_trajectories (two consecutive rollouts, returned observation)", case, [impl_rows, last_tags]))
        # --- PPO collect_trajectories (SAME_STEP autoreset)
        envs = gym.vector.SyncVectorEnv([(lambda s=scripts[j], j=j: ScriptEnv(s, env_id=j, discrete=2, reward_scale=0.25)) for j in range(N)],
                                        autoreset_mode=gym.vector.AutoresetMode.SAME_STEP)
        critic = MLP(3, 1, [], "relu", nnx.Rngs(1))
        # the critic encodes the observation it is evaluated on: value = 64 * episode + t (exact in float32)
        nnx.update(critic, jax.tree_util.tree_map(lambda x: jnp.asarray([[64.0], [1.0], [0.0]]) if x.shape == (3, 1) else jnp.zeros_like(x), nnx.state(critic)))
        last, _ = envs.reset(seed=0)
        case = {"collector": "ppo.collect_trajectories", "scripts": scripts, "batch_size": T}
        ok, traj = chk.impl_call("C01:ppo.collect_trajectories:raised", case, ppo.collect_trajectories, envs, pol, critic, jax.random.key(i), T, None, last, 0)
        chk.case(("ppo_collect", str(scripts), T))
        chk.count("collector_ppo")
        if ok:
            obs = np.asarray(traj.observation, dtype=np.float32).reshape(N, T, 3)
            act = np.asarray(traj.action).reshape(N, T)
            rew = np.asarray(traj.reward, dtype=float).reshape(N, T)
            term = np.asarray(traj.terminated).reshape(N, T)
            for j in range(N):
                steps = [e for e in envs.envs[j].log if e[0] == "step"][:T]
                for t, e in enumerate(steps):
                    if not (np.array_equal(obs[j, t], e[1]) and int(act[j, t]) == int(np.asarray(e[2])) and rew[j, t] == e[3] and bool(term[j, t]) == e[5]):
                        chk.fail("C01:ppo.collect_trajectories:kept-transition", "a PPO rollout row differs from the environment's transition",
                                 {"case": case, "env": j, "t": t, "kept_obs": obs[j, t].tolist(), "env_prev_obs": e[1].tolist()})
                        break
            nv = np.asarray(traj.next_value, dtype=float).reshape(N, T)
            impl_rows = [[[[int(obs[j, t][0]), int(obs[j, t][1])], int(round(rew[j, t] * 4)), bool(term[j, t]), [int(nv[j, t]) // 64, int(nv[j, t]) % 64]]
                          for j in range(N)] for t in range(T)]
            exprs.append(f"(let ((rows, _), _) = M.ppo_run M.ByIndex M.CarryNext {nlit(T)} {llit(scripts, lc.script_ml)} in sl (sl {prow}) rows)")
            recs.append(("ppo.collect_trajectories", case, impl_rows))


    for (what, case, impl), m in zip(recs, chk.model_eval(exprs, per_file=60)):
        if m != impl:
            chk.disagree(what, {"case": case, "impl_rows_[t][env]": impl, "model_rows_[t][env]": m})


def _episode_lengths(steps):
    out, n = [], 0
    for e in steps:
        n += 1
        if e[5] or e[6]:
            out.append(n)
            n = 0
    if n:
        out.append(n)
    return out


def main(chk):
    chk.proof_step()
    rng = np.random.default_rng(chk.seed)
    q = chk.tier == "quick"
    recs = lc.collect(chk, rng, tr.ALL, 2 if q else 25, quick=q)
    for r in recs:
        check_run(chk, r)
    collectors(chk, rng, 6 if q else 100)
    import tabruns
    tab_recs = lc.tab_collect(chk, rng, 2 if q else 20)
    # the action-source model (Loop.v, act_flags): with the routines' rule - ask the policy at the top of every iteration - every
    # executed action is computed from the current observation (theorem C01_tabular_action_from_current_observation)
    ok_recs = [r for r in tab_recs if not r["res"]["raised"]]
    flags = chk.model_eval([f"(sl sb (M.act_flags M.ActFresh {lc.script_ml(r['case']['script'])} {lc.nlit(len([e for e in r['res']['log'] if e[0] == 'step']))}))"
                            for r in ok_recs], per_file=40)
    for r, mf in zip(ok_recs, flags):
        impl_f = tabruns.conditioned_flags(r["res"])
        if impl_f != mf and all(mf):
            chk.count("tabular_action_source_mismatches")      # reported concretely by check_conditioned below
        elif impl_f != mf:
            chk.disagree("tabular-action-source", {"case": r["case"], "impl": impl_f, "model": mf})
    for r in tab_recs:
        bad = None if r["res"]["raised"] else tabruns.check_kept(r["res"])
        if bad:
            chk.fail(f"C01:train_{r['name']}:kept-transition", "tabular routine: " + bad[0], {"case": r["case"], **bad[1]})
        bad = None if r["res"]["raised"] else tabruns.check_conditioned(r["res"])
        if bad and bad[0] == "HOOK":      # the device is blind, not the property broken: a correspondence that no longer checks
            chk.disagree("tabular-policy-hook", {"case": r["case"], **bad[1]})
        elif bad:
            chk.fail(f"C01:train_{r['name']}:policy-observation", "tabular routine: " + bad[0], {"case": r["case"], **bad[1]})
        elif not r["res"]["raised"]:
            chk.count("tabular_policy_queries_checked", len([e for e in r["res"]["log"] if e[0] == "step"]))
    r0 = recs[0]
    chk.sample({"case": lc.case_of(r0), "kept_head": [[lc.obs_tag(a["observation"]), lc.obs_tag(a["next_observation"])] for a in r0["adds"][:4]],
                "model_stored_head": r0["model"]["stored"][:4]})
    return chk.finish(
        rule="each of train_dqn / nature_dqn / ddqn / ddqn_per / ddpg / td3 / td3_lap / sac / td7 / mrq / pets on scripted recording environments "
             "(random episode scripts of lengths 1-5 with terminated / truncated ends, budgets 0-14, start counts incl. >= budget, episode limits, "
             "warm-up 0 / 4 / 6 / > budget); every add_sample call is recorded and compared with the environment's call log and with the "
             "extracted loop-skeleton model; greedy-policy inputs recorded for the DQN family; sample_trajectories and the A2C / PPO "
             "vector-environment collectors compared with their environments' logs; train_q_learning / sarsa / double_q_learning / monte_carlo / dynaq on "
             "a scripted discrete environment with stochastic successors: every table-update argument tuple vs the environment's steps",
        assumptions=["networks, updates and action choice are oracles of the skeleton", "tabular routines: the arguments of every table update (episode record for Monte-Carlo, counter "
                     "update for Dyna-Q) are recorded and compared with the scripted discrete environment's log", "Gymnasium's vector autoreset is the environment's behaviour"])
