#!/usr/bin/env python3
"""Evaluate one seeded change.

  seed_eval.py confirm <worktree> <mN> <dest>    confirm the demonstration and the test-suite in the scratch worktree, store under /verif/seeded/<dest>
  seed_eval.py detect <dest> <ID> [<ID> ...]     apply the stored patch to /repo, run the quick checks, undo, record the outcome in meta.json

The patch is applied to /repo only for the duration of the runs (git apply / git checkout -- .); evidence of
these runs goes to build/seeded-evidence, not to /verif/evidence."""
import json
import os
import shutil
import subprocess
import sys
import time

V = "/verif"
PY = "/venv/bin/python"


def sh(cmd, cwd=None, env=None, timeout=3600):
    e = dict(os.environ)
    e.update(env or {})
    p = subprocess.run(cmd, shell=True, cwd=cwd, env=e, capture_output=True, text=True, timeout=timeout)
    return p.returncode, (p.stdout + p.stderr)


def confirm(wt, m, dest):
    d = f"{V}/seeded/{dest}"
    env = {"PYTHONPATH": wt, "JAX_PLATFORMS": "cpu", "PYTHONDONTWRITEBYTECODE": "1"}
    rc, out = sh("git status --porcelain -- rl_blox tests", cwd=wt)
    assert out.strip() == "", "worktree not clean: " + out
    rc0, out0 = sh(f"{PY} _seed/{m}_demo.py", cwd=wt, env=env, timeout=900)
    rc, out = sh(f"git apply _seed/{m}.diff", cwd=wt)
    assert rc == 0, out
    try:
        rc1, out1 = sh(f"{PY} _seed/{m}_demo.py", cwd=wt, env=env, timeout=900)
        rct, outt = sh(f"{PY} -m pytest -q -p no:cacheprovider --timeout=900 tests 2>&1 | tail -5", cwd=wt, env=env, timeout=3600)
        rcd, touched = sh("git diff --stat -- . | cat", cwd=wt)
        rcx, tests_touched = sh("git diff --name-only -- tests", cwd=wt)
    finally:
        sh("git checkout -- .", cwd=wt)
    ok = rc0 == 0 and rc1 == 1 and "PROPERTY BROKEN" in out1 and " passed" in outt and "failed" not in outt and tests_touched.strip() == ""
    os.makedirs(d, exist_ok=True)
    shutil.copy(f"{wt}/_seed/{m}.diff", f"{d}/patch.diff")
    shutil.copy(f"{wt}/_seed/{m}_demo.py", f"{d}/demo.py")
    if os.path.exists(f"{wt}/_seed/{m}.md"):
        shutil.copy(f"{wt}/_seed/{m}.md", f"{d}/notes.md")
    meta = {"property": dest.split("/")[0], "source": f"sub-agent, scratch worktree {wt}, change {m}", "confirmed": ok,
            "what_i_ran": {"demo_on_clean_tree": {"exit": rc0, "tail": out0.strip().splitlines()[-2:]},
                           "demo_with_change": {"exit": rc1, "tail": [l for l in out1.splitlines() if "PROPERTY BROKEN" in l][:2] or out1.strip().splitlines()[-2:]},
                           "test_suite_with_change": outt.strip().splitlines()[-1:],
                           "files_touched": touched.strip().splitlines()},
            "needs_to_manifest": "see notes.md", "detection": {}}
    json.dump(meta, open(f"{d}/meta.json", "w"), indent=1)
    print("confirmed" if ok else "NOT CONFIRMED", dest, meta["what_i_ran"]["demo_with_change"], meta["what_i_ran"]["test_suite_with_change"])
    return ok


def detect(dest, ids):
    d = f"{V}/seeded/{dest}"
    meta = json.load(open(f"{d}/meta.json"))
    rc, out = sh("git status --porcelain", cwd="/repo")
    assert out.strip() == "", "/repo not clean: " + out
    rc, out = sh(f"git apply {d}/patch.diff", cwd="/repo")
    assert rc == 0, out
    try:
        for i in ids:
            t = time.time()
            rc, out = sh(f"bin/check {i} quick", cwd=V, env={"VERIF_EVIDENCE_DIR": f"{V}/build/seeded-evidence"}, timeout=3600)
            lines = [l for l in out.splitlines() if l.startswith("VIOLATION") or l.startswith("KNOWN-FINDING")]
            meta["detection"][i] = {"exit": rc, "caught": rc == 1 and any(l.startswith("VIOLATION") for l in lines), "lines": lines[:6], "wall_s": round(time.time() - t)}
            print(dest, i, "CAUGHT" if meta["detection"][i]["caught"] else "missed", lines[:3])
    finally:
        sh("git checkout -- .", cwd="/repo")
        rc, out = sh("git status --porcelain", cwd="/repo")
        assert out.strip() == "", "/repo not restored: " + out
    json.dump(meta, open(f"{d}/meta.json", "w"), indent=1)


if __name__ == "__main__":
    if sys.argv[1] == "confirm":
        sys.exit(0 if confirm(sys.argv[2], sys.argv[3], sys.argv[4]) else 1)
    detect(sys.argv[2], sys.argv[3:])
