"""C19, function-approximator half: pickle helper, OrbaxCheckpointer, StandardLogger checkpoints,
restore_checkpoint — leaves bitwise equal, outputs on fixed inputs bitwise equal, and the
parameter-tree model (Model/Persist.v: orbax_restore / load_pickle / restore_checkpoint) places
every stored leaf where the implementation does."""
import hashlib
import os
import shutil
import warnings

import numpy as np

from common import BUILD, llit, nlit, zlit


def sig(a):
    a = np.asarray(a)
    return (a.dtype.str, tuple(a.shape), np.ascontiguousarray(a).tobytes())


def leaves_of(module):
    """[(path string, signature)] of nnx.state(module), in tree order."""
    import jax
    from flax import nnx
    return [(jax.tree_util.keystr(p), sig(x)) for p, x in jax.tree_util.tree_leaves_with_path(nnx.state(module))]


def out_sig(y):
    import jax
    return [sig(x) for x in jax.tree_util.tree_leaves(y)]


def zoo():
    """name -> (constructor(seed), forward(module) -> pytree of outputs). Small fixed shapes so that
    every forward compiles once."""
    import gymnasium as gym
    import jax
    import jax.numpy as jnp
    from flax import nnx
    from rl_blox.blox.double_qnet import ContinuousClippedDoubleQNet
    from rl_blox.blox.embedding.model_based_encoder import DeterministicPolicyWithEncoder, ModelBasedEncoder
    from rl_blox.blox.embedding.sale import SALE, ActorSALE, CriticSALE, DeterministicSALEPolicy
    from rl_blox.blox.embedding.task_embedding import MTMLPQNetwork
    from rl_blox.blox.function_approximator.gaussian_mlp import GaussianMLP
    from rl_blox.blox.function_approximator.layer_norm_mlp import LayerNormMLP
    from rl_blox.blox.function_approximator.mlp import MLP
    from rl_blox.blox.function_approximator.policy_head import (DeterministicTanhPolicy, GaussianPolicy,
                                                               GaussianTanhPolicy, SoftmaxPolicy)
    from rl_blox.blox.probabilistic_ensemble import GaussianMLPEnsemble

    box = gym.spaces.Box(low=np.array([-1.0, -2.0], dtype=np.float32), high=np.array([1.0, 3.0], dtype=np.float32))
    X3 = jnp.array([[0.5, -1.25, 2.0], [0.0, 3.0, -0.125]], dtype=jnp.float32)
    A2 = jnp.array([[0.25, -0.5], [1.0, 0.75]], dtype=jnp.float32)
    Z4 = jnp.array([[0.5, 0.25, -1.0, 2.0], [1.5, -0.25, 0.0, 0.125]], dtype=jnp.float32)
    SA5 = jnp.concatenate((X3, A2), axis=-1)
    key = jax.random.key(7)

    def sale(s):
        r = nnx.Rngs(s)
        return SALE(MLP(3, 4, [4], "elu", r), MLP(4 + 2, 4, [4], "elu", r))

    def actor_sale(s):
        r = nnx.Rngs(s)
        return ActorSALE(MLP(4 + 4, 2, [4], "relu", r), 3, 4, r)

    def encoder(s):
        return ModelBasedEncoder(3, 2, n_bins=5, zs_dim=4, za_dim=3, zsa_dim=4, hidden_nodes=[4], activation="elu",
                                 encoder_activation_in_last_layer=True, rngs=nnx.Rngs(s))

    def enc_fwd(m):
        zs = m.encode_zs(X3)
        return zs, m.encode_zsa(zs, A2), m.model_head(zs, A2)

    return {
        "MLP": (lambda s: MLP(3, 2, [4, 4], "relu", nnx.Rngs(s)), lambda m: m(X3)),
        "MLP_linear": (lambda s: MLP(3, 2, [], "relu", nnx.Rngs(s)), lambda m: m(X3)),
        # more than ten list-indexed sub-layers: index keys '10', '11' sort before '2' as strings
        "MLP_deep12": (lambda s: MLP(3, 2, [4] * 12, "tanh", nnx.Rngs(s)), lambda m: m(X3)),
        "LayerNormMLP_deep11": (lambda s: LayerNormMLP(3, 2, [4] * 11, "elu", nnx.Rngs(s)), lambda m: m(X3)),
        "GaussianMLP_shared": (lambda s: GaussianMLP(True, 3, 2, [4], "tanh", nnx.Rngs(s)), lambda m: m(X3)),
        "GaussianMLP_separate": (lambda s: GaussianMLP(False, 3, 2, [4], "tanh", nnx.Rngs(s)), lambda m: m(X3)),
        "LayerNormMLP": (lambda s: LayerNormMLP(3, 2, [4], "relu", nnx.Rngs(s)), lambda m: m(X3)),
        "ContinuousClippedDoubleQNet": (
            lambda s: ContinuousClippedDoubleQNet(MLP(5, 1, [4], "relu", nnx.Rngs(s)), MLP(5, 1, [4], "relu", nnx.Rngs(s + 100))),
            lambda m: (m(SA5), m.mean(SA5))),
        "SALE": (sale, lambda m: (m(state=X3, action=A2), m.state_embedding(X3))),
        "ActorSALE": (actor_sale, lambda m: m(X3, Z4)),
        "CriticSALE": (lambda s: CriticSALE(MLP(4 + 8, 1, [4], "elu", nnx.Rngs(s)), 3, 2, 4, nnx.Rngs(s + 1)),
                       lambda m: m(SA5, Z4, Z4)),
        "DeterministicSALEPolicy": (lambda s: DeterministicSALEPolicy(sale(s), actor_sale(s + 1)), lambda m: m(X3)),
        "ModelBasedEncoder": (encoder, enc_fwd),
        "DeterministicPolicyWithEncoder": (
            lambda s: DeterministicPolicyWithEncoder(encoder(s), DeterministicTanhPolicy(MLP(4, 2, [4], "relu", nnx.Rngs(s + 1)), box)),
            lambda m: m(X3)),
        "GaussianMLPEnsemble": (lambda s: GaussianMLPEnsemble(3, False, 3, 2, [4], "relu", nnx.Rngs(s)),
                                lambda m: (m(X3), m.aggregate(X3))),
        "GaussianMLPEnsemble_shared": (lambda s: GaussianMLPEnsemble(2, True, 3, 2, [4], "relu", nnx.Rngs(s)),
                                       lambda m: m(X3)),
        "DeterministicTanhPolicy": (lambda s: DeterministicTanhPolicy(MLP(3, 2, [4], "relu", nnx.Rngs(s)), box),
                                    lambda m: m(X3)),
        "GaussianTanhPolicy": (lambda s: GaussianTanhPolicy(GaussianMLP(False, 3, 2, [4], "relu", nnx.Rngs(s)), box),
                               lambda m: (m(X3), m.sample(X3, key))),
        "GaussianPolicy": (lambda s: GaussianPolicy(GaussianMLP(True, 3, 2, [4], "relu", nnx.Rngs(s))),
                           lambda m: (m(X3), m.sample(X3, key), m.log_probability(X3, A2))),
        "SoftmaxPolicy": (lambda s: SoftmaxPolicy(MLP(3, 4, [4], "relu", nnx.Rngs(s))),
                          lambda m: (m(X3), m.logits(X3), m.sample(X3, key))),
        "MTMLPQNetwork": (lambda s: MTMLPQNetwork(3, 2, 3, 2, [4], "relu", nnx.Rngs(s)), lambda m: m(X3)),
    }


def perturb(module, rng, style):
    """Overwrite every leaf with generated values ('random': normal; 'special': signed zeros,
    subnormals, large magnitudes, a NaN with payload) so that the parameter values are not just
    the initialiser's."""
    import jax
    import jax.numpy as jnp
    from flax import nnx
    if style == "init":
        return
    state = nnx.state(module)

    def f(x):
        a = np.asarray(x)
        if a.dtype.kind != "f":
            return x
        v = rng.normal(0, 1.5, size=a.shape).astype(a.dtype)
        if style == "special" and v.size:
            flat = v.reshape(-1)
            specials = np.array([-0.0, 1e-42, -3e37, 2.0 ** -126, 65504.0], dtype=a.dtype)
            for i in range(min(flat.size, len(specials))):
                flat[int(rng.integers(0, flat.size))] = specials[i]
            if flat.size > 3:
                nanbits = np.array([0x7FC01234], dtype=np.uint32).view(np.float32)[0]
                flat[int(rng.integers(0, flat.size))] = nanbits if a.dtype == np.float32 else np.nan
            v = flat.reshape(a.shape)
        return jnp.asarray(v)
    nnx.update(module, jax.tree.map(f, state))


class _Paths:
    def __init__(self):
        self.code = {}

    def __call__(self, pstr):
        import re
        comps = re.findall(r"\['([^']*)'\]|\[(\d+)\]|\.(\w+)", pstr)
        out = []
        for a, b, c in comps:
            name = a or b or c
            out.append(self.code.setdefault(name, len(self.code)))
        return out


def check_modules(chk, rng, tier):
    import jax
    import orbax.checkpoint as ocp
    from flax import nnx
    from rl_blox.blox.probabilistic_ensemble import restore_checkpoint
    from rl_blox.logging.checkpointer import OrbaxCheckpointer
    from rl_blox.logging.logger import StandardLogger
    from rl_blox.util.serialize import load_pickle, save_pickle

    warnings.filterwarnings("ignore", message="Sharding info not provided")
    root = f"{BUILD}/ckpt-{os.getpid()}"
    shutil.rmtree(root, ignore_errors=True)
    os.makedirs(root, exist_ok=True)
    Z = zoo()
    styles = ["init", "random", "special"] if tier == "quick" else ["init"] + ["random", "special"] * 6
    exprs, recs = [], []
    try:
        ck = OrbaxCheckpointer(checkpoint_dir=f"{root}/orbax")
        ck.define_experiment("Env", "C19")
        sl = StandardLogger(checkpoint_dir=f"{root}/std")
        sl.define_experiment("Env", "C19")
        for name, (make, fwd) in Z.items():
            ck.define_checkpoint_frequency(name, 1)
            sl.define_checkpoint_frequency(name, 1)
            for si, style in enumerate(styles):
                case = {"module": name, "values": style, "seed": chk.seed, "variant": si}
                m = make(1 + si)
                perturb(m, rng, style)
                ref_leaves = leaves_of(m)
                ok, ref_out = chk.impl_call(f"C19:{name}:forward-raised", case, lambda: out_sig(fwd(m)))
                if not ok:
                    continue
                chk.case((name, style, si, hashlib.sha1(b"".join(s[2] for _, s in ref_leaves)).hexdigest()))
                chk.count("module_cases")
                chk.count(f"module_{name}")

                def compare(path_name, m2):
                    l2 = leaves_of(m2)
                    if [p for p, _ in l2] != [p for p, _ in ref_leaves]:
                        chk.fail(f"C19:{name}:tree-structure", f"{path_name}: reloaded module has a different parameter tree",
                                 {"case": case, "path": path_name, "original": [p for p, _ in ref_leaves], "reloaded": [p for p, _ in l2]})
                        return l2
                    bad = [p for (p, a), (_, b) in zip(ref_leaves, l2) if a != b]
                    if bad:
                        p = bad[0]
                        a = dict(ref_leaves)[p]
                        b = dict(l2)[p]
                        chk.fail(f"C19:{name}:leaves", f"{path_name}: reloaded parameter leaf differs bitwise (dtype, shape or bits)",
                                 {"case": case, "path": path_name, "leaves": bad[:6], "original": [a[0], a[1], a[2][:32].hex()],
                                  "reloaded": [b[0], b[1], b[2][:32].hex()]})
                    ok2, o2 = chk.impl_call(f"C19:{name}:forward-raised", {**case, "path": path_name}, lambda: out_sig(fwd(m2)))
                    if ok2 and o2 != ref_out:
                        chk.fail(f"C19:{name}:outputs", f"{path_name}: reloaded module gives different outputs on the same inputs",
                                 {"case": case, "path": path_name,
                                  "first_difference": next(i for i, (a, b) in enumerate(zip(ref_out, o2)) if a != b) if len(o2) == len(ref_out) else "arity"})
                    chk.count(f"reload_{path_name}")
                    return l2

                # (1) pickle helper, with and without device placement
                for dev in (None, "cpu"):
                    fn = f"{root}/{name}-{si}-{dev}.pkl"
                    ok, _ = chk.impl_call(f"C19:{name}:save_pickle-raised", case, save_pickle, fn, m, dev)
                    ok2, m2 = chk.impl_call(f"C19:{name}:load_pickle-raised", case, load_pickle, fn, nnx.graphdef(m), dev) if ok else (False, None)
                    if ok2:
                        compare(f"pickle[{dev}]", m2)
                        # histories with several loads / saves of one file name: a second load is again the saved module and shares no
                        # storage with the first; training one copy leaves the other and later loads untouched; a re-save is what is read next
                        ok3, m3 = chk.impl_call(f"C19:{name}:load_pickle-raised", case, load_pickle, fn, nnx.graphdef(m), dev)
                        if ok3:
                            compare(f"pickle[{dev}]-second-load", m3)
                            v2 = {id(v) for _, v in nnx.iter_graph(m2) if isinstance(v, nnx.Variable)}
                            v3 = {id(v) for _, v in nnx.iter_graph(m3) if isinstance(v, nnx.Variable)}
                            nnx.update(m2, jax.tree_util.tree_map(lambda x: x + 1 if jax.numpy.issubdtype(x.dtype, jax.numpy.floating) else x, nnx.state(m2)))
                            if (v2 & v3) or [a for (_, a), (_, b) in zip(ref_leaves, leaves_of(m3)) if a != b]:
                                chk.fail(f"C19:{name}:reload-shares-storage", "two modules loaded from the same file share parameter storage: changing one changed the other",
                                         {"case": case, "path": f"pickle[{dev}]"})
                            ok4, m4 = chk.impl_call(f"C19:{name}:load_pickle-raised", case, load_pickle, fn, nnx.graphdef(m), dev)
                            if ok4:
                                compare(f"pickle[{dev}]-load-after-training-a-copy", m4)
                            mb = make(1 + si)
                            nnx.update(mb, jax.tree_util.tree_map(lambda x: x * 0 + 0.5 if jax.numpy.issubdtype(x.dtype, jax.numpy.floating) else x, nnx.state(m)))
                            okb, _ = chk.impl_call(f"C19:{name}:save_pickle-raised", case, save_pickle, fn, mb, dev)
                            okc, mc = chk.impl_call(f"C19:{name}:load_pickle-raised", case, load_pickle, fn, nnx.graphdef(m), dev) if okb else (False, None)
                            if okc and [a for (_, a), (_, b) in zip(leaves_of(mb), leaves_of(mc)) if a != b]:
                                chk.fail(f"C19:{name}:resave-not-read", "after saving another module under the same file name, loading returns the earlier save",
                                         {"case": case, "path": f"pickle[{dev}]"})
                            chk.count("pickle_multi_load_histories")
                # (2) OrbaxCheckpointer.record_epoch -> save_model; StandardCheckpointer restore + nnx.update
                n0 = len(ck.checkpoint_path[name])
                ok, _ = chk.impl_call(f"C19:{name}:record_epoch-raised", case, ck.record_epoch, name, m, step=len(ck.checkpoint_path[name]) + 1)
                restored_paths = None
                if ok and len(ck.checkpoint_path[name]) == n0 + 1:
                    path = ck.checkpoint_path[name][-1]
                    fresh = make(50 + si)
                    fresh_leaves = leaves_of(fresh)

                    def restore():
                        st = ocp.StandardCheckpointer().restore(path, nnx.state(fresh))
                        nnx.update(fresh, st)
                        return fresh
                    ok2, m2 = chk.impl_call(f"C19:{name}:orbax-restore-raised", case, restore)
                    if ok2:
                        l2 = compare("orbax", m2)
                        restored_paths = (fresh_leaves, l2)
                    # (3) the repository's restore helper
                    template = make(70 + si)
                    tmpl_before = leaves_of(template)
                    ok3, m3 = chk.impl_call(f"C19:{name}:restore_checkpoint-raised", case, restore_checkpoint, path, template)
                    if ok3:
                        compare("restore_checkpoint", m3)
                        # the template only supplies the structure: it is not the restored module, keeps its own parameters, and a second
                        # checkpoint restored through the same template leaves the first restored module as it was
                        earlier = [c for c in ck.checkpoint_path[name][:-1]]
                        if m3 is template or [a for (_, a), (_, b) in zip(tmpl_before, leaves_of(template)) if a != b]:
                            chk.fail(f"C19:{name}:restore-aliases-template", "restore_checkpoint returned (or overwrote) the template it was given instead of a module of its own",
                                     {"case": case})
                        elif earlier:
                            ok5, m5 = chk.impl_call(f"C19:{name}:restore_checkpoint-raised", case, restore_checkpoint, earlier[-1], template)
                            if ok5:
                                compare("restore_checkpoint-after-second-restore-through-the-template", m3)
                                chk.count("restore_template_reuse_cases")
                elif ok:
                    chk.fail(f"C19:{name}:no-checkpoint", "record_epoch with interval 1 wrote no checkpoint", {"case": case})
                # (4) the deprecated StandardLogger's checkpoints
                n1 = len(sl.checkpoint_path[name])
                ok, _ = chk.impl_call(f"C19:{name}:stdlogger-raised", case, sl.record_epoch, name, m)
                if ok and len(sl.checkpoint_path[name]) == n1 + 1:
                    ok4, m4 = chk.impl_call(f"C19:{name}:restore_checkpoint-raised", case, restore_checkpoint,
                                            sl.checkpoint_path[name][-1], make(90 + si))
                    if ok4:
                        compare("stdlogger+restore_checkpoint", m4)
                # ---- model: where does each stored leaf go?
                if restored_paths is not None:
                    fresh_leaves, l2 = restored_paths
                    pc = _Paths()
                    ids = {}
                    file_t = [(pc(p), ids.setdefault(s, len(ids))) for p, s in ref_leaves]
                    # the target is given in reverse order: restore must fill by path, not by position
                    target_t = [(pc(p), 1000 + i) for i, (p, s) in enumerate(fresh_leaves)][::-1]
                    impl_t = [(pc(p), ids.get(s, -1)) for p, s in l2][::-1]
                    tl = lambda t: llit(t, lambda e: f"({llit(e[0], nlit)}, {zlit(e[1])})")
                    pr = '(fun t -> sl (sp (sl sn) sz) t)'
                    exprs.append(f'("[" ^ so {pr} (M.orbax_restore {tl(file_t)} {tl(target_t)}) ^ "," ^ '
                                 f'{pr} (M.load_pickle (M.save_pickle {{M.m_graph = (); m_params = {tl(file_t)}}}) ()).M.m_params ^ "," ^ '
                                 f'so (fun k -> {pr} k.M.m_params) (M.restore_checkpoint {tl(file_t)} {{M.m_graph = (); m_params = {tl(target_t)}}}) ^ "," ^ '
                                 f'{pr} (M.restore_untargeted {tl(file_t)} {{M.m_graph = (); m_params = {tl(file_t)}}}).M.m_params ^ "]")')
                    recs.append((case, [[p, i] for p, i in impl_t], [[p, i] for p, i in file_t]))
        res = chk.model_eval(exprs)
        for (case, impl_t, file_t), (m_orbax, m_pickle, m_rc, m_unt) in zip(recs, res):
            if m_orbax != impl_t:
                chk.disagree("tree.orbax_restore", {"case": case, "impl": impl_t[:8], "model": (m_orbax or [])[:8]})
            if m_pickle != file_t or m_rc != impl_t:
                chk.disagree("tree.pickle/restore_checkpoint", {"case": case, "model_pickle": m_pickle[:8], "model_restore_checkpoint": (m_rc or [])[:8], "file": file_t[:8]})
            # the pre-repair variant of the model (no restore target) must be wrong exactly for the modules with more than ten list entries
            chk.count("untargeted_restore_would_permute" if m_unt != file_t else "untargeted_restore_would_be_identity")
        checkpoint_histories(chk, rng, tier, Z, root)
    finally:
        shutil.rmtree(root, ignore_errors=True)
    chk.count("module_types", len(Z))
    return sorted(Z)


def checkpoint_histories(chk, rng, tier, Z, root):
    """One checkpointing logger over a whole history of record_epoch calls (several training runs logged through the same
    logger, so the step counter restarts and revisits values; changing parameters between calls): every path the logger
    lists must still restore to the parameters the module had when that path was written."""
    from rl_blox.blox.probabilistic_ensemble import restore_checkpoint
    from rl_blox.logging.checkpointer import OrbaxCheckpointer
    names = sorted(Z)
    names = [names[i] for i in rng.choice(len(names), size=3 if tier == "quick" else 8, replace=False)]
    for hi, name in enumerate(names):
        make, fwd = Z[name]
        freq = int([1, 2, 5, 3][hi % 4])
        ck = OrbaxCheckpointer(checkpoint_dir=f"{root}/hist-{hi}")
        ck.define_experiment("Env", "C19h")
        ck.define_checkpoint_frequency(name, freq)
        m = make(3 + hi)
        steps = []
        for _run in range(2 + hi % 2):
            s = 0
            for _ in range(int(rng.integers(3, 7))):
                s += int(rng.integers(1, 4))
                steps.append(s)
        case = {"module": name, "frequency": freq, "steps": steps, "seed": chk.seed}
        chk.case(("ckpt-history", name, freq, tuple(steps)))
        chk.count("checkpoint_history_cases")
        saved = []
        hist = []         # (step, was a checkpoint written?, index of the written value) - the history the model replays
        ok = True
        for s in steps:
            perturb(m, rng, "random")
            n0 = len(ck.checkpoint_path[name])
            ok, _ = chk.impl_call(f"C19:{name}:record_epoch-raised", {**case, "at_step": s}, ck.record_epoch, name, m, step=s)
            if not ok:
                break
            paths = ck.checkpoint_path[name]
            hist.append((s, len(paths) > n0, len(saved) if len(paths) > n0 else -1))
            if len(paths) > n0:
                saved.append((paths[-1], leaves_of(m), s))
        if not ok:
            continue
        restored_ids = []
        chk.count("checkpoint_history_saves", len(saved))
        if len(ck.checkpoint_path[name]) != len(saved):
            chk.fail(f"C19:{name}:checkpoint-history", "one record_epoch call listed more than one checkpoint path", {"case": case})
            continue
        for k, (path, ref, s) in enumerate(saved):
            okr, mr = chk.impl_call(f"C19:{name}:restore_checkpoint-raised", {**case, "checkpoint": k}, restore_checkpoint, path, make(40 + hi))
            if not okr:
                break
            lr = leaves_of(mr)
            bad = [p for (p, a), (_, b) in zip(ref, lr) if a != b] if [p for p, _ in lr] == [p for p, _ in ref] else ["<tree structure>"]
            if bad:
                later = [j for j, (p2, _, _) in enumerate(saved) if j > k and os.path.normpath(p2) == os.path.normpath(path)]
                chk.fail(f"C19:{name}:checkpoint-history",
                         "a checkpoint listed by the checkpointing logger no longer restores to the parameters the module had when it was written"
                         + (" (a later checkpoint was written to the same path)" if later else ""),
                         {"case": case, "checkpoint_index": k, "written_at_step": s, "path": os.path.basename(os.path.normpath(path)),
                          "leaves": bad[:6], "later_saves_to_the_same_path": later})
                break
            chk.count("checkpoint_history_restores")
        # model: the checkpoint directory under the repository's naming rule (step and epoch counter)
        for k, (path, ref, s) in enumerate(saved):
            okr, mr = chk.impl_call(f"C19:{name}:restore_checkpoint-raised", {**case, "checkpoint": k}, restore_checkpoint, path, make(40 + hi))
            lr = leaves_of(mr) if okr else None
            restored_ids.append(next((j for j, (_, rj, _) in enumerate(saved) if lr is not None and [b for _, b in rj] == [b for _, b in lr]), None))
        lit = llit(hist, lambda e: f"(({zlit(e[0])}, {'true' if e[1] else 'false'}), {zlit(e[2])})")
        mres = chk.model_eval([f"(sl (so sz) (M.ck_restore_all M.name_step_epoch {lit}))"])[0]
        if mres != restored_ids:
            chk.disagree("checkpoint-directory", {"case": case, "history": [list(e) for e in hist], "impl_restored_save_index": restored_ids, "model": mres})
