"""C14 — tabular learners apply their textbook update to exactly one entry."""
import fractions

import numpy as np

from common import blit, frac, llit, nlit, parse_f, parse_q, qlit
from stubs import TabularEnv

F = fractions.Fraction
DY = [F(0), F(1, 4), F(1, 2), F(1)]


def tab_lit(t):
    return llit(t, lambda row: llit(row, qlit))


def ftab_lit(t):
    return llit(t, lambda row: llit(row, lambda x: repr(float(x))))


def rand_table(rng, ns, na):
    return [[F(int(rng.integers(-16, 17)), 4) for _ in range(na)] for _ in range(ns)]


def to_frac_table(arr):
    return [[frac(x) for x in row] for row in np.asarray(arr)]


TAB_PR = "(sl (sl sq))"


def single_update_cases(chk, rng, n):
    import jax.numpy as jnp
    from rl_blox.algorithm import double_q_learning as dq
    from rl_blox.algorithm import dynaq, q_learning, sarsa
    exprs, recs = [], []
    for i in range(n):
        ns, na = int(rng.integers(2, 6)), int(rng.integers(2, 4))
        t1, t2 = rand_table(rng, ns, na), rand_table(rng, ns, na)
        if rng.random() < 0.3:   # ties in the successor row
            t1[int(rng.integers(0, ns))] = [F(1)] * na
        s, a, s2, a2 = int(rng.integers(0, ns)), int(rng.integers(0, na)), int(rng.integers(0, ns)), int(rng.integers(0, na))
        r = F(int(rng.integers(-8, 9)), 4)
        g, lr = DY[int(rng.integers(0, 4))], DY[int(rng.integers(0, 4))]
        term = bool(rng.integers(0, 2))
        j1, j2 = jnp.asarray(np.array(t1, dtype=np.float32)), jnp.asarray(np.array(t2, dtype=np.float32))
        kind = ["ql", "sarsa", "dql", "dyna"][i % 4]
        case = {"kind": kind, "table": [[str(x) for x in row] for row in t1], "other_table": [[str(x) for x in row] for row in t2],
                "s": s, "a": a, "r": str(r), "s_next": s2, "a_next": a2, "gamma": str(g), "lr": str(lr), "terminated": term}
        if kind == "ql":
            out = q_learning._update_policy(j1, s, a, float(r), s2, a2, float(g), term, float(lr))
            e = f"M.update_policy q_ops {tab_lit(t1)} {nlit(s)} {nlit(a)} {qlit(r)} {nlit(s2)} {nlit(a2)} {qlit(g)} {blit(term)} {qlit(lr)}"
            vnext = t1[s2][a2]
            spec = t1[s][a] + lr * (r + g * (0 if term else 1) * vnext - t1[s][a])
        elif kind == "sarsa":
            out = sarsa._update_policy(j1, s, a, float(r), s2, a2, float(g), float(lr), term)
            e = f"M.update_policy q_ops {tab_lit(t1)} {nlit(s)} {nlit(a)} {qlit(r)} {nlit(s2)} {nlit(a2)} {qlit(g)} {blit(term)} {qlit(lr)}"
            spec = t1[s][a] + lr * (r + g * (0 if term else 1) * t1[s2][a2] - t1[s][a])
        elif kind == "dql":
            import jax
            out = dq._dql_update(jax.random.key(0), j1, j2, s, a, float(r), s2, float(g), float(lr), term)
            e = f"M.dql_update q_ops {tab_lit(t1)} {tab_lit(t2)} {nlit(s)} {nlit(a)} {qlit(r)} {nlit(s2)} {qlit(g)} {qlit(lr)} {blit(term)}"
            astar = max(range(na), key=lambda k: (t1[s2][k], -k))
            spec = t1[s][a] + lr * (r + g * (0 if term else 1) * t2[s2][astar] - t1[s][a])
        else:
            out = dynaq.q_learning_update(s, a, float(r), s2, float(g), float(lr), j1)
            e = f"M.dyna_q_update q_ops {tab_lit(t1)} {nlit(s)} {nlit(a)} {qlit(r)} {nlit(s2)} {qlit(g)} {qlit(lr)}"
            spec = t1[s][a] + lr * (r + g * max(t1[s2]) - t1[s][a])
        exprs.append(f"({TAB_PR} ({e}))")
        recs.append((case, to_frac_table(out), t1, s, a, spec))
    res = chk.model_eval(exprs)
    for (case, out, t1, s, a, spec), mr in zip(recs, res):
        chk.case(("single", str(case)), nontrivial=True)
        chk.count("single_" + case["kind"])
        mt = [[parse_q(x) for x in row] for row in mr]
        if out != mt:
            chk.disagree(f"{case['kind']}.update", {"case": case, "impl": [[str(x) for x in r] for r in out], "model": mr})
        exp = [list(row) for row in t1]
        exp[s][a] = spec
        if out != exp:
            chk.fail(f"C14:{case['kind']}:update", "update is not the textbook update of exactly the visited entry",
                     {"case": case, "observed": [[str(x) for x in r] for r in out], "expected": [[str(x) for x in r] for r in exp]})


def mc_cases(chk, rng, n):
    import jax.numpy as jnp
    from rl_blox.algorithm import monte_carlo
    exprs, recs = [], []
    for _ in range(n):
        ns, na = int(rng.integers(2, 5)), int(rng.integers(2, 4))
        q = np.zeros((ns, na), dtype=np.float32)
        nv = np.zeros((ns, na), dtype=np.float32)
        gamma = float(rng.choice([0.0, 0.5, 1.0, 0.9]))
        eps = []
        qj, nj = jnp.asarray(q), jnp.asarray(nv)
        for _ in range(int(rng.integers(1, 5))):
            L = int(rng.integers(1, 7))
            ep = [(int(rng.integers(0, ns)), int(rng.integers(0, na)), float(rng.integers(-8, 9)) / 4) for _ in range(L)]
            eps.append(ep)
            qj, nj = monte_carlo.update(qj, nj, jnp.asarray([e[2] for e in ep], dtype=jnp.float32),
                                        jnp.asarray([e[0] for e in ep], dtype=jnp.int32), jnp.asarray([e[1] for e in ep], dtype=jnp.int32), gamma)
        ep_lit = llit(eps, lambda ep: llit(ep, lambda e: f"(({nlit(e[0])}, {nlit(e[1])}), {e[2]!r})"))
        exprs.append(
            f'(let (q, n) = List.fold_left (fun (q, n) ep -> M.mc_update float_ops q n ep {gamma!r}) '
            f'(M.zeros2 float_ops {nlit(ns)} {nlit(na)}, M.zeros2 float_ops {nlit(ns)} {nlit(na)}) {ep_lit} in '
            f'"[" ^ sl (sl sf) q ^ "," ^ sl (sl sf) n ^ "]")')
        recs.append((ns, na, gamma, eps, np.asarray(qj, dtype=float), np.asarray(nj, dtype=float)))
    res = chk.model_eval(exprs)
    for (ns, na, gamma, eps, q, nv), (mq, mn) in zip(recs, res):
        chk.case(("mc", ns, na, gamma, str(eps)), nontrivial=sum(len(e) for e in eps) > 1)
        chk.count("mc_histories")
        case = {"n_states": ns, "n_actions": na, "gamma": gamma, "episodes": eps}
        mq = np.array([[parse_f(x) for x in row] for row in mq])
        mn = np.array([[parse_f(x) for x in row] for row in mn])
        if not (np.allclose(q, mq, rtol=1e-5, atol=1e-6) and np.array_equal(nv, mn)):
            chk.disagree("monte_carlo.update", {"case": case, "impl": [q.tolist(), nv.tolist()], "model": [mq.tolist(), mn.tolist()]})
        # spec: arithmetic mean of all observed discounted returns
        rets = {}
        for ep in eps:
            G = 0.0
            for (s, a, r) in reversed(ep):
                G = r + gamma * G
                rets.setdefault((s, a), []).append(G)
        for (s, a), gs in rets.items():
            if abs(q[s, a] - np.mean(gs)) > 1e-4 * (1 + abs(np.mean(gs))) or nv[s, a] != len(gs):
                chk.fail("C14:monte_carlo:running-mean", "entry is not the running mean of its observed discounted returns",
                         {"case": case, "entry": [s, a], "observed": float(q[s, a]), "expected": float(np.mean(gs)), "visits": float(nv[s, a])})
        for s in range(ns):
            for a in range(na):
                if (s, a) not in rets and (q[s, a] != 0 or nv[s, a] != 0):
                    chk.fail("C14:monte_carlo:frame", "an entry that was never visited changed", {"case": case, "entry": [s, a]})


def planning_cases(chk, rng, n):
    """dynaq.planning on a learned model and a non-zero table: every replay applies the greedy-successor update to the table as
    the previous replay left it (sequential), on the replayed (s, a) drawn by the key"""
    import jax
    import jax.numpy as jnp
    from rl_blox.algorithm import dynaq
    exprs, recs = [], []
    for k in range(n):
        ns, na = int(rng.integers(2, 5)), int(rng.integers(1, 4))
        counter = dynaq.Counter(
            transition_counter=[[[0 for _ in range(ns)] for _ in range(na)] for _ in range(ns)],
            reward_history=[[[[] for _ in range(ns)] for _ in range(na)] for _ in range(ns)])
        model = dynaq.ForwardModel(transition=jnp.zeros((ns, na, ns)), reward=jnp.zeros((ns, na, ns)))
        hist, obs_buf, act_buf = [], [], []
        for _ in range(int(rng.integers(2, 12))):
            s, a = int(rng.integers(0, ns)), int(rng.integers(0, na))
            s2, r = int(rng.integers(0, ns)), float(rng.integers(-8, 9)) / 4
            counter = dynaq.counter_update(counter, s, a, r, s2)
            model = dynaq.model_update(model, counter, s, a, s2)
            hist.append((s, a, r, s2))
            obs_buf.append(s)
            act_buf.append(a)
        n_plan = int([1, 2, 4, 6][k % 4])
        g, lr = float(rng.choice([0.5, 0.75, 1.0])), float(rng.choice([0.25, 0.5, 1.0]))
        q0 = (rng.integers(-8, 9, size=(ns, na)) / 4).astype(np.float32)
        key = jax.random.key(int(rng.integers(0, 1000)))
        out = np.asarray(dynaq.planning(model.transition, model.reward, jnp.asarray(obs_buf, dtype=int), jnp.asarray(act_buf, dtype=int), n_plan, key, g, lr,
                                        jnp.asarray(q0)), dtype=float)
        _, sk = jax.random.split(key, 2)
        idx = np.asarray(jax.random.randint(sk, (n_plan,), 0, len(obs_buf)))
        samples = [(obs_buf[i], act_buf[i]) for i in idx]
        T, Rw = np.asarray(model.transition, dtype=float), np.asarray(model.reward, dtype=float)
        ref = q0.astype(float).copy()
        for s, a in samples:
            s2 = int(np.argmax(T[s, a]))
            ref[s, a] += lr * (Rw[s, a, s2] + g * ref[s2].max() - ref[s, a])
        case = {"n_states": ns, "n_actions": na, "transitions": hist, "replayed": samples, "gamma": g, "learning_rate": lr, "q_table": q0.tolist()}
        chk.case(("planning", k, ns, na, n_plan))
        chk.count("planning_cases")
        if not np.allclose(out, ref, rtol=1e-5, atol=1e-5):
            chk.fail("C14:dynaq:planning", "a planning sweep is not the sequence of greedy-successor updates on the replayed model transitions",
                     {"case": case, "impl": out.tolist(), "expected": ref.tolist()})
        h_lit = llit(hist, lambda h: f"((({nlit(h[0])}, {nlit(h[1])}), {h[2]!r}), {nlit(h[3])})")
        exprs.append(
            f'(let d = List.fold_left (fun d (((s, a), r), s2) -> M.model_update float_ops (M.counter_update d s a r s2) s a s2) '
            f'(M.dyna_init float_ops {nlit(ns)} {nlit(na)}) {h_lit} in sl (sl sf) (M.planning float_ops d {llit(samples, lambda e: f"({nlit(e[0])}, {nlit(e[1])})")} '
            f'{g!r} {lr!r} {llit(q0.tolist(), lambda row: llit(row, lambda v: repr(float(v)) if v >= 0 else "(" + repr(float(v)) + ")"))}))')
        recs.append((case, out))
    for (case, out), mr in zip(recs, chk.model_eval(exprs, per_file=40)):
        m = np.array([[parse_f(v) for v in row] for row in mr])
        if m.shape != out.shape or not np.allclose(out, m, rtol=1e-5, atol=1e-5):
            chk.disagree("dynaq.planning", {"case": case, "impl": out.tolist(), "model": m.tolist()})


def dyna_model_cases(chk, rng, n):
    import jax.numpy as jnp
    from rl_blox.algorithm import dynaq
    exprs, recs = [], []
    for _ in range(n):
        ns, na = int(rng.integers(2, 5)), int(rng.integers(1, 4))
        counter = dynaq.Counter(
            transition_counter=[[[0 for _ in range(ns)] for _ in range(na)] for _ in range(ns)],
            reward_history=[[[[] for _ in range(ns)] for _ in range(na)] for _ in range(ns)])
        model = dynaq.ForwardModel(transition=jnp.zeros((ns, na, ns)), reward=jnp.zeros((ns, na, ns)))
        hist = []
        for _ in range(int(rng.integers(1, 16))):
            s, a = int(rng.integers(0, min(ns, 2))), int(rng.integers(0, na))   # few (s,a): stochastic successors show up
            s2, r = int(rng.integers(0, ns)), float(rng.integers(-8, 9)) / 4
            counter = dynaq.counter_update(counter, s, a, r, s2)
            model = dynaq.model_update(model, counter, s, a, s2)
            hist.append((s, a, r, s2))
        h_lit = llit(hist, lambda h: f"((({nlit(h[0])}, {nlit(h[1])}), {h[2]!r}), {nlit(h[3])})")
        exprs.append(
            f'(let d = List.fold_left (fun d (((s, a), r), s2) -> M.model_update float_ops (M.counter_update d s a r s2) s a s2) '
            f'(M.dyna_init float_ops {nlit(ns)} {nlit(na)}) {h_lit} in "[" ^ sl (sl (sl sf)) d.M.d_trans ^ "," ^ sl (sl (sl sf)) d.M.d_rew ^ "]")')
        recs.append((ns, na, hist, np.asarray(model.transition, dtype=float), np.asarray(model.reward, dtype=float)))
    res = chk.model_eval(exprs)
    for (ns, na, hist, T, Rw), (mT, mR) in zip(recs, res):
        chk.case(("dyna_model", ns, na, str(hist)), nontrivial=len(hist) > 1)
        chk.count("dyna_model_histories")
        case = {"n_states": ns, "n_actions": na, "transitions": hist}
        mT = np.array([[[parse_f(x) for x in r] for r in p] for p in mT])
        mR = np.array([[[parse_f(x) for x in r] for r in p] for p in mR])
        if not (np.allclose(T, mT, rtol=1e-6, atol=1e-7) and np.allclose(Rw, mR, rtol=1e-6, atol=1e-7)):
            chk.disagree("dynaq.model_update", {"case": case, "impl": [T.tolist(), Rw.tolist()], "model": [mT.tolist(), mR.tolist()]})
        cnt, rew = {}, {}
        for (s, a, r, s2) in hist:
            cnt[(s, a, s2)] = cnt.get((s, a, s2), 0) + 1
            rew.setdefault((s, a, s2), []).append(r)
        for (s, a) in {(s, a) for (s, a, _, _) in hist}:
            tot = sum(v for (s1, a1, _), v in cnt.items() if (s1, a1) == (s, a))
            for s2 in range(ns):
                exp = cnt.get((s, a, s2), 0) / tot
                if abs(T[s, a, s2] - exp) > 1e-6:
                    chk.fail("C14:dynaq:model-empirical", "learned transition model differs from the empirical successor frequencies",
                             {"case": case, "entry": [s, a, s2], "observed": float(T[s, a, s2]), "expected": exp})
                if (s, a, s2) in rew and abs(Rw[s, a, s2] - np.mean(rew[(s, a, s2)])) > 1e-6:
                    chk.fail("C14:dynaq:model-reward", "learned reward model differs from the mean observed reward",
                             {"case": case, "entry": [s, a, s2]})


def recorded_runs(chk, rng, n):
    """Short runs of the five train_* functions: every update call is recorded by wrapping
    the module-level jitted update; its arguments must be the environment's transition
    and its result the model's update of its arguments."""
    import jax.numpy as jnp
    from rl_blox.algorithm import double_q_learning as dq
    from rl_blox.algorithm import dynaq, monte_carlo, q_learning, sarsa
    exprs, recs = [], []
    for i in range(n):
        ns, na = 4, 2
        script = [(int(rng.integers(1, 5)), str(rng.choice(["term", "trunc"]))) for _ in range(3)]
        T = int(rng.integers(3, 14))
        lr, g = float(DY[int(rng.integers(1, 4))]), float(DY[int(rng.integers(0, 4))])
        kind = ["ql", "sarsa", "dql", "dyna"][i % 4]
        env = TabularEnv(ns, na, script, seed=int(rng.integers(0, 1000)))
        calls = []
        if kind in ("ql", "sarsa"):
            mod = q_learning if kind == "ql" else sarsa
            orig = mod._update_policy

            def rec(*a, _o=orig):
                out = _o(*a)
                calls.append((a, out))
                return out
            mod._update_policy = rec
            try:
                fn = mod.train_q_learning if kind == "ql" else mod.train_sarsa
                fn(env, jnp.zeros((ns, na), dtype=jnp.float32), learning_rate=lr, epsilon=0.5, gamma=g,
                   total_timesteps=T, seed=int(rng.integers(0, 100)), progress_bar=False)
            finally:
                mod._update_policy = orig
        elif kind == "dql":
            orig = dq._dql_update

            def rec(*a, _o=orig):
                out = _o(*a)
                calls.append((a, out))
                return out
            dq._dql_update = rec
            try:
                dq.train_double_q_learning(env, jnp.zeros((ns, na), dtype=jnp.float32), jnp.zeros((ns, na), dtype=jnp.float32),
                                           learning_rate=lr, epsilon=0.5, gamma=g, total_timesteps=T,
                                           seed=int(rng.integers(0, 100)), progress_bar=False)
            finally:
                dq._dql_update = orig
        else:
            orig = dynaq.q_learning_update

            def rec(*a, _o=orig):
                out = _o(*a)
                calls.append((a, out))
                return out
            dynaq.q_learning_update = rec
            try:
                dynaq.train_dynaq(env, jnp.zeros((ns, na), dtype=jnp.float32), gamma=g, learning_rate=lr, epsilon=0.5,
                                  n_planning_steps=0, total_timesteps=T, seed=int(rng.integers(0, 100)), progress_bar=False)
            finally:
                dynaq.q_learning_update = orig
        steps = [e for e in env.log if e[0] == "step"]
        chk.case(("run", kind, tuple(script), T, lr, g), nontrivial=T > 2)
        chk.count("runs_" + kind)
        case = {"kind": kind, "script": script, "steps": T, "lr": lr, "gamma": g}
        if len(calls) != len(steps):
            chk.fail(f"C14:{kind}:run-update-count", "number of table updates differs from the number of environment steps",
                     {"case": case, "updates": len(calls), "env_steps": len(steps)})
            continue
        for (a, out), st in zip(calls, steps):
            _, s, act, r, s2, term, trunc = st
            if kind == "ql":
                got = (int(a[1]), int(a[2]), float(a[3]), int(a[4]), bool(a[7]))
                tab = to_frac_table(a[0])
                a2 = int(a[5])
                e = f"M.update_policy q_ops {tab_lit(tab)} {nlit(s)} {nlit(act)} {qlit(r)} {nlit(s2)} {nlit(a2)} {qlit(g)} {blit(term)} {qlit(lr)}"
                greedy_ok = a2 == max(range(na), key=lambda k: (tab[s2][k], -k))
                if not greedy_ok:
                    chk.fail("C14:ql:run-next-action", "Q-learning bootstraps from a non-greedy successor action", {"case": case, "step": st})
            elif kind == "sarsa":
                got = (int(a[1]), int(a[2]), float(a[3]), int(a[4]), bool(a[8]))
                tab = to_frac_table(a[0])
                e = f"M.update_policy q_ops {tab_lit(tab)} {nlit(s)} {nlit(act)} {qlit(r)} {nlit(s2)} {nlit(int(a[5]))} {qlit(g)} {blit(term)} {qlit(lr)}"
            elif kind == "dql":
                got = (int(a[3]), int(a[4]), float(a[5]), int(a[6]), bool(a[9]))
                tab, tab2 = to_frac_table(a[1]), to_frac_table(a[2])
                e = f"M.dql_update q_ops {tab_lit(tab)} {tab_lit(tab2)} {nlit(s)} {nlit(act)} {qlit(r)} {nlit(s2)} {qlit(g)} {qlit(lr)} {blit(term)}"
            else:
                got = (int(a[0]), int(a[1]), float(a[2]), int(a[3]), term)
                tab = to_frac_table(a[6])
                e = f"M.dyna_q_update q_ops {tab_lit(tab)} {nlit(s)} {nlit(act)} {qlit(r)} {nlit(s2)} {qlit(g)} {qlit(lr)}"
            if got != (s, act, r, s2, term):
                chk.fail(f"C14:{kind}:run-update-args", "the update did not receive the transition the environment produced",
                         {"case": case, "env_step": st, "update_args": got})
            exprs.append(f"({TAB_PR} ({e}))")
            recs.append((case, st, to_frac_table(out)))
    res = chk.model_eval(exprs)
    for (case, st, out), mr in zip(recs, res):
        mt = [[parse_q(x) for x in row] for row in mr]
        if out != mt:
            chk.disagree(f"{case['kind']}.run-update", {"case": case, "env_step": st, "impl": [[str(x) for x in r] for r in out], "model": mr})


def main(chk):
    chk.proof_step()
    rng = np.random.default_rng(chk.seed)
    q = chk.tier == "quick"
    single_update_cases(chk, rng, 240 if q else 8000)
    mc_cases(chk, rng, 40 if q else 1500)
    dyna_model_cases(chk, rng, 60 if q else 2000)
    planning_cases(chk, rng, 24 if q else 400)
    import tabruns
    for k in range(4 if q else 40):      # the model as train_dynaq itself builds and refreshes it (its own counters), on stochastic successors
        script = [(int(rng.choice([3, 5, 8])), str(rng.choice(["term", "trunc"]))) for _ in range(3)]
        ns, na, total = int(rng.choice([2, 3])), int(rng.choice([2, 3])), int(rng.choice([12, 20]))
        res = tabruns.run("dynaq", ns, na, script, total, seed=int(rng.integers(0, 1000)), epsilon=0.7)
        case = {"routine": "train_dynaq", "script": script, "total_timesteps": total, "n_states": ns, "n_actions": na}
        chk.case(("dyna-run", str(case)))
        chk.count("dynaq_model_runs")
        bad = None if res["raised"] else tabruns.check_dyna_model(res)
        if bad:
            chk.fail("C14:dynaq:model-empirical", bad[0], {"case": case, **bad[1]})
    recorded_runs(chk, rng, 12 if q else 200)
    chk.sample({"kind": "single updates", "note": "tables of dyadic entries k/4, lr and gamma in {0,1/4,1/2,1}: float32 results are exact and must equal the rational model"})
    return chk.finish(
        rule="jitted update functions called on random dyadic tables (2-5 states, 2-3 actions, ties in the successor row, all lr/gamma in "
             "{0,1/4,1/2,1}, both termination flags; exact comparison with the rational model); Monte-Carlo episode sequences and Dyna-Q "
             "model histories with stochastic successors (float tolerance 1e-5); short recorded runs of train_q_learning / train_sarsa / "
             "train_double_q_learning / train_dynaq on a scripted stochastic environment with every update call recorded",
        assumptions=["JAX indexed update (.at[].add/.set) trusted as executed", "exact regime: dyadic inputs make float32 arithmetic exact",
                     "Monte-Carlo 1/n and model frequencies compared with tolerance 1e-5/1e-6"])
