"""C17 — PETS model: ensemble consistency, bootstraps and plan evaluation.

Correspondence of the extracted Coq model (coq/Model/Ensemble.v) with the real classes and
functions of rl_blox, plus the property's own spec evaluated on the implementation's outputs
(keys C17:<site>:<kind>), independent of the model.
"""
import collections
import fractions
import math
import types

import numpy as np

from common import frac, llit, nlit, parse_f, parse_q, qlit

F = fractions.Fraction
RTOL, ATOL = 2e-5, 2e-6          # float32 JAX code vs float64 model
ST = "(let rec st t = match t with M.PSc x -> sf x | M.PNd l -> sl st l in st)"
PAIR = f'(fun r -> match r with None -> "null" | Some (a, b) -> "[" ^ {ST} a ^ "," ^ {ST} b ^ "]")'


# ----------------------------------------------------------------------------- literals
def flit(x) -> str:
    x = float(x)
    if math.isnan(x):
        return "nan"
    if math.isinf(x):
        return "infinity" if x > 0 else "neg_infinity"
    return f"({x!r})"


def vlit(v) -> str:
    return llit(list(np.asarray(v, dtype=float).ravel()), flit)


def mlit(m) -> str:
    return llit(list(np.asarray(m, dtype=float)), vlit)


def t3lit(t) -> str:
    return llit(list(np.asarray(t, dtype=float)), mlit)


def tree(x):
    """nested list of hex-float strings -> nested list of floats (None stays None)."""
    if x is None:
        return None
    if isinstance(x, list):
        return [tree(e) for e in x]
    return parse_f(x)


def close(impl, model, rtol=RTOL, atol=ATOL):
    """Same shape and values within the float32 band."""
    a, b = np.asarray(impl, dtype=float), np.asarray(model, dtype=float)
    if a.shape != b.shape:
        return False
    if a.size == 0:
        return True
    both_inf = np.isinf(a) & np.isinf(b) & (np.sign(a) == np.sign(b))
    with np.errstate(invalid="ignore"):
        ok = np.abs(a - b) <= atol + rtol * np.abs(b)
    return bool(np.all(ok | both_inf))


def tolist(a):
    return np.asarray(a, dtype=float).tolist()


# ----------------------------------------------------------------------------- ensembles
ACTS = {"relu": "(M.pe_relu float_ops)", "tanh": "tanh", "swish": "(M.pe_swish float_ops)"}


def dy(rng, shape, lo=-8, hi=9, den=4):
    return rng.integers(lo, hi, size=shape).astype(np.float32) / den


def ensemble_from_spec(spec):
    """Real GaussianMLPEnsemble with the weights of [spec] assigned; returns (ens, OCaml literal)."""
    import jax.numpy as jnp
    from flax import nnx
    from rl_blox.blox.probabilistic_ensemble import GaussianMLPEnsemble
    E, n_out, shared = spec["n_ensemble"], spec["n_outputs"], spec["shared_head"]
    ens = GaussianMLPEnsemble(E, shared, spec["n_features"], n_out, list(spec["hidden_nodes"]), spec["activation"], nnx.Rngs(0))
    f32 = lambda a: np.asarray(a, dtype=np.float32)     # noqa: E731
    hid = [(f32(k), f32(b)) for k, b in spec["hidden"]]
    heads = [(f32(k), f32(b)) for k, b in spec["heads"]]
    for layer, (k, b) in zip(ens.ensemble.hidden_layers, hid):
        layer.kernel.value, layer.bias.value = jnp.asarray(k), jnp.asarray(b)
    for layer, (k, b) in zip(ens.ensemble.output_layers, heads):
        layer.kernel.value, layer.bias.value = jnp.asarray(k), jnp.asarray(b)
    rmin, rmax = f32(spec["raw_min_log_var"]), f32(spec["raw_max_log_var"])
    ens.raw_min_log_var.value, ens.raw_max_log_var.value = jnp.asarray(rmin), jnp.asarray(rmax)

    def layer_lit(k, b, e):      # kernel by columns
        return f"({mlit(k[e].T)}, {vlit(b[e])})"
    members = []
    for e in range(E):
        members.append("{M.pg_hidden = " + llit(hid, lambda kb: layer_lit(kb[0], kb[1], e)) +
                       f"; pg_shared = {'true' if shared else 'false'}; pg_heads = " +
                       llit(heads, lambda kb: layer_lit(kb[0], kb[1], e)) + f"; pg_nout = {nlit(n_out)}}}")
    lit = "{M.pe_members = " + "[" + "; ".join(members) + "]" + f"; pe_raw_min = {vlit(rmin)}; pe_raw_max = {vlit(rmax)}}}"
    return ens, lit


def make_ensemble(rng, E, n_in, n_out, shared, hidden, act, lv_bias=None):
    """Random dyadic weight spec (kernels k/4 in [-1,1], biases k/4 in [-2,2], raw bound parameters k/4 in
    [-3,3], different per output dimension); returns (ens, OCaml literal, spec)."""
    dims = [n_in] + list(hidden)
    hid = [(dy(rng, (E, dims[j], dims[j + 1]), -4, 5), dy(rng, (E, dims[j + 1]), -4, 5)) for j in range(len(hidden))]
    heads = []
    for j, width in enumerate([2 * n_out] if shared else [n_out, n_out]):
        k, b = dy(rng, (E, dims[-1], width), -4, 5), dy(rng, (E, width))
        if lv_bias is not None:          # prescribed raw log-variances: zero kernel, given bias
            if shared:
                k[:, :, n_out:] = 0
                b[:, n_out:] = lv_bias
            elif j == 1:
                k[:] = 0
                b[:] = lv_bias
        heads.append((k, b))
    spec = {"n_ensemble": E, "n_features": n_in, "n_outputs": n_out, "shared_head": bool(shared), "hidden_nodes": list(hidden),
            "activation": act, "hidden": [[k.tolist(), b.tolist()] for k, b in hid], "heads": [[k.tolist(), b.tolist()] for k, b in heads],
            "raw_min_log_var": dy(rng, (n_out,), -12, 13).tolist(), "raw_max_log_var": dy(rng, (n_out,), -12, 13).tolist()}
    ens, lit = ensemble_from_spec(spec)
    return ens, lit, spec


def slack(mn, mx):
    return np.log1p(np.exp(-(mx - mn)))


def run_ensemble_case(chk, case):
    """Implementation calls + the property's spec on the implementation's own outputs, for one recorded case
    (also the entry point of bin/replay). Returns what the model comparison needs, or None."""
    import jax.numpy as jnp
    ens, elit = ensemble_from_spec(case["ensemble"])
    E, n_out, i = case["ensemble"]["n_ensemble"], case["ensemble"]["n_outputs"], case["member"]
    X, X3, x = (np.asarray(case[k], dtype=np.float32) for k in ("X", "X3", "x"))
    B = X.shape[0]
    mn, mx = np.asarray(ens.min_log_var, dtype=float), np.asarray(ens.max_log_var, dtype=float)
    out = {}
    # ---- implementation
    ok, r = chk.impl_call("C17:call:batch-raises", case, lambda: ens(jnp.asarray(X)))
    if not ok:
        return None
    means, lvs = np.asarray(r[0], dtype=float), np.asarray(r[1], dtype=float)
    ok, r = chk.impl_call("C17:call:individual-raises", case, lambda: ens(jnp.asarray(X3)))
    means3, lvs3 = (np.asarray(r[0], dtype=float), np.asarray(r[1], dtype=float)) if ok else (None, None)
    ok1, r1 = chk.impl_call("C17:call:batch-raises", case, lambda: ens(jnp.asarray(x[None])))
    if not ok1:
        return None
    means1, lvs1 = np.asarray(r1[0], dtype=float)[:, 0], np.asarray(r1[1], dtype=float)[:, 0]   # slice of the joint pass at x
    out["agg_b"] = chk.impl_call("C17:aggregate:batch-raises", case, lambda: ens.aggregate(jnp.asarray(X)))
    out["agg_v"] = chk.impl_call("C17:aggregate:vector-raises", case, lambda: ens.aggregate(jnp.asarray(x)))
    out["bp_b"] = chk.impl_call("C17:base_predict:batch-raises", case, lambda: ens.base_predict(jnp.asarray(X), i))
    out["bp_v"] = chk.impl_call("C17:base_predict:vector-raises", case, lambda: ens.base_predict(jnp.asarray(x), i))

    def dist(inp):
        d = ens.base_distribution(jnp.asarray(inp), i)
        return (np.asarray(d.mean(), dtype=float), np.asarray(d.stddev(), dtype=float),
                tuple(d.batch_shape), tuple(d.event_shape), np.asarray(d.loc, dtype=float))
    out["bd_b"] = chk.impl_call("C17:base_distribution:batch-raises", case, dist, X)
    out["bd_v"] = chk.impl_call("C17:base_distribution:vector-raises", case, dist, x)

    # ---- spec oracle on the implementation's own outputs (independent of the model)
    lim = mx + slack(mn, mx)
    for name, L in (("call", lvs), ("call-individual", lvs3)):
        if L is None:
            return None
        if not np.all(np.isfinite(L)):
            chk.fail(f"C17:{name}:logvar-not-finite", "a predicted log-variance is not finite",
                     {"case": case, "log_vars": tolist(L)})
        elif np.any(L < mn - 1e-5 * (1 + np.abs(mn))) or np.any(L > lim + 1e-5 * (1 + np.abs(lim))):
            chk.fail(f"C17:{name}:logvar-bounds", "a predicted log-variance lies outside its dimension's learned soft bounds",
                     {"case": case, "log_vars": tolist(L), "min_log_var": tolist(mn), "max_log_var": tolist(mx),
                      "upper_limit_with_softplus_slack": tolist(lim)})
    if not (np.all(mn > -20 - 1e-4) and np.all(mn < 1e-4) and np.all(mx > -4 - 1e-4) and np.all(mx < 5 + 1e-4)):
        chk.fail("C17:bounds:range", "learned bounds leave (-20,0) / (-4,5)", {"case": case, "min": tolist(mn), "max": tolist(mx)})
    exp_var, exp_sd = np.exp(lvs[i]), np.exp(0.5 * lvs[i])
    # member i alone == slice i of the joint pass: batch
    if out["bd_b"][0]:
        dm, dsd, bsh, esh, _ = out["bd_b"][1]
        if not (close(dm, means[i]) and close(dsd, exp_sd) and esh == (n_out,) and bsh == (B,)):
            chk.fail("C17:base_distribution:batch-slice", "distribution of member i on a batch differs from slice i of the joint pass",
                     {"case": case, "observed_mean": tolist(dm), "observed_stddev": tolist(dsd), "batch_shape": bsh, "event_shape": esh,
                      "expected_mean": tolist(means[i]), "expected_stddev": tolist(exp_sd)})
    if out["bp_b"][0]:
        pm, pv = (np.asarray(a, dtype=float) for a in out["bp_b"][1])
        if not close(pm, means[i]):
            chk.fail("C17:base_predict:batch-mean", "mean of member i on a batch differs from slice i of the joint pass",
                     {"case": case, "observed": tolist(pm), "expected": tolist(means[i])})
        if pv.size != exp_var.size:
            chk.fail("C17:base_predict:batch-variance", "base_predict on a batch does not return one variance per output dimension "
                     f"(shape {pv.shape} instead of {exp_var.shape})",
                     {"case": case, "observed_shape": list(pv.shape), "observed": tolist(pv),
                      "expected_shape": list(exp_var.shape), "expected": tolist(exp_var)})
        else:
            if pv.shape != exp_var.shape:
                chk.count("base_predict_batch_extra_unit_axis")      # (B,1,1) for one output: values checked below
            if not close(pv.reshape(exp_var.shape), exp_var):
                chk.fail("C17:base_predict:batch-variance", "variance of member i on a batch differs from slice i of the joint pass",
                         {"case": case, "observed": tolist(pv), "expected": tolist(exp_var)})
    # member i alone == slice i of the joint pass: single vector
    sd1, var1 = np.exp(0.5 * lvs1[i]), np.exp(lvs1[i])
    if out["bd_v"][0]:
        dm, dsd, bsh, esh, loc = out["bd_v"][1]
        row = dsd[0] if dsd.ndim == 2 else dsd          # what ts_inf samples from: dist.sample(seed)[0]
        mrow = dm[0] if dm.ndim == 2 else dm
        if not (close(mrow, means1[i]) and esh == (n_out,)):
            chk.fail("C17:base_distribution:vector-mean", "mean of member i at a single vector differs from slice i of the joint pass",
                     {"case": case, "observed": tolist(dm), "expected": tolist(means1[i])})
        if row.shape != sd1.shape or not close(row, sd1):
            chk.fail("C17:base_distribution:vector-variance",
                     "distribution of member i at a single vector does not have the slice's variance in every output dimension "
                     f"(batch shape {bsh}; the row PETS samples from uses the log-variance of dimension 0 for all dimensions)",
                     {"case": case, "observed_stddev": tolist(dsd), "batch_shape": list(bsh), "row_sampled_by_ts_inf": tolist(row),
                      "expected_stddev": tolist(sd1)})
        elif dsd.ndim != 1:
            chk.count("base_distribution_vector_extra_unit_axis")
    if out["bp_v"][0]:
        pm, pv = (np.asarray(a, dtype=float) for a in out["bp_v"][1])
        if not (close(pm.reshape(-1), means1[i]) and pv.size == var1.size and close(pv.reshape(-1), var1)):
            chk.fail("C17:base_predict:vector-slice", "prediction of member i at a single vector differs from slice i of the joint pass",
                     {"case": case, "observed_mean": tolist(pm), "observed_var": tolist(pv), "expected_mean": tolist(means1[i]),
                      "expected_var": tolist(var1)})
    # aggregate = mean of means, mean of variances + variance of means
    if out["agg_b"][0]:
        am, av = (np.asarray(a, dtype=float) for a in out["agg_b"][1])
        em, ev = means.mean(axis=0), np.exp(lvs).mean(axis=0) + means.var(axis=0)
        if not (close(am, em, 1e-4, 1e-5) and close(av, ev, 1e-4, 1e-5)):
            chk.fail("C17:aggregate:batch-total-variance", "aggregate differs from (mean of means, mean variance + variance of means)",
                     {"case": case, "observed_mean": tolist(am), "observed_var": tolist(av), "expected_mean": tolist(em), "expected_var": tolist(ev)})
    if out["agg_v"][0]:
        am, av = (np.asarray(a, dtype=float) for a in out["agg_v"][1])
        em, ev = means1.mean(axis=0), np.exp(lvs1).mean(axis=0) + means1.var(axis=0)
        if not close(am.reshape(-1), em, 1e-4, 1e-5):
            chk.fail("C17:aggregate:vector-mean", "aggregate mean at a single vector differs from the mean of the member means",
                     {"case": case, "observed": tolist(am), "expected": tolist(em)})
        if av.size != ev.size or not close(av.reshape(-1), ev, 1e-4, 1e-5):
            chk.fail("C17:aggregate:vector-variance", "aggregate at a single vector does not return one variance per output dimension "
                     f"(shape {av.shape} instead of {ev.shape})",
                     {"case": case, "observed": tolist(av), "expected": tolist(ev)})
        elif av.shape != ev.shape:
            chk.count("aggregate_vector_extra_unit_axis")
    # individual pass: member e's outputs depend on its own inputs only (metamorphic, implementation both ways)
    if means3 is not None:
        for e in range(E):
            okk, rr = chk.impl_call("C17:call:batch-raises", case, lambda e=e: ens(jnp.asarray(X3[e])))
            if okk and not (close(means3[e], np.asarray(rr[0], dtype=float)[e]) and close(lvs3[e], np.asarray(rr[1], dtype=float)[e])):
                chk.fail("C17:call:individual-slice", "member e of the per-member pass differs from member e of the joint pass on its own inputs",
                         {"case": case, "member": e, "X3": tolist(X3)})

    return ens, elit, (means, lvs), (means3, lvs3), out, (mn, mx)


def ensemble_cases(chk, rng, configs, extreme=False):
    """__call__, aggregate, base_predict, base_distribution on vectors and batches."""
    exprs, recs = [], []
    for (E, n_out, shared, hidden, act, B) in configs:
        n_in = int(rng.integers(1, 4))
        lv_bias = None
        if extreme:
            lv_bias = rng.choice(np.array([-3e38, -1e30, -1e4, -200.0, -30.0, 30.0, 200.0, 1e4, 1e30, 3e38], dtype=np.float32),
                                 size=(E, n_out)).astype(np.float32)
        _, _, spec = make_ensemble(rng, E, n_in, n_out, shared, hidden, act, lv_bias)
        X = dy(rng, (B, n_in))
        X3 = dy(rng, (E, B, n_in))
        x = X[int(rng.integers(0, B))].copy()
        i = int(rng.integers(0, E))
        case = {"member": i, "X": tolist(X), "x": tolist(x), "X3": tolist(X3), "extreme_raw_log_var": extreme, "ensemble": spec}
        chk.case(("ens", E, n_out, shared, tuple(hidden), act, B, extreme, n_in), nontrivial=True)
        chk.count("ensemble_configs")
        r = run_ensemble_case(chk, case)
        if r is None:
            continue
        ens, elit, call2, call3, out, (mn, mx) = r
        fwd = f"(M.pe_gmlp_forward float_ops {ACTS[act]})"
        d0 = "{M.pg_hidden = []; pg_shared = true; pg_heads = []; pg_nout = (nat 0)}"
        # ---- model
        exprs += [
            f"({PAIR} (M.pe_call2 float_ops {fwd} {elit} {mlit(X)}))",
            f"({PAIR} (M.pe_call3 float_ops {fwd} {elit} {t3lit(X3)}))",
            f"({PAIR} (M.pe_aggregate float_ops {fwd} {elit} (M.PBatch {mlit(X)})))",
            f"({PAIR} (M.pe_aggregate float_ops {fwd} {elit} (M.PVec {vlit(x)})))",
            f"({PAIR} (M.pe_base_predict float_ops {fwd} {elit} {d0} {nlit(i)} (M.PBatch {mlit(X)})))",
            f"({PAIR} (M.pe_base_predict float_ops {fwd} {elit} {d0} {nlit(i)} (M.PVec {vlit(x)})))",
            f"({PAIR} (M.pe_base_distribution float_ops {fwd} {elit} {d0} {nlit(i)} (M.PBatch {mlit(X)})))",
            f"({PAIR} (M.pe_base_distribution float_ops {fwd} {elit} {d0} {nlit(i)} (M.PVec {vlit(x)})))",
            f'("[" ^ sl sf (M.pe_min_log_var float_ops {vlit(ens.raw_min_log_var.value)}) ^ "," ^ sl sf (M.pe_max_log_var float_ops {vlit(ens.raw_max_log_var.value)}) ^ "]")',
        ]
        recs.append((case, call2, call3, out, (mn, mx)))
    res = chk.model_eval(exprs, per_file=18)
    for k, (case, call2, call3, out, (mn, mx)) in enumerate(recs):
        m = [tree(r) for r in res[9 * k: 9 * k + 9]]

        def cmp(name, impl_ok, impl, model):
            """impl: (ok, (a, b)); model: [a, b] or None (the model raises)."""
            if not impl_ok:
                if model is not None:
                    chk.disagree(name, {"case": case, "impl": "raises", "model": "returns a value"})
                return
            if model is None:
                chk.disagree(name, {"case": case, "impl": "returns a value", "model": "raises"})
                return
            for part, a, b in zip(("first", "second"), impl, model):
                if not close(a, b):
                    chk.disagree(name, {"case": case, "part": part, "impl_shape": list(np.shape(a)), "model_shape": list(np.shape(b)),
                                        "impl": tolist(a), "model": b})
        cmp("GaussianMLPEnsemble.__call__(2d)", True, call2, m[0])
        if call3[0] is not None:
            cmp("GaussianMLPEnsemble.__call__(3d)", True, call3, m[1])
        cmp("aggregate(batch)", out["agg_b"][0], out["agg_b"][1], m[2])
        cmp("aggregate(vector)", out["agg_v"][0], out["agg_v"][1], m[3])
        cmp("base_predict(batch)", out["bp_b"][0], out["bp_b"][1], m[4])
        cmp("base_predict(vector)", out["bp_v"][0], out["bp_v"][1], m[5])
        for idx, key in ((6, "bd_b"), (7, "bd_v")):
            okk, r = out[key]
            if okk:
                dm, dsd, _, _, loc = r
                # the model returns (loc, scale_diag); mean() / stddev() broadcast both to batch_shape + event_shape
                if m[idx] is not None:
                    ml, ms = np.asarray(m[idx][0], dtype=float), np.asarray(m[idx][1], dtype=float)
                    mm = np.broadcast_to(ml, np.broadcast_shapes(ml.shape, ms.shape))
                    cmp(f"base_distribution({key})", True, (dm, dsd), [mm, np.broadcast_to(ms, mm.shape)])
                    if not close(loc, ml):
                        chk.disagree(f"base_distribution({key}).loc", {"case": case, "impl": tolist(loc), "model": tolist(ml)})
                else:
                    cmp(f"base_distribution({key})", True, (dm, dsd), None)
            else:
                cmp(f"base_distribution({key})", False, None, m[idx])
        if not (close(mn, m[8][0]) and close(mx, m[8][1])):
            chk.disagree("min_log_var/max_log_var", {"case": case, "impl": [tolist(mn), tolist(mx)], "model": m[8]})
    if recs:
        c = recs[0][0]
        chk.sample({"kind": "ensemble", "n_ensemble": c["ensemble"]["n_ensemble"], "n_outputs": c["ensemble"]["n_outputs"],
                    "activation": c["ensemble"]["activation"], "extreme": c["extreme_raw_log_var"], "x": c["x"]})


# ----------------------------------------------------------------------------- indices
def index_cases(chk, rng, n):
    """train_ensemble with bootstrap / permutation / train_epoch wrapped: the index tensors handed
    to the epoch trainer against the model and against the spec."""
    import jax
    import jax.numpy as jnp
    import rl_blox.blox.probabilistic_ensemble as pe
    exprs, recs = [], []
    orig_boot, orig_epoch, orig_perm = pe.bootstrap, pe.train_epoch, jax.random.permutation
    for c in range(n):
        E, bs = int(rng.integers(1, 5)), int(rng.integers(1, 10))
        tagged = c % 2 == 1
        if c < 6:      # boundaries: nb < bs, nb == bs, nb multiple of bs, nb = k bs + bs - 1, empty bootstrap
            nb = [bs - 1, bs, 3 * bs, 2 * bs + bs - 1, 0, bs + 1][c]
        else:
            nb = int(rng.integers(0, 41))
        n_epochs = int(rng.integers(1, 4))
        if tagged:
            n_samples, train_size = max(E * nb, 1), None
        else:
            n_samples = max(nb + int(rng.integers(0, 8)), 1)
            train_size = (nb + 0.5) / n_samples            # int(train_size * n_samples) == nb
        rec = {"boot": None, "boot_args": None, "epochs": [], "perms": []}

        def boot(n_ensemble, ts, ns, key, _rec=rec, _tag=tagged, _E=E, _nb=nb):
            out = orig_boot(n_ensemble, ts, ns, key)
            _rec["boot_args"] = (int(n_ensemble), float(ts), int(ns), tuple(np.shape(out)))
            if _tag:                      # member e's row holds the unique tags e*nb + j: positions are identifiable
                out = jnp.asarray(np.arange(_E * _nb, dtype=np.int32).reshape(_E, _nb))
            _rec["boot"] = np.asarray(out)
            return out

        def epoch(model, opt, X, Y, indices, _rec=rec):
            _rec["epochs"].append(np.asarray(indices))
            return jnp.float32(0.0)

        def perm(key, x, axis=0, independent=False, _rec=rec):
            out = orig_perm(key, x, axis=axis, independent=independent)
            xs = np.asarray(x)
            if xs.ndim == 2:
                pos = orig_perm(key, jnp.broadcast_to(jnp.arange(xs.shape[axis]), xs.shape) if axis == 1
                                else jnp.broadcast_to(jnp.arange(xs.shape[0])[:, None], xs.shape), axis=axis, independent=independent)
                _rec["perms"].append((axis, np.asarray(pos), np.asarray(out)))
            return out
        case = {"n_ensemble": E, "batch_size": bs, "bootstrap_size": nb, "n_samples": n_samples, "n_epochs": n_epochs,
                "train_size": train_size if not tagged else nb / n_samples + 1e-9, "tagged_bootstrap": tagged, "key": c}
        pe.bootstrap, pe.train_epoch, jax.random.permutation = boot, epoch, perm
        try:
            ok, _ = chk.impl_call("C17:train_ensemble:raises", case, pe.train_ensemble, types.SimpleNamespace(n_ensemble=E), None,
                                  case["train_size"], jnp.zeros((n_samples, 1)), jnp.zeros((n_samples, 1)), n_epochs, bs, jax.random.key(c))
        finally:
            pe.bootstrap, pe.train_epoch, jax.random.permutation = orig_boot, orig_epoch, orig_perm
        chk.case(("idx", E, bs, nb, tagged, n_epochs), nontrivial=nb >= bs)
        chk.count("index_cases")
        if not ok:
            continue
        B = rec["boot"]
        case["bootstrap"] = B.tolist()
        if rec["boot_args"][3] != (E, nb) or rec["boot_args"][2] != n_samples:
            chk.fail("C17:bootstrap:shape", "bootstrap matrix is not (n_ensemble, int(train_size * n_samples)) over the data set",
                     {"case": case, "observed": rec["boot_args"]})
        if not tagged and B.size and (B.min() < 0 or B.max() >= n_samples):
            chk.fail("C17:bootstrap:range", "bootstrap index outside the data set", {"case": case})
        if len(rec["epochs"]) != n_epochs:
            chk.fail("C17:train_ensemble:epochs", "number of train_epoch calls differs from n_epochs",
                     {"case": case, "observed": len(rec["epochs"])})
        for t, idx in enumerate(rec["epochs"]):
            # ---- spec on the tensor handed to the epoch trainer
            replay = {"case": case, "epoch": t, "indices": idx.tolist()}
            nbatch = nb // bs
            if idx.shape != (nbatch, E, bs):
                chk.fail("C17:train_ensemble:index-shape", f"index tensor has shape {idx.shape}, expected (nb // bs, n_ensemble, batch_size) = {(nbatch, E, bs)}", replay)
                continue
            if nb - nbatch * bs >= bs:
                chk.fail("C17:train_ensemble:dropped", "a full batch of bootstrap positions was dropped", replay)
            for e in range(E):
                used = collections.Counter(idx[:, e, :].ravel().tolist())
                own = collections.Counter(B[e].tolist())
                bad = {k: (v, own.get(k, 0)) for k, v in used.items() if v > own.get(k, 0)}
                if bad:
                    chk.fail("C17:train_ensemble:own-bootstrap",
                             "a member is trained on an index that is not in its own bootstrap sample, or more often per epoch than it occurs there",
                             dict(replay, member=e, index_to_used_vs_available=bad))
                    break
            # ---- model
            if t < len(rec["perms"]):
                axis, pos, shuffled = rec["perms"][t]
                joint = axis == 1 and all(np.array_equal(pos[0], r) for r in pos)
                if not joint:
                    chk.disagree("train_ensemble.shuffle", {"case": case, "epoch": t, "note": "the shuffle is not one joint permutation of the columns",
                                                            "positions": pos.tolist()})
                    continue
                p = pos[0].tolist()
                if sorted(p) != list(range(nb)):
                    chk.fail("C17:train_ensemble:permutation", "the shuffle is not a permutation of the bootstrap positions", dict(replay, perm=p))
                exprs.append(f"(sl (sl (sl sn)) (M.pe_epoch_batches {nlit(bs)} {llit(B.tolist(), lambda r: llit(r, nlit))} {llit(p, nlit)}))")
                recs.append((case, t, idx))
            else:
                chk.disagree("train_ensemble.shuffle", {"case": case, "epoch": t, "note": "jax.random.permutation was not called for this epoch"})
    res = chk.model_eval(exprs, per_file=40)
    for (case, t, idx), mr in zip(recs, res):
        if idx.tolist() != mr and not (idx.size == 0 and np.asarray(mr).size == 0 and len(mr) == idx.shape[0]):
            chk.disagree("train_ensemble.batched_indices", {"case": case, "epoch": t, "impl": idx.tolist(), "model": mr})
    if recs:
        chk.sample({"kind": "indices", "case": {k: recs[-1][0][k] for k in ("n_ensemble", "batch_size", "bootstrap_size")},
                    "indices": recs[-1][2].tolist()})


def training_isolation(chk, rng):
    """The real train_epoch: the parameters of member e after an epoch depend only on the data rows
    its own indices point to (bitwise), and do depend on those."""
    import jax.numpy as jnp
    import optax
    from flax import nnx
    import rl_blox.blox.probabilistic_ensemble as pe
    # ONE batch per epoch: after the first update the members are (legitimately) coupled through the SHARED learned
    # bounds raw_min_log_var / raw_max_log_var, so bitwise isolation is only a consequence of the property for one update.
    E = 2
    idx = np.array([[[0, 1, 2, 3], [4, 5, 6, 7]]], dtype=np.int32)      # (1, E, bs): member 0 -> rows 0..3, member 1 -> rows 4..7
    X = dy(rng, (8, 1))
    Y = dy(rng, (8, 1))

    def run(Xa, Ya):
        ens = pe.GaussianMLPEnsemble(E, True, 1, 1, [], "relu", nnx.Rngs(3))
        opt = nnx.Optimizer(ens, optax.sgd(0.125), wrt=nnx.Param)
        loss = pe.train_epoch(ens, opt, jnp.asarray(Xa), jnp.asarray(Ya), jnp.asarray(idx))
        st = nnx.state(ens.ensemble)
        leaves = [np.asarray(v) for v in __import__("jax").tree.leaves(st)]
        return float(loss), leaves
    case = {"indices": idx.tolist(), "X": tolist(X), "Y": tolist(Y)}
    ok, base = chk.impl_call("C17:train_epoch:raises", case, run, X, Y)
    if not ok:
        return
    chk.case(("isolation",), nontrivial=True)
    for member, rows in ((0, slice(4, 8)), (1, slice(0, 4))):
        X2, Y2 = X.copy(), Y.copy()
        X2[rows] += 1.0
        Y2[rows] -= 2.0
        ok, other = chk.impl_call("C17:train_epoch:raises", case, run, X2, Y2)
        if not ok:
            continue
        same = all(np.array_equal(a[member], b[member]) for a, b in zip(base[1], other[1]))
        changed = any(not np.array_equal(a[1 - member], b[1 - member]) for a, b in zip(base[1], other[1]))
        chk.count("training_isolation_runs")
        if not same:
            chk.fail("C17:train_epoch:foreign-data", "a member's parameters changed when only data rows outside its own batches changed",
                     {"case": case, "member": member, "rows_changed": [rows.start, rows.stop]})
        if not changed:
            chk.fail("C17:train_epoch:own-data-unused", "a member's parameters did not react to its own data rows",
                     {"case": case, "member": 1 - member})
    if not math.isfinite(base[0]):
        chk.fail("C17:train_epoch:loss", "epoch loss is not finite", {"case": case, "loss": base[0]})


# ----------------------------------------------------------------------------- loss
def history_cases(chk, rng, n):
    """member-wise queries on one ensemble object before and after its parameters change (training, restore, assignment):
    member i's prediction / distribution always equals slice i of the joint forward pass with the current parameters"""
    import jax
    import jax.numpy as jnp
    from flax import nnx
    for k in range(n):
        E, n_in, n_out = int(rng.integers(2, 4)), int(rng.integers(1, 4)), int(rng.integers(1, 3))
        ens, _, spec = make_ensemble(rng, E, n_in, n_out, bool(k % 2), [3] if k % 3 else [], "relu")
        X = dy(rng, (3, n_in))
        i = int(rng.integers(0, E))
        case = {"n_ensemble": E, "n_features": n_in, "n_outputs": n_out, "member": i, "X": tolist(X)}
        chk.case(("history", k, E, n_in, n_out))
        chk.count("history_cases")
        for phase in ("fresh", "after-parameter-change", "after-second-change"):
            ok, r = chk.impl_call("C17:call:batch-raises", case, lambda: ens(jnp.asarray(X)))
            okb, bp = chk.impl_call("C17:base_predict:batch-raises", case, lambda: ens.base_predict(jnp.asarray(X), i))
            okd, bd = chk.impl_call("C17:base_distribution:batch-raises", case, lambda: ens.base_distribution(jnp.asarray(X), i))
            if not (ok and okb and okd):
                break
            means = np.asarray(r[0], dtype=float)
            pm = np.asarray(bp[0], dtype=float)
            dm = np.asarray(bd.mean(), dtype=float)
            if not close(pm, means[i]) or not close(dm.reshape(means[i].shape), means[i]):
                chk.fail("C17:base_predict:stale", "member i's prediction / distribution differs from slice i of the joint pass after the ensemble's parameters changed",
                         {"case": case, "phase": phase, "base_predict_mean": tolist(pm), "base_distribution_mean": tolist(dm), "joint_slice": tolist(means[i])})
                break
            nnx.update(ens, jax.tree_util.tree_map(lambda a: a + jnp.asarray(rng.normal(0, 0.5, size=a.shape), dtype=a.dtype), nnx.state(ens, nnx.Param)))


def offset_cases(chk, rng, n):
    """aggregate on ensembles whose member means share a large offset while the predictive variance is tiny: the total variance is
    still mean member variance + variance of the member means (no cancellation of large squares)"""
    import jax.numpy as jnp
    for k in range(n):
        E, n_in, n_out = int(rng.integers(2, 5)), int(rng.integers(1, 3)), int(rng.integers(1, 3))
        shared = bool(k % 2)
        ens, _, spec = make_ensemble(rng, E, n_in, n_out, shared, [], "relu", lv_bias=-30.0)
        head = ens.ensemble.output_layers[0]
        kern, bias = np.asarray(head.kernel.value).copy(), np.asarray(head.bias.value).copy()
        kern[..., :n_out] = 0.0
        bias[..., :n_out] = float(rng.choice([1000.0, -3000.0])) + (0.0 if k % 3 else 0.001 * np.arange(E)[:, None])
        head.kernel.value, head.bias.value = jnp.asarray(kern), jnp.asarray(bias)
        X = dy(rng, (3, n_in))
        case = {"n_ensemble": E, "n_features": n_in, "n_outputs": n_out, "shared_head": shared, "mean_offset": float(bias.reshape(-1)[0]), "X": tolist(X)}
        chk.case(("offset", k, E, n_in, n_out))
        chk.count("offset_cases")
        ok, r = chk.impl_call("C17:call:batch-raises", case, lambda: ens(jnp.asarray(X)))
        oka, agg = chk.impl_call("C17:aggregate:batch-raises", case, lambda: ens.aggregate(jnp.asarray(X)))
        if not (ok and oka):
            continue
        means, lvs = np.asarray(r[0], dtype=np.float64), np.asarray(r[1], dtype=np.float64)
        ev = np.exp(lvs).mean(axis=0) + means.var(axis=0)
        av = np.asarray(agg[1], dtype=np.float64).reshape(ev.shape)
        if not np.allclose(av, ev, rtol=5e-3, atol=1e-9):
            chk.fail("C17:aggregate:batch-total-variance", "aggregate variance differs from mean member variance + variance of the member means when the means share a large offset",
                     {"case": case, "observed_var": tolist(av), "expected_var": tolist(ev)})


def nll_cases(chk, rng, n):
    import jax.numpy as jnp
    from rl_blox.blox.probabilistic_ensemble import gaussian_nll
    exprs, recs = [], []
    for _ in range(n):
        shape = tuple(int(v) for v in rng.integers(1, 4, size=int(rng.integers(2, 4))))
        mu, y = dy(rng, shape), dy(rng, shape)
        lv = dy(rng, shape, -12, 9) if _ % 3 else dy(rng, shape, -60, 61)      # every third case: log-variances up to +-15
        case = {"mean": tolist(mu), "log_var": tolist(lv), "Y": tolist(y)}
        ok, out = chk.impl_call("C17:gaussian_nll:raises", case, lambda: float(gaussian_nll(jnp.asarray(mu), jnp.asarray(lv), jnp.asarray(y))))
        chk.case(("nll", shape, mu.tobytes(), lv.tobytes()), nontrivial=mu.size > 1)
        chk.count("nll_cases")
        if not ok:
            continue
        mu64, lv64, y64 = (a.astype(float).ravel() for a in (mu, lv, y))
        logpdf = -0.5 * np.log(2 * np.pi * np.exp(lv64)) - (y64 - mu64) ** 2 / (2 * np.exp(lv64))
        spec = float(np.mean(-logpdf) - 0.5 * np.log(2 * np.pi))
        if abs(out - spec) > 1e-4 * (1 + abs(spec)):
            chk.fail("C17:gaussian_nll:closed-form", "gaussian_nll differs from the average negative log-density minus ln(2 pi)/2",
                     {"case": case, "observed": out, "expected": spec})
        exprs.append(f"(sf (M.pe_gaussian_nll float_ops {vlit(mu)} {vlit(lv)} {vlit(y)}))")
        recs.append((case, out))
    for (case, out), mr in zip(recs, chk.model_eval(exprs, per_file=60)):
        if abs(out - parse_f(mr)) > 1e-4 * (1 + abs(parse_f(mr))):
            chk.disagree("gaussian_nll", {"case": case, "impl": out, "model": parse_f(mr)})


def ensemble_loss_case(chk, rng):
    """gaussian_ensemble_loss on per-member batches = NLL over all members' entries + 0.01 (sum max - sum min)."""
    import jax.numpy as jnp
    from rl_blox.blox.probabilistic_ensemble import gaussian_ensemble_loss
    E, n_in, n_out, B = 3, 2, 2, 4
    ens, _, _ = make_ensemble(rng, E, n_in, n_out, True, [], "relu")
    X3, Y3 = dy(rng, (E, B, n_in)), dy(rng, (E, B, n_out))
    case = {"X": tolist(X3), "Y": tolist(Y3)}
    ok, out = chk.impl_call("C17:gaussian_ensemble_loss:raises", case, lambda: float(gaussian_ensemble_loss(ens, jnp.asarray(X3), jnp.asarray(Y3))))
    chk.case(("ensemble_loss",), nontrivial=True)
    if not ok:
        return
    mu, lv = (np.asarray(a, dtype=float) for a in ens(jnp.asarray(X3)))
    mn, mx = np.asarray(ens.min_log_var, dtype=float), np.asarray(ens.max_log_var, dtype=float)
    mr = chk.model_eval([f"(sf (M.pe_ensemble_loss float_ops {vlit(mu)} {vlit(lv)} {vlit(Y3)} {vlit(mn)} {vlit(mx)}))"])[0]
    if abs(out - parse_f(mr)) > 1e-4 * (1 + abs(parse_f(mr))):
        chk.disagree("gaussian_ensemble_loss", {"case": case, "impl": out, "model": parse_f(mr)})


# ----------------------------------------------------------------------------- planning
def plan_cases(chk, rng, n):
    """evaluate_plans with a linear reward model, exact regime (dyadic data, particle counts 2^k)."""
    import jax.numpy as jnp
    from rl_blox.algorithm.pets import evaluate_plans
    exprs, recs = [], []
    for _ in range(n):
        S, P, H = int(rng.integers(1, 5)), int(2 ** rng.integers(0, 3)), int(rng.integers(1, 6))
        A, O = int(rng.integers(1, 3)), int(rng.integers(1, 4))
        acts = rng.integers(-8, 9, size=(S, H, A)).astype(np.float32) / 4
        trajs = rng.integers(-8, 9, size=(S, P, H + 1, O)).astype(np.float32) / 4
        wa = rng.integers(-4, 5, size=A).astype(np.float32) / 2
        wo = rng.integers(-4, 5, size=O).astype(np.float32) / 2
        calls = []

        def reward(a, o, _wa=wa, _wo=wo, _calls=calls):
            _calls.append((tuple(a.shape), tuple(o.shape)))
            return jnp.asarray(a) @ jnp.asarray(_wa) + jnp.asarray(o) @ jnp.asarray(_wo)
        case = {"actions": tolist(acts), "trajectories": tolist(trajs), "w_act": tolist(wa), "w_obs": tolist(wo)}
        ok, out = chk.impl_call("C17:evaluate_plans:raises", case, lambda: np.asarray(evaluate_plans(jnp.asarray(acts), jnp.asarray(trajs), reward)))
        chk.case(("plan", S, P, H, A, O, acts.tobytes()), nontrivial=H > 1 or P > 1)
        chk.count("plan_cases")
        if not ok:
            continue
        fa, ft, fwa, fwo = ([[[F(float(v)) for v in r] for r in m] for m in acts],
                            [[[[F(float(v)) for v in o] for o in tr] for tr in pp] for pp in trajs],
                            [F(float(v)) for v in wa], [F(float(v)) for v in wo])
        spec = [sum(sum(sum(x * w for x, w in zip(fa[s][h], fwa)) + sum(x * w for x, w in zip(ft[s][p][h], fwo)) for h in range(H))
                    for p in range(P)) / P for s in range(S)]
        got = [frac(v) for v in out.ravel()]
        if out.shape != (S,) or got != spec:
            chk.fail("C17:evaluate_plans:value", "plan value is not the particle average of the rewards summed along the imagined trajectory",
                     {"case": case, "observed": [str(v) for v in got], "expected": [str(v) for v in spec], "reward_model_calls": calls})
        rfun = (f"(fun a o -> M.nsum q_ops (List.map2 (fun x w -> M.qred (M.qmult x w)) (a @ o) {llit(list(wa) + list(wo), qlit)}))")
        alit = llit(list(acts), lambda m: llit(list(m), lambda r: llit(list(r), qlit)))
        tlit = llit(list(trajs), lambda pp: llit(list(pp), lambda tr: llit(list(tr), lambda o: llit(list(o), qlit))))
        exprs.append(f"(sl sq (M.pe_evaluate_plans q_ops {rfun} {alit} {tlit}))")
        recs.append((case, got))
    for (case, got), mr in zip(recs, chk.model_eval(exprs, per_file=30)):
        if got != [parse_q(v) for v in mr]:
            chk.disagree("evaluate_plans", {"case": case, "impl": [str(v) for v in got], "model": mr})
    if recs:
        chk.sample({"kind": "evaluate_plans", "expected_returns": [str(v) for v in recs[0][1]]})


# ----------------------------------------------------------------------------- pendulum
OC_PEND = "acos floor (4.0 *. atan 1.0)"


def pendulum_cases(chk, rng, n):
    import jax.numpy as jnp
    from gymnasium.envs.classic_control.pendulum import PendulumEnv
    from rl_blox.algorithm.pets_reward_models import pendulum_reward
    env = PendulumEnv()
    env.reset(seed=0)
    special = [0.0, np.pi, -np.pi, np.pi / 2, -np.pi / 2, 2 * np.pi, 3 * np.pi, -3 * np.pi, 1e-4, np.pi - 1e-4, -np.pi + 1e-4, 7.0, -12.5]
    states, obs_l, acts, rews = [], [], [], []
    for c in range(n):
        th = special[c] if c < len(special) else float(rng.uniform(-10, 10))
        thdot = float(rng.uniform(-8, 8)) if c % 5 else 0.0
        u = float(rng.uniform(-3, 3)) if c % 7 else float(rng.choice([-2.0, 2.0, 0.0]))
        env.state = np.array([th, thdot])
        obs = env._get_obs()
        _, r, _, _, _ = env.step(np.array([u], dtype=np.float32))
        states.append((th, thdot, u))
        obs_l.append(obs)
        acts.append(np.array([u], dtype=np.float32))
        rews.append(float(r))
    obs_a, act_a = np.stack(obs_l), np.stack(acts)
    ok, out = chk.impl_call("C17:pendulum_reward:raises", {"obs": tolist(obs_a), "act": tolist(act_a)},
                            lambda: np.asarray(pendulum_reward(jnp.asarray(act_a), jnp.asarray(obs_a)), dtype=float))
    if not ok:
        return
    exprs = []
    for (th, thdot, u), obs, act, r, o in zip(states, obs_l, acts, rews, out):
        case = {"theta": th, "theta_dot": thdot, "torque": u, "observation": tolist(obs)}
        chk.case(("pend", th, thdot, u), nontrivial=True)
        chk.count("pendulum_cases")
        # a-priori band from rounding cos(theta) to float32 (the observation encoding loses this much)
        c64 = math.cos(th)
        tn = ((th + math.pi) % (2 * math.pi)) - math.pi
        lo, hi = math.acos(min(1.0, c64 + 2 ** -23)), math.acos(max(-1.0, c64 - 2 ** -23))
        band = max(abs(lo * lo - tn * tn), abs(hi * hi - tn * tn)) + 2e-5 * (1 + abs(r))
        if abs(o - r) > band:
            chk.fail("C17:pendulum_reward:env-reward", "the bundled Pendulum reward model differs from PendulumEnv.step's reward",
                     {"case": case, "observed": float(o), "expected": r, "tolerance": band})
        exprs.append(f"(sf (M.pe_pendulum_reward float_ops {OC_PEND} {vlit(act)} {vlit(obs)}))")
        exprs.append(f"(sf (M.pe_gym_pendulum_reward float_ops floor (4.0 *. atan 1.0) {flit(th)} {flit(thdot)} {vlit(act)}))")
    res = chk.model_eval(exprs, per_file=80)
    for k, ((th, thdot, u), r, o) in enumerate(zip(states, rews, out)):
        mm, mg = parse_f(res[2 * k]), parse_f(res[2 * k + 1])
        case = {"theta": th, "theta_dot": thdot, "torque": u}
        if abs(o - mm) > 2e-5 * (1 + abs(mm)) + 2e-5:
            chk.disagree("pendulum_reward", {"case": case, "impl": float(o), "model": mm})
        if abs(r - mg) > 1e-9 * (1 + abs(mg)):
            chk.disagree("PendulumEnv.step reward", {"case": case, "env": r, "model": mg})
    chk.sample({"kind": "pendulum", "state": states[-1], "env_reward": rews[-1], "model_reward": float(out[-1])})


def pendulum_plan_case(chk, rng):
    """evaluate_plans with the bundled reward model (tolerance regime)."""
    import jax.numpy as jnp
    from rl_blox.algorithm.pets import evaluate_plans
    from rl_blox.algorithm.pets_reward_models import pendulum_reward
    S, P, H = 3, 4, 5
    th = rng.uniform(-3, 3, size=(S, P, H + 1))
    trajs = np.stack([np.cos(th), np.sin(th), rng.uniform(-8, 8, size=th.shape)], axis=-1).astype(np.float32)
    acts = rng.uniform(-3, 3, size=(S, H, 1)).astype(np.float32)
    case = {"actions": tolist(acts), "trajectories": tolist(trajs)}
    ok, out = chk.impl_call("C17:evaluate_plans:raises", case, lambda: np.asarray(evaluate_plans(jnp.asarray(acts), jnp.asarray(trajs), pendulum_reward), dtype=float))
    chk.case(("plan_pendulum",), nontrivial=True)
    if not ok:
        return
    a = np.clip(acts.astype(float)[:, None, :, 0], -2, 2)
    tt = np.arccos(np.clip(trajs.astype(float)[:, :, :-1, 0], -1, 1))
    r = -(tt ** 2 + 0.1 * trajs.astype(float)[:, :, :-1, 2] ** 2 + 0.001 * a ** 2)
    spec = r.sum(axis=-1).mean(axis=-1)
    if out.shape != (S,) or not np.allclose(out, spec, rtol=1e-4, atol=1e-4):
        chk.fail("C17:evaluate_plans:pendulum-value", "plan value with the bundled reward model is not the particle average of summed rewards",
                 {"case": case, "observed": tolist(out), "expected": tolist(spec)})


# ----------------------------------------------------------------------------- ts_inf
def ts_inf_case(chk, rng):
    """Particle propagation through one member (pets.ts_inf): the spread of the sampled observation
    deltas must match the member's predicted standard deviation in EVERY output dimension."""
    E, n_obs, n_act, P = 2, 2, 1, 256
    lvb = np.array([[-8.0, 4.0], [-8.0, 4.0]], dtype=np.float32)
    _, _, spec = make_ensemble(rng, E, n_obs + n_act, n_obs, True, [], "relu", lv_bias=lvb)
    spec["raw_min_log_var"], spec["raw_max_log_var"] = [0.0] * n_obs, [0.0] * n_obs
    return ts_inf_check(chk, {"ensemble": spec, "raw_log_var": tolist(lvb), "obs": [0.25, -0.5], "action": 0.5, "n_particles": P,
                              "member": 0, "key": int(rng.integers(0, 1000))})


def ts_inf_check(chk, case):
    import jax
    import jax.numpy as jnp
    from rl_blox.algorithm.pets import ts_inf
    ens, _ = ensemble_from_spec(case["ensemble"])
    P, n_obs = case["n_particles"], case["ensemble"]["n_outputs"]
    obs = np.asarray(case["obs"], dtype=np.float32)
    acts = np.full((1, 1, 1), case["action"], dtype=np.float32)
    keys = jax.random.split(jax.random.key(case["key"]), (1, P))
    midx = np.full(P, case["member"], dtype=np.int32)
    ok, tr = chk.impl_call("C17:ts_inf:raises", case, lambda: np.asarray(ts_inf(keys, jnp.asarray(midx), jnp.asarray(acts), jnp.asarray(obs), ens), dtype=float))
    chk.case(("ts_inf",), nontrivial=True)
    if not ok:
        return
    x = np.concatenate([obs, acts[0, 0]])
    m1, lv1 = (np.asarray(a, dtype=float)[case["member"], 0] for a in ens(jnp.asarray(x[None])))
    delta = tr[0, :, 1, :] - tr[0, :, 0, :]
    sd_obs, sd_exp = delta.std(axis=0), np.exp(0.5 * lv1)
    mean_ok = np.all(np.abs(delta.mean(axis=0) - m1) < 8 * sd_exp / math.sqrt(P) + 1e-3)
    # 256 particles: the sample standard deviation is within 5% of the truth; a factor 2 is > 15 sigma away
    if tr.shape != (1, P, 2, n_obs) or np.any(sd_obs < 0.5 * sd_exp) or np.any(sd_obs > 2.0 * sd_exp) or not mean_ok:
        chk.fail("C17:ts_inf:particle-spread",
                 "particles propagated through one member do not have that member's predicted standard deviation in every observation dimension",
                 {"case": case, "observed_std_of_deltas": tolist(sd_obs), "expected_std": tolist(sd_exp),
                  "observed_mean_of_deltas": tolist(delta.mean(axis=0)), "expected_mean": tolist(m1)})
    chk.sample({"kind": "ts_inf", "observed_std": tolist(sd_obs), "member_std": tolist(sd_exp)})


# ----------------------------------------------------------------------------- replay
class _ReplayChk:
    """Minimal stand-in for common.Check when a single recorded case is re-executed."""

    def __init__(self):
        self.failures = []

    def fail(self, key, what, replay):
        self.failures.append((key, what, replay))

    def impl_call(self, key, case, fn, *a, **kw):
        try:
            return True, fn(*a, **kw)
        except Exception as e:  # noqa: BLE001
            self.failures.append((key, f"implementation raised {type(e).__name__}: {str(e)[:200]}", None))
            return False, None

    def count(self, *a, **k):
        pass

    case = sample = disagree = count


def replay(rep, key):
    """bin/replay entry point: re-executes the recorded case on the current working tree and reports
    whether the finding still reproduces (exit 1) or not (exit 0)."""
    chk = _ReplayChk()
    case = rep.get("case", rep)
    if key and key.startswith("C17:ts_inf"):
        ts_inf_check(chk, case)
    elif "ensemble" in case and "X3" in case:
        run_ensemble_case(chk, case)
    else:
        print("no executable replay for this finding; recorded case:")
        print(str(rep)[:4000])
        return 2
    hits = [f for f in chk.failures if key is None or f[0] == key]
    for k, what, r in chk.failures:
        print(("REPRODUCED " if (k, what, r) in hits else "also       ") + k + ": " + what)
        if r is not None and (k, what, r) in hits:
            print("   " + "; ".join(f"{a}={r[a]}" for a in r if a != "case")[:1500])
    if not hits:
        print("not reproduced: the recorded case now satisfies the spec")
    return 1 if hits else 0


# ----------------------------------------------------------------------------- main
def main(chk):
    chk.proof_step()
    rng = np.random.default_rng(chk.seed)
    q = chk.tier == "quick"
    acts = ["relu", "tanh", "swish"]
    configs = []
    for E in (2, 3, 4):
        for n_out in (1, 2, 3):
            k = len(configs)
            configs.append((E, n_out, k % 2 == 0, [] if k % 3 else [3], acts[k % 3], [1, 2, 4][k % 3]))
    if not q:
        for _ in range(60):
            configs.append((int(rng.integers(1, 6)), int(rng.integers(1, 5)), bool(rng.integers(0, 2)),
                            [int(h) for h in rng.integers(1, 5, size=int(rng.integers(0, 3)))], acts[int(rng.integers(0, 3))], int(rng.integers(1, 6))))
    ensemble_cases(chk, rng, configs)
    ensemble_cases(chk, rng, [(2, 1, True, [], "relu", 2), (3, 2, False, [], "relu", 2), (2, 3, True, [], "relu", 1)] if q else
                   [(int(rng.integers(1, 5)), int(rng.integers(1, 4)), bool(rng.integers(0, 2)), [], "relu", 2) for _ in range(20)], extreme=True)
    index_cases(chk, rng, 30 if q else 400)
    training_isolation(chk, rng)
    nll_cases(chk, rng, 30 if q else 500)
    history_cases(chk, rng, 6 if q else 60)
    offset_cases(chk, rng, 8 if q else 80)
    ensemble_loss_case(chk, rng)
    plan_cases(chk, rng, 24 if q else 400)
    pendulum_cases(chk, rng, 60 if q else 2000)
    pendulum_plan_case(chk, rng)
    ts_inf_case(chk, rng)
    return chk.finish(
        rule="real GaussianMLPEnsemble objects (1-5 members, 1-4 output dimensions, shared / separate heads, 0-2 hidden layers, relu / tanh / swish, "
             "dyadic weights, distinct learned bounds per dimension, raw log-variances up to +-3e38): __call__ (2-D and 3-D), aggregate, base_predict, "
             "base_distribution(...).mean()/stddev() on batches and single vectors against the float64 model (rtol 2e-5) and against each other "
             "(member alone vs slice of the joint pass); train_ensemble with bootstrap / jax.random.permutation / train_epoch wrapped (index tensors "
             "exact vs the nat model, boundary sizes nb<bs, nb=bs, nb=k*bs+bs-1, tagged bootstrap rows); the real train_epoch for data isolation; "
             "gaussian_nll and gaussian_ensemble_loss vs closed form; evaluate_plans with a linear reward model (exact rationals) and with "
             "pendulum_reward; pendulum_reward vs gymnasium PendulumEnv.step on special and random states; ts_inf particle spread",
        assumptions=["nnx.vmap / nnx.split / nnx.merge / TFP MultivariateNormalDiag trusted as executed (their rank behaviour is what the tie observes)",
                     "tolerance regime: float32 implementation vs float64 model, rtol 2e-5 (aggregate 1e-4); evaluate_plans exact",
                     "pendulum: float32 observation encoding bounds the achievable agreement near theta = 0 and pi; band derived a priori from 2^-23",
                     "the permutation drawn by jax.random.permutation and the bootstrap matrix are inputs of the index model (oracles)",
                     "ts_inf spread test is statistical (256 particles, factor-2 band, false-alarm probability < 1e-50)"])
