"""C02 — replay buffer is a faithful fixed-capacity FIFO of whole transitions."""
import fractions

import numpy as np

from common import llit, nlit, qlit, zlit
from stubs import StubRng, decode_row, make_row

F = fractions.Fraction
TOP = F(2**20 - 1, 2**20)  # maps to (range - 1)


def gen_fracs(rng, b):
    """Scripted draw fractions: both ends of the requested range are always present."""
    fr = [F(int(rng.integers(0, 2**10)), 2**10) for _ in range(b)]
    if b >= 1:
        fr[int(rng.integers(0, b))] = TOP
    if b >= 2:
        fr[int(rng.integers(0, b))] = F(0)
    return fr


def gen_us(rng, b):
    """Uniform variates in the open interval (0,1), dyadic."""
    return [F(int(rng.integers(1, 2**10)), 2**10) for _ in range(b)]


def new_buffer(kind, cap, cfg):
    from rl_blox.blox import replay_buffer as rbm
    cls = {"uniform": rbm.ReplayBuffer, "lap": rbm.LAP, "per": rbm.PrioritizedReplayBuffer}[kind]
    kw = {}
    if cfg == "f32":
        kw["dtypes"] = [np.float32, np.float32, np.float32, np.float32, bool]
    elif cfg == "discrete":
        kw["discrete_actions"] = True
    return cls(cap, **kw)


def run_single(kind, cap, cfg, ops):
    """ops: ("add", k) | ("sample", fracs_or_us). Returns impl outputs + model op list."""
    buf = new_buffer(kind, cap, cfg)
    discrete = cfg == "discrete"
    outs, mops, added = [], [], []
    for o in ops:
        if o[0] == "add":
            buf.add_sample(**make_row(o[1], discrete))
            added.append(o[1])
            outs.append({"len": len(buf), "rows": None})
            mops.append(("add", o[1]))
        else:
            if len(buf) == 0:
                continue
            stub = StubRng()
            b = len(o[1])
            if kind == "uniform":
                stub.int_fracs = o[1]
                batch = buf.sample_batch(b, stub)
                call = [c for c in stub.calls if c[0] == "integers"][0]
                idxs = [int(i) for i in stub.last_int_draws]
                rng_range = (call[1], call[2])
                mops.append(("sample", idxs))
            else:
                stub.uniforms = [float(u) for u in o[1]]
                res = buf.sample_batch(b, stub)
                batch = res[0] if kind == "per" else res
                rng_range = None
                mops.append(("sample", list(o[1])))
            rows = [decode_row(batch, j, discrete) for j in range(b)]
            fields_ok = all(np.asarray(getattr(batch, f)).shape[0] == b for f in batch._fields)
            outs.append({"len": len(buf), "rows": rows, "range": rng_range, "fields_ok": fields_ok,
                         "added": list(added)})
    return outs, mops


def model_expr_single(kind, cap, mops):
    if kind == "uniform":
        ops = llit(mops, lambda o: f"M.RAdd {zlit(o[1])}" if o[0] == "add" else f"M.RSample {llit(o[1], nlit)}")
        return (f'(sl (fun o -> "[" ^ sn o.M.ro_len ^ "," ^ sn o.M.ro_range ^ "," ^ sl (so sz) o.M.ro_rows ^ "]") '
                f'(M.rb_trace (M.rb_init {nlit(cap)}) {ops}))')
    ops = llit(mops, lambda o: f"M.LAdd {zlit(o[1])}" if o[0] == "add" else f"M.LSample {llit(o[1], qlit)}")
    strat = "true" if kind == "per" else "false"
    return (f'(sl (fun o -> "[" ^ sn o.M.lo_len ^ "," ^ sl sn o.M.lo_idx ^ "," ^ sl (so sz) o.M.lo_rows ^ "]") '
            f'(M.lap_trace {strat} (M.lap_init {nlit(cap)}) {ops}))')


def check_single(chk, kind, cap, cfg, ops):
    case = {"class": kind, "capacity": cap, "config": cfg,
            "ops": [(o[0], [str(x) for x in o[1]] if o[0] != "add" else o[1]) for o in ops]}
    ok, res = chk.impl_call(f"C02:{kind}:raised", case, run_single, kind, cap, cfg, ops)
    outs, mops = res if ok else ([], [])
    return (kind, cap, cfg, ops, outs, mops)


def compare_single(chk, rec, mres):
    kind, cap, cfg, ops, outs, mops = rec
    case = {"class": kind, "capacity": cap, "config": cfg, "ops": [(o[0], [str(x) for x in o[1]] if o[0] != "add" else o[1]) for o in ops]}
    for out, mo, mop in zip(outs, mres, mops):
        # ---- correspondence
        if out["len"] != mo[0]:
            chk.disagree(f"{kind}.len", {"case": case, "impl": out["len"], "model": mo[0]})
            break
        if out["rows"] is not None:
            if kind == "uniform":
                if out["range"] != (0, mo[1]):
                    chk.disagree("uniform.draw_range", {"case": case, "impl": out["range"], "model": [0, mo[1]]})
                mrows = mo[2]
            else:
                mrows = mo[2]
            irows = [k if ok else "inconsistent" for k, ok in out["rows"]]
            if irows != mrows:
                chk.disagree(f"{kind}.sample_rows", {"case": case, "impl": irows, "model": mrows})
            # ---- spec oracle on the implementation's own trace
            added = out["added"]
            recent = set(added[-min(len(added), cap):])
            for (k, ok) in out["rows"]:
                if not ok:
                    chk.fail(f"C02:{kind}:row-fields", "a sampled row mixes fields of different transitions or was modified",
                             {"case": case, "decoded": out["rows"]})
                elif k not in recent:
                    chk.fail(f"C02:{kind}:row-membership", "a sampled row is not among the most recent min(n,N) additions",
                             {"case": case, "row": k, "recent": sorted(recent)})
            if not out["fields_ok"]:
                chk.fail(f"C02:{kind}:batch-shape", "batch fields do not all have batch_size rows", {"case": case})
        n_added = sum(1 for o in mops[: mops.index(mop) + 1] if o[0] == "add") if False else None
    # length law on the final state
    n = sum(1 for o in ops if o[0] == "add")
    if outs and outs[-1]["len"] != min(n, cap):
        chk.fail(f"C02:{kind}:length", "reported length differs from min(n, N)", {"case": case, "len": outs[-1]["len"], "n": n})


def gen_single(rng, kind):
    cap = int(rng.choice([1, 1, 2, 3, 4, 5, 6]))
    cfg = str(rng.choice(["default", "f32", "discrete"]))
    n = int(rng.integers(1, 60))
    ops, k = [], int(rng.integers(0, 50))
    # some histories stop exactly at wrap-around
    for _ in range(n):
        if rng.random() < 0.7:
            ops.append(("add", k))
            k += 1
        else:
            b = int(rng.choice([1, 1, 2, 3, 5, 8]))
            ops.append(("sample", gen_fracs(rng, b) if kind == "uniform" else gen_us(rng, b)))
    if rng.random() < 0.3:  # exact wrap: n_add multiple of cap, then sample everything
        adds = sum(1 for o in ops if o[0] == "add")
        for _ in range((-adds) % cap):
            ops.append(("add", k))
            k += 1
        b = cap + 2
        ops.append(("sample", gen_fracs(rng, b) if kind == "uniform" else gen_us(rng, b)))
    return cap, cfg, ops


# ---------------------------------------------------------------- multi-task
def run_multi(kind, cap, ntasks, ops):
    from rl_blox.blox import replay_buffer as rbm
    base = rbm.ReplayBuffer(cap) if kind == "mt_uniform" else rbm.LAP(cap)
    mt = rbm.MultiTaskReplayBuffer(base, ntasks)
    outs, mops = [], []
    per_task = [[] for _ in range(ntasks)]
    for o in ops:
        if o[0] == "select":
            try:
                mt.select_task(o[1])
                ok = True
            except ValueError:
                ok = False
            outs.append({"ok": ok, "selected": mt.selected_task})
            mops.append(o)
        elif o[0] == "add":
            mt.add_sample(**make_row(o[1]))
            per_task[mt.selected_task].append(o[1])
            outs.append({"ok": True, "selected": mt.selected_task, "lens": [len(b) for b in mt.buffers],
                         "active": sorted(mt.active_buffers), "total": len(mt)})
            mops.append(o)
        else:
            if not mt.active_buffers:
                continue
            stub = StubRng()
            stub.choice_pos = o[1]
            b = len(o[2])
            if kind == "mt_uniform":
                stub.int_fracs = o[2]
            else:
                stub.uniforms = [float(u) for u in o[2]]
            if o[3] == "kw":
                batch = mt.sample_batch(b, rng=stub)
            else:
                batch = mt.sample_batch(b, stub)
            choice_call = [c for c in stub.calls if c[0] == "choice"][0]
            pos = stub.last_choice_pos
            if kind == "mt_uniform":
                idxs = [int(i) for i in stub.last_int_draws]
                call = [c for c in stub.calls if c[0] == "integers"][0]
                mops.append(("sample", pos, idxs))
                rr = (call[1], call[2])
            else:
                mops.append(("sample", pos, list(o[2])))
                rr = None
            rows = [decode_row(batch, j) for j in range(b)]
            outs.append({"ok": True, "task": int(mt.sampled_task_idx), "rows": rows, "range": rr,
                         "choice_from": choice_call[1], "per_task": [list(x) for x in per_task],
                         "lens": [len(bb) for bb in mt.buffers]})
    return outs, mops


def model_expr_multi(kind, cap, ntasks, mops):
    if kind == "mt_uniform":
        def f(o):
            if o[0] == "select":
                return f"M.USelect {zlit(o[1])}"
            if o[0] == "add":
                return f"M.UAdd {zlit(o[1])}"
            return f"M.USample ({nlit(o[1])}, {llit(o[2], nlit)})"
        return (f'(sl (fun o -> "[" ^ sb o.M.uo_ok ^ "," ^ sn o.M.uo_selected ^ "," ^ sl sn o.M.uo_active ^ "," ^ so sn o.M.uo_task '
                f'^ "," ^ sl sn o.M.uo_lens ^ "," ^ sn o.M.uo_range ^ "," ^ sl (so sz) o.M.uo_rows ^ "]") '
                f'(M.mtu_trace (M.mtu_init {nlit(cap)} {nlit(ntasks)}) {llit(mops, f)}))')

    def g(o):
        if o[0] == "select":
            return f"M.MSelect {zlit(o[1])}"
        if o[0] == "add":
            return f"M.MAdd {zlit(o[1])}"
        return f"M.MSample ({nlit(o[1])}, {llit(o[2], qlit)})"
    return (f'(sl (fun o -> "[" ^ sb o.M.mo_ok ^ "," ^ sn o.M.mo_selected ^ "," ^ sl sn o.M.mo_active ^ "," ^ so sn o.M.mo_task '
            f'^ "," ^ sl sn o.M.mo_lens ^ "," ^ sl sn o.M.mo_idx ^ "," ^ sl (so sz) o.M.mo_rows ^ "]") '
            f'(M.mt_trace (M.mt_lap_init {nlit(cap)} {nlit(ntasks)}) {llit(mops, g)}))')


def compare_multi(chk, rec, mres):
    kind, cap, ntasks, ops, outs, mops = rec
    case = {"class": kind, "capacity": cap, "tasks": ntasks,
            "ops": [[o[0], o[1]] + ([[str(x) for x in o[2]], o[3]] if o[0] == "sample" else []) for o in ops]}
    for out, mo, mop in zip(outs, mres, mops):
        ok, sel, active, task, lens = mo[0], mo[1], mo[2], mo[3], mo[4]
        if mop[0] == "select":
            if out["ok"] != ok or out["selected"] != sel:
                chk.disagree(f"{kind}.select", {"case": case, "op": mop, "impl": out, "model": mo})
            valid = 0 <= mop[1] < ntasks
            if out["ok"] != valid:
                chk.fail(f"C02:{kind}:select-validity", "select_task accepted an invalid id or rejected a valid one",
                         {"case": case, "task": mop[1]})
        elif mop[0] == "add":
            if out["lens"] != lens or out["active"] != active or out["selected"] != sel:
                chk.disagree(f"{kind}.add", {"case": case, "op": mop, "impl": out, "model": mo})
        else:
            irows = [k if okk else "inconsistent" for k, okk in out["rows"]]
            mrows = mo[6]
            if out["task"] != task or irows != mrows or out["lens"] != lens:
                chk.disagree(f"{kind}.sample", {"case": case, "op": [mop[0], mop[1], [str(x) for x in mop[2]]],
                                                "impl": {"task": out["task"], "rows": irows}, "model": {"task": task, "rows": mrows}})
            if kind == "mt_uniform" and out["range"] != (0, mo[5]):
                chk.disagree(f"{kind}.draw_range", {"case": case, "impl": out["range"], "model": mo[5]})
            # spec: single task with data; rows are recent additions of that task
            t = out["task"]
            hist = out["per_task"][t] if 0 <= t < ntasks else []
            with_data = [i for i, h in enumerate(out["per_task"]) if h]
            if sorted(out["choice_from"]) != with_data:
                chk.fail(f"C02:{kind}:sample-task-set", "the sampled task is not drawn from exactly the tasks that already have data",
                         {"case": case, "choice_from": out["choice_from"], "tasks_with_data": with_data})
            recent = set(hist[-min(len(hist), cap):])
            for (k, okk) in out["rows"]:
                if not okk or k not in recent:
                    chk.fail(f"C02:{kind}:sample-rows", "batch row is not a stored transition of the single sampled task",
                             {"case": case, "task": t, "row": k, "recent": sorted(recent)})
    # isolation + totals at the end
    exp_lens = None


def gen_multi(rng, kind):
    cap = int(rng.choice([1, 2, 3, 4]))
    ntasks = int(rng.choice([1, 2, 3, 4]))
    n = int(rng.integers(1, 50))
    ops, k = [], 0
    for _ in range(n):
        r = rng.random()
        if r < 0.25:
            t = int(rng.integers(-1, ntasks + 1))
            ops.append(("select", t))
        elif r < 0.75:
            ops.append(("add", k))
            k += 1
        else:
            b = int(rng.choice([1, 2, 3, 5]))
            fr = gen_fracs(rng, b) if kind == "mt_uniform" else gen_us(rng, b)
            ops.append(("sample", int(rng.integers(0, 4)), fr, str(rng.choice(["kw", "pos"]))))
    return cap, ntasks, ops


def custom_layout_cases(chk, rng, n):
    """buffers constructed with their own keys / dtypes: every field comes back as stored, in the documented storage dtype"""
    from rl_blox.blox import replay_buffer as rbm
    from stubs import StubRng
    keys = ["observation", "action", "reward", "next_observation", "discount"]
    for i in range(n):
        kind = ["uniform", "lap", "per"][i % 3]
        cls = {"uniform": rbm.ReplayBuffer, "lap": rbm.LAP, "per": rbm.PrioritizedReplayBuffer}[kind]
        dts = [[np.float32, np.float32, np.float32, np.float32, np.float64], [np.float64, np.int32, np.float32, np.float64, np.float32],
               [np.float64, np.float64, np.float64, np.float64, np.float64]][(i // 3) % 3]
        cap = int(rng.integers(1, 6))
        case = {"class": kind, "capacity": cap, "keys": keys, "dtypes": [np.dtype(d).name for d in dts]}
        ok, buf = chk.impl_call(f"C02:{kind}:custom-layout-raised", case, cls, cap, keys, dts)
        chk.case(("layout", kind, cap, i))
        chk.count("custom_layout_cases")
        if not ok:
            continue
        rows = []
        for k in range(int(rng.integers(1, 2 * cap + 2))):
            row = {"observation": k + 0.5, "action": float(k % 3), "reward": k / 4.0, "next_observation": k + 1.5, "discount": 0.99 - k / 64.0}
            ok, _ = chk.impl_call(f"C02:{kind}:custom-layout-raised", {**case, "row": row}, lambda r=row: buf.add_sample(**r))
            rows.append(row)
        n_now = len(buf)
        got_dt = [np.dtype(buf.buffer[k_].dtype).name for k_ in keys]
        if got_dt != [np.dtype(d).name for d in dts]:
            chk.fail(f"C02:{kind}:storage-dtype", "the buffer does not store its fields in the dtypes it was constructed with", {"case": case, "storage_dtypes": got_dt})
            continue
        stub = StubRng()
        from fractions import Fraction
        stub.int_fracs = [Fraction(2 * j + 1, 2 * n_now) for j in range(n_now)]      # one draw per stored slot
        stub.uniforms = [(j + 0.5) / n_now for j in range(n_now)]
        ok, res = chk.impl_call(f"C02:{kind}:custom-layout-raised", case, buf.sample_batch, n_now, stub)
        if not ok:
            continue
        batch = res[0] if kind == "per" else res
        kept = rows[-n_now:]
        # batches are JAX arrays (float32 without x64): stored value in the storage dtype, then the batch's float32
        exp = {tuple(float(np.asarray(r[k_]).astype(d).astype(np.float32)) for k_, d in zip(keys, dts)) for r in kept}
        for j in range(n_now):
            tup = tuple(float(np.asarray(getattr(batch, k_))[j]) for k_ in keys)
            if tup not in exp:
                chk.fail(f"C02:{kind}:custom-layout-row", "a sampled row of a buffer with custom keys / dtypes is not one of the stored transitions (cast to the storage dtype)",
                         {"case": case, "sampled": tup, "stored_last": sorted(exp)[:3]})
                break


def main(chk):
    chk.proof_step()
    rng = np.random.default_rng(chk.seed)
    n = 60 if chk.tier == "quick" else 3000
    recs, exprs = [], []
    for kind in ("uniform", "lap", "per"):
        for _ in range(n):
            cap, cfg, ops = gen_single(rng, kind)
            rec = check_single(chk, kind, cap, cfg, ops)
            recs.append(("single", rec))
            exprs.append(model_expr_single(kind, cap, rec[5]))
            chk.case((kind, cap, cfg, len(ops), hash(str(ops))), nontrivial=len(ops) >= 3)
            chk.count(f"histories_{kind}")
            chk.count("ops_add", sum(1 for o in ops if o[0] == "add"))
            chk.count("ops_sample", sum(1 for o in ops if o[0] == "sample"))
            chk.count(f"cap_{cap}")
    for kind in ("mt_uniform", "mt_lap"):
        for _ in range(n):
            cap, nt, ops = gen_multi(rng, kind)
            case = {"class": kind, "capacity": cap, "tasks": nt,
                    "ops": [[o[0], o[1]] + ([[str(x) for x in o[2]], o[3]] if o[0] == "sample" else []) for o in ops]}
            ok, res = chk.impl_call(f"C02:{kind}:raised", case, run_multi, kind, cap, nt, ops)
            outs, mops = res if ok else ([], [])
            recs.append(("multi", (kind, cap, nt, ops, outs, mops)))
            exprs.append(model_expr_multi(kind, cap, nt, mops))
            chk.case((kind, cap, nt, len(ops), hash(str(ops))), nontrivial=len(ops) >= 3)
            chk.count(f"histories_{kind}")
    custom_layout_cases(chk, rng, 18 if chk.tier == "quick" else 300)
    mres = chk.model_eval(exprs)
    for (tag, rec), mr in zip(recs, mres):
        if tag == "single":
            compare_single(chk, rec, mr)
        else:
            compare_multi(chk, rec, mr)
    chk.sample({"class": recs[0][1][0], "capacity": recs[0][1][1], "config": recs[0][1][2],
                "ops": [(o[0], o[1] if o[0] == "add" else [str(x) for x in o[1]]) for o in recs[0][1][3]][:12],
                "model_trace_head": mres[0][:6]})
    return chk.finish(
        rule="random add/sample histories (1-60 ops, capacities 1-6 incl. exact wrap-around, dtypes default/float32+bool/discrete "
             "actions, batch sizes 1-8) on ReplayBuffer, LAP, PrioritizedReplayBuffer and select/add/sample histories on "
             "MultiTaskReplayBuffer (1-4 tasks, invalid ids included) with a scripted generator whose draws always contain both "
             "ends of the requested range; distinct = distinct (class, capacity, config, ops) with >= 3 ops",
        assumptions=["NumPy fancy indexing trusted as executed", "rows carry their id in every field; expected values are cast to the storage dtype"])
