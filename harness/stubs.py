"""Observation devices shared by the checks: scripted random generator, row encoders."""
from __future__ import annotations

import fractions

import numpy as np


class StubRng:
    """Stands in for numpy.random.Generator. Draws are scripted as fractions in [0, 1):
    integers(lo, hi, n) returns lo + floor(f * (hi - lo)); uniform returns
    low + (high - low) * u for scripted u; choice returns the element at a scripted
    position. Every call is logged with the arguments it received."""

    def __init__(self):
        self.calls = []
        self.int_fracs = []      # list of Fractions for the next integers() call
        self.uniforms = []       # list of floats for the next uniform() call
        self.choice_pos = 0

    # -- numpy.random.Generator API used by rl_blox
    def integers(self, low, high=None, size=None, **kw):
        if high is None:
            low, high = 0, low
        n = 1 if size is None else int(np.prod(size))
        fr = list(self.int_fracs[:n])
        if len(fr) < n:
            fr += [fractions.Fraction(0)] * (n - len(fr))
        width = int(high) - int(low)
        out = np.array([int(low) + int(f * width) for f in fr], dtype=int)
        self.calls.append(("integers", int(low), int(high), n))
        self.last_int_draws = out.copy()
        if size is None:
            return out[0]
        return out.reshape(size)

    def uniform(self, low=0.0, high=1.0, size=None):
        n = 1 if size is None else int(np.prod(size))
        us = np.array(list(self.uniforms[:n]) + [0.5] * max(0, n - len(self.uniforms)), dtype=float)
        self.calls.append(("uniform", np.asarray(low).tolist(), np.asarray(high).tolist(), n))
        out = np.asarray(low) + (np.asarray(high) - np.asarray(low)) * us
        if size is None:
            return float(out[0]) if np.ndim(out) else float(out)
        return np.asarray(out, dtype=float).reshape(size)

    def choice(self, a, size=None, **kw):
        a = list(a)
        self.calls.append(("choice", list(map(int, a)), size))
        pos = self.choice_pos % len(a)
        self.last_choice_pos = pos
        if size is None:
            return a[pos]
        return np.array([a[pos]] * int(np.prod(size)))


# ---- transition rows that carry their id in every field ----------------------
def make_row(k: int, discrete: bool = False):
    """Transition number k as keyword arguments of add_sample (5-tuple buffers)."""
    return dict(
        observation=np.array([k, -k], dtype=float),
        action=(k % 7) if discrete else np.array([2.0 * k]),
        reward=0.25 * k,
        next_observation=np.array([k + 1000, k], dtype=float),
        termination=bool(k % 2),
    )


def decode_row(batch, j, discrete=False):
    """Recover the id carried by row j of a sampled batch; returns (id or None, consistent)."""
    obs = np.asarray(batch.observation)[j]
    k = int(round(float(obs[0])))
    ok = float(obs[0]) == k and float(obs[1]) == -k
    act = np.asarray(batch.action)[j]
    ok &= (int(act) == k % 7) if discrete else (float(np.ravel(act)[0]) == 2.0 * k)
    ok &= float(np.asarray(batch.reward)[j]) == float(np.float32(0.25 * k)) or float(np.asarray(batch.reward)[j]) == 0.25 * k
    nobs = np.asarray(batch.next_observation)[j]
    ok &= float(nobs[0]) == k + 1000 and float(nobs[1]) == k
    ok &= bool(np.asarray(batch.termination)[j]) == bool(k % 2)
    return k, bool(ok)
