"""Observation devices shared by the checks: scripted random generator, row encoders."""
from __future__ import annotations

import fractions

import numpy as np


class StubRng:
    """Stands in for numpy.random.Generator. Draws are scripted as fractions in [0, 1):
    integers(lo, hi, n) returns lo + floor(f * (hi - lo)); uniform returns
    low + (high - low) * u for scripted u; choice returns the element at a scripted
    position. Every call is logged with the arguments it received."""

    def __init__(self):
        self.calls = []
        self.int_fracs = []      # list of Fractions for the next integers() call
        self.uniforms = []       # list of floats for the next uniform() call
        self.choice_pos = 0

    # -- numpy.random.Generator API used by rl_blox
    def integers(self, low, high=None, size=None, **kw):
        if high is None:
            low, high = 0, low
        n = 1 if size is None else int(np.prod(size))
        fr = list(self.int_fracs[:n])
        if len(fr) < n:
            fr += [fractions.Fraction(0)] * (n - len(fr))
        width = int(high) - int(low)
        out = np.array([int(low) + int(f * width) for f in fr], dtype=int)
        self.calls.append(("integers", int(low), int(high), n))
        self.last_int_draws = out.copy()
        if size is None:
            return out[0]
        return out.reshape(size)

    def uniform(self, low=0.0, high=1.0, size=None):
        n = 1 if size is None else int(np.prod(size))
        us = np.array(list(self.uniforms[:n]) + [0.5] * max(0, n - len(self.uniforms)), dtype=float)
        self.calls.append(("uniform", np.asarray(low).tolist(), np.asarray(high).tolist(), n))
        out = np.asarray(low) + (np.asarray(high) - np.asarray(low)) * us
        if size is None:
            return float(out[0]) if np.ndim(out) else float(out)
        return np.asarray(out, dtype=float).reshape(size)

    def choice(self, a, size=None, **kw):
        a = list(a)
        self.calls.append(("choice", list(map(int, a)), size))
        pos = self.choice_pos % len(a)
        self.last_choice_pos = pos
        if size is None:
            return a[pos]
        return np.array([a[pos]] * int(np.prod(size)))


# ---- transition rows that carry their id in every field ----------------------
def make_row(k: int, discrete: bool = False):
    """Transition number k as keyword arguments of add_sample (5-tuple buffers)."""
    return dict(
        observation=np.array([k, -k], dtype=float),
        action=(k % 7) if discrete else np.array([2.0 * k]),
        reward=0.25 * k,
        next_observation=np.array([k + 1000, k], dtype=float),
        termination=bool(k % 2),
    )


def decode_row(batch, j, discrete=False):
    """Recover the id carried by row j of a sampled batch; returns (id or None, consistent)."""
    obs = np.asarray(batch.observation)[j]
    k = int(round(float(obs[0])))
    ok = float(obs[0]) == k and float(obs[1]) == -k
    act = np.asarray(batch.action)[j]
    ok &= (int(act) == k % 7) if discrete else (float(np.ravel(act)[0]) == 2.0 * k)
    ok &= float(np.asarray(batch.reward)[j]) == float(np.float32(0.25 * k)) or float(np.asarray(batch.reward)[j]) == 0.25 * k
    nobs = np.asarray(batch.next_observation)[j]
    ok &= float(nobs[0]) == k + 1000 and float(nobs[1]) == k
    ok &= bool(np.asarray(batch.termination)[j]) == bool(k % 2)
    return k, bool(ok)


# ---- scripted recording environments --------------------------------------------
import gymnasium as gym  # noqa: E402


class StepAfterDone(RuntimeError):
    pass


class TabularEnv(gym.Env):
    """Deterministic-by-seed discrete environment with stochastic successors, scripted
    episode lengths / end kinds and dyadic rewards. Logs every reset / step; raises when
    stepped after an episode ended without reset."""

    def __init__(self, ns, na, script, seed=0):
        self.observation_space = gym.spaces.Discrete(ns)
        self.action_space = gym.spaces.Discrete(na)
        self.ns, self.na = ns, na
        self.script = list(script)      # [(length, "term"|"trunc"), ...] cycled
        self._rng = np.random.default_rng(seed)
        self.log = []
        self.ep = -1
        self.t = 0
        self.s = 0
        self.done = True
        self.total_steps = 0

    def reset(self, *, seed=None, options=None):
        self.ep += 1
        self.t = 0
        self.s = int((self.ep * 2) % self.ns)
        self.done = False
        self.log.append(("reset", self.s))
        return self.s, {}

    def step(self, action):
        if self.done:
            raise StepAfterDone("step() on a finished episode without reset()")
        a = int(action)
        assert 0 <= a < self.na
        s2 = int((self.s + a + int(self._rng.integers(0, 2))) % self.ns)   # two possible successors
        r = float(((self.s * 3 + a * 5 + self.t) % 9 - 4) / 4.0)
        self.t += 1
        self.total_steps += 1
        L, kind = self.script[self.ep % len(self.script)]
        term = self.t >= L and kind == "term"
        trunc = self.t >= L and kind == "trunc"
        self.log.append(("step", self.s, a, r, s2, term, trunc))
        self.s = s2
        self.done = term or trunc
        return s2, r, term, trunc, {"episode": {"r": 0.0}}


class ScriptEnv(gym.Env):
    """Scripted recording environment with Box observations.

    observation = [episode, t, env_id]; reward = number of steps taken so far by this
    environment (a unique id per step, dyadic scale 1/4 optional); episode lengths and end
    kinds come from a script that is cycled; every reset / step is logged with arguments and
    results; stepping a finished episode without reset raises StepAfterDone.
    `discrete` > 0 gives a Discrete(discrete) action space whose sample() calls are logged;
    otherwise a Box(low, high) action space."""

    metadata = {"render_modes": []}

    def __init__(self, script, env_id=0, discrete=0, low=(-1.0,), high=(1.0,), reward_scale=1.0, obs_dim=3):
        self.script = list(script)
        self.env_id = env_id
        self.obs_dim = obs_dim
        self.observation_space = gym.spaces.Box(-1e6, 1e6, shape=(obs_dim,), dtype=np.float32)
        if discrete:
            self.action_space = gym.spaces.Discrete(discrete)
        else:
            self.action_space = gym.spaces.Box(np.asarray(low, dtype=np.float32), np.asarray(high, dtype=np.float32), dtype=np.float32)
        self.discrete = discrete
        self.reward_scale = reward_scale
        self.log = []
        self.samples = 0
        self._orig_sample = self.action_space.sample

        def _logged_sample(*a, **k):
            self.samples += 1
            self.log.append(("sample",))
            return self._orig_sample(*a, **k)
        self.action_space.sample = _logged_sample
        self.ep = -1
        self.t = 0
        self.steps = 0
        self.done = True
        self.cur = None

    def _obs(self):
        o = np.zeros(self.obs_dim, dtype=np.float32)
        o[0], o[1] = self.ep, self.t
        if self.obs_dim > 2:
            o[2] = self.env_id
        return o

    def reset(self, *, seed=None, options=None):
        if seed is not None:
            self.action_space.seed(seed)
        self.ep += 1
        self.t = 0
        self.done = False
        self.cur = self._obs()
        self.log.append(("reset", self.cur.copy(), seed))
        return self.cur.copy(), {}

    def step(self, action):
        if self.done:
            raise StepAfterDone(f"env {self.env_id}: step() on a finished episode without reset()")
        a = np.array(action, copy=True)
        prev = self.cur.copy()
        self.t += 1
        self.steps += 1
        L, kind = self.script[self.ep % len(self.script)]
        term = bool(self.t >= L and kind == "term")
        trunc = bool(self.t >= L and kind == "trunc")
        self.cur = self._obs()
        r = float(self.steps * self.reward_scale)
        self.log.append(("step", prev, a, r, self.cur.copy(), term, trunc))
        self.done = term or trunc
        return self.cur.copy(), r, term, trunc, {}

    # helpers for the checks
    def step_events(self):
        return [e for e in self.log if e[0] == "step"]
