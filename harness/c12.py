"""C12 — actor objectives have the documented value and gradient."""
import numpy as np

from c03 import close, dy, fl, grads_zero, linear, t1, t2
from common import flit, llit, parse_f


def dual_list(vals, tans):
    return llit(list(zip(np.asarray(vals, dtype=float).reshape(-1), np.asarray(tans, dtype=float).reshape(-1))),
                lambda vt: f"({flit(vt[0])}, {flit(vt[1])})")


def stub_policy_cls():
    import jax.numpy as jnp
    from rl_blox.blox.function_approximator.policy_head import StochasticPolicyBase

    class StubPolicy(StochasticPolicyBase):
        """log pi(a|o) = lp_net([o, a]) (linear), sample(o) = a_net(o) (linear), entropy = ent_net(o)."""

        def __init__(self, a_net, lp_net, ent_net):
            self.a_net, self.lp_net, self.ent_net = a_net, lp_net, ent_net

        def __call__(self, o):
            return self.a_net(o)

        def sample(self, o, key):
            return self.a_net(o)

        def log_probability(self, o, a):
            return self.lp_net(jnp.concatenate((o, a), axis=-1)).squeeze(-1)

        def entropy(self, o):
            return self.ent_net(o).squeeze(-1)
    return StubPolicy


def bias_grad(g, name):
    return float(np.asarray(g[name]["output_layer"]["bias"].value).reshape(-1)[0])


def pseudo_loss_cases(chk, rng, n):
    import jax.numpy as jnp
    from flax import nnx
    from rl_blox.algorithm.actor_critic import actor_critic_policy_gradient
    from rl_blox.algorithm.reinforce import reinforce_gradient
    from rl_blox.blox.losses import stochastic_policy_gradient_pseudo_loss as pgl
    Stub = stub_policy_cls()
    exprs, recs = [], []
    od, ad = 2, 1
    for i in range(n):
        N = int(rng.choice([1, 2, 4, 8]))
        pol = Stub(linear(od, ad, rng, 1), linear(od + ad, 1, rng, 2), linear(od, 1, rng, 3))
        obs, act, nobs = dy(rng, (N, od)), dy(rng, (N, ad)), dy(rng, (N, od))
        w = dy(rng, (N,))
        o, a = jnp.asarray(obs), jnp.asarray(act)
        lp = np.asarray(pol.log_probability(o, a), dtype=float)
        case = {"N": N, "weights": w.tolist(), "logp": lp.tolist()}
        chk.case(("pg", N, obs.tobytes(), w.tobytes()), nontrivial=N >= 2)
        chk.count("pseudo_loss_cases")
        loss, g = nnx.value_and_grad(pgl, argnums=3)(o, a, jnp.asarray(w), pol)
        spec = -float(np.mean(w.astype(float) * lp))
        if not close(float(loss), spec):
            chk.fail("C12:pseudo_loss:value", "pseudo-loss is not -mean(w_i * log pi(a_i|o_i))", {"case": case, "impl": float(loss), "documented": spec})
        gb = bias_grad(g, "lp_net")
        if not close(gb, -float(np.mean(w))):
            chk.fail("C12:pseudo_loss:gradient", "gradient w.r.t. the log-probability bias is not -mean(w_i)", {"case": case, "impl": gb})
        exprs.append(f'(sr (fun (v, d) -> "[" ^ sf v ^ "," ^ sf d ^ "]") (M.pg_pseudo_loss (M.dual_ops float_ops) '
                     f'(M.T1 {dual_list(w, np.zeros(N))}) (M.T1 {dual_list(lp, np.ones(N))})))')
        recs.append((case, [float(loss), gb]))
        if N >= 2:
            # (N,1) weights must be rejected loudly, never broadcast
            try:
                out = pgl(o, a, jnp.asarray(w)[:, None], pol)
                chk.fail("C12:pseudo_loss:shape-check", "weights of shape (N,1) were accepted against log-probabilities of shape (N,)",
                         {"case": case, "value": float(out)})
            except Exception:  # noqa: BLE001
                chk.count("shape_rejections")
        # REINFORCE / actor-critic: weights (returns - baseline, TD errors) are constants for the gradient
        vf = linear(od, 1, rng, 4)
        ret, gd = dy(rng, (N,)), (rng.integers(1, 5, size=N) / 4).astype(np.float32)
        if N >= 2:
            l1, g1 = reinforce_gradient(pol, vf, o, a, jnp.asarray(ret), jnp.asarray(gd))
            wts = (ret - np.asarray(vf(o)).reshape(-1)) * gd
            l2, g2 = nnx.value_and_grad(pgl, argnums=3)(o, a, jnp.asarray(wts), pol)
            if not close(float(l1), float(l2)) or not close(bias_grad(g1, "lp_net"), bias_grad(g2, "lp_net")):
                chk.fail("C12:reinforce_gradient:weights", "REINFORCE loss / gradient differ from the pseudo-loss with constant weights (returns - baseline) * gamma^t",
                         {"case": case, "impl": float(l1), "expected": float(l2)})
            rw = dy(rng, (N,))
            gam = float(rng.choice([0.5, 1.0, 0.99]))
            l3, g3 = actor_critic_policy_gradient(pol, vf, o, a, jnp.asarray(nobs), jnp.asarray(rw), jnp.asarray(gd), gam)
            w3 = gd * (rw + gam * np.asarray(vf(jnp.asarray(nobs))).reshape(-1) - np.asarray(vf(o)).reshape(-1))
            l4, g4 = nnx.value_and_grad(pgl, argnums=3)(o, a, jnp.asarray(w3), pol)
            if not close(float(l3), float(l4)) or not close(bias_grad(g3, "lp_net"), bias_grad(g4, "lp_net")):
                chk.fail("C12:actor_critic_policy_gradient:weights", "actor-critic loss / gradient differ from the pseudo-loss with constant TD-error weights",
                         {"case": case, "impl": float(l3), "expected": float(l4)})
    res = chk.model_eval(exprs)
    for (case, impl), mr in zip(recs, res):
        if mr == "Err" or not close(impl, [parse_f(x) for x in mr]):
            chk.disagree("stochastic_policy_gradient_pseudo_loss", {"case": case, "impl": impl, "model_dual": mr})


def ppo_cases(chk, rng, n):
    import jax.numpy as jnp
    from flax import nnx
    from rl_blox.algorithm.ppo import ppo_loss
    Stub = stub_policy_cls()
    exprs, recs = [], []
    od, ad = 2, 1
    for i in range(n):
        N = int(rng.choice([2, 4, 8]))
        pol = Stub(linear(od, ad, rng, 1), linear(od + ad, 1, rng, 2), linear(od, 1, rng, 3))
        critic = linear(od, 1, rng, 5)
        obs, act = dy(rng, (N, od)), dy(rng, (N, ad))
        adv, ret = dy(rng, (N,)), dy(rng, (N,))
        o, a = jnp.asarray(obs), jnp.asarray(act)
        lp = np.asarray(pol.log_probability(o, a), dtype=float)
        mode = i % 3
        if mode == 0:
            old = lp.copy()                                   # unchanged policy: ratio = 1
        else:
            old = lp - rng.choice([-0.5, -0.25, 0.25, 0.5], size=N)      # ratios e^{+-0.25}, e^{+-0.5}: far from the clip edges 0.8 / 1.2
        clip = 0.2
        vals = np.asarray(critic(o), dtype=float).reshape(-1)
        ent = np.asarray(pol.entropy(o), dtype=float)
        case = {"N": N, "logp": lp.tolist(), "old_logp": old.tolist(), "advantages": adv.tolist(), "returns": ret.tolist(), "values": vals.tolist()}
        chk.case(("ppo", N, mode, obs.tobytes(), adv.tobytes()))
        chk.count("ppo_cases")
        f = lambda p_, c_: ppo_loss(p_, c_, jnp.asarray(old, dtype=jnp.float32), o, a, jnp.asarray(adv), jnp.asarray(ret), clip)
        loss, (gp, gc) = nnx.value_and_grad(f, argnums=(0, 1))(pol, critic)
        ratio = np.exp(lp - old)
        pol_term = -np.mean(np.minimum(ratio * adv, np.clip(ratio, 1 - clip, 1 + clip) * adv))
        val_term = np.mean((ret.astype(float) - vals) ** 2)
        spec = float(pol_term + 0.5 * val_term - 0.01 * ent.mean())
        if not close(float(loss), spec, rtol=1e-4, atol=1e-5):
            chk.fail("C12:ppo_loss:value", "PPO objective differs from clipped surrogate + 0.5 * per-sample squared value error - 0.01 * entropy",
                     {"case": case, "impl": float(loss), "documented": spec, "policy_term": float(pol_term), "value_term": float(val_term)})
        # gradient w.r.t. the log-probability bias: only unclipped-side samples contribute
        active = ~(((ratio > 1 + clip) & (adv > 0)) | ((ratio < 1 - clip) & (adv < 0)))
        g_spec = -float(np.mean(np.where(active, ratio * adv, 0.0)))
        gb = bias_grad(gp, "lp_net")
        if not close(gb, g_spec, rtol=1e-4, atol=1e-5):
            chk.fail("C12:ppo_loss:policy-gradient", "policy gradient is not that of the surrogate with clipped samples removed "
                     "(at ratio 1: the gradient of the unclipped surrogate)", {"case": case, "impl": gb, "expected": g_spec, "mode": mode})
        # critic gradient (bias): d/db 0.5 * mean((ret - v)^2) = -mean(ret - v)
        gcb = float(np.asarray(gc["output_layer"]["bias"].value).reshape(-1)[0])
        if not close(gcb, -float(np.mean(ret - vals)), rtol=1e-4, atol=1e-5):
            chk.fail("C12:ppo_loss:value-gradient", "critic gradient is not that of the per-sample squared error", {"case": case, "impl": gcb})
        exprs.append(f'(match M.ppo_loss (M.dual_ops float_ops) ({flit(clip)}, 0.0) {dual_list(lp, np.ones(N))} {dual_list(old, np.zeros(N))} '
                     f'{dual_list(adv, np.zeros(N))} {dual_list(ret, np.zeros(N))} (M.T2 {llit(vals, lambda v: "[(" + flit(v) + ", 0.0)]")}) '
                     f'(M.T1 {dual_list(ent, np.zeros(N))}) with M.Err -> "\\"Err\\"" | M.Ok (v, d) -> "[" ^ sf v ^ "," ^ sf d ^ "]")')
        recs.append((case, [float(loss), gb]))
    res = chk.model_eval(exprs)
    for (case, impl), mr in zip(recs, res):
        if mr == "Err" or not close(impl, [parse_f(x) for x in mr], rtol=1e-4, atol=1e-5):
            chk.disagree("ppo_loss", {"case": case, "impl": impl, "model_dual": mr})


def dpg_sac_cases(chk, rng, n):
    import jax
    import jax.numpy as jnp
    import optax
    from flax import nnx
    from rl_blox.algorithm import sac
    from rl_blox.blox.double_qnet import ContinuousClippedDoubleQNet
    from rl_blox.blox.losses import deterministic_policy_gradient_loss
    Stub = stub_policy_cls()
    exprs, recs = [], []
    od, ad = 2, 1
    for i in range(n):
        N = int(rng.choice([2, 4, 8]))
        obs = dy(rng, (N, od))
        o = jnp.asarray(obs)
        q1, q2 = linear(od + ad, 1, rng, 1), linear(od + ad, 1, rng, 2)
        q = ContinuousClippedDoubleQNet(q1, q2)
        pol = Stub(linear(od, ad, rng, 3), linear(od + ad, 1, rng, 4), linear(od, 1, rng, 5))
        chk.case(("dpg_sac", N, obs.tobytes()))
        chk.count("dpg_sac_cases")
        # DPG
        dl, (gq, gpol) = nnx.value_and_grad(lambda q_, p_: deterministic_policy_gradient_loss(q_, o, p_), argnums=(0, 1))(q1, pol.a_net)
        qo = np.asarray(q1(jnp.concatenate((o, pol.a_net(o)), axis=-1)), dtype=float)
        case = {"N": N, "q": qo.reshape(-1).tolist()}
        if not close(float(dl), -float(qo.mean())):
            chk.fail("C12:deterministic_policy_gradient_loss:value", "DPG loss is not -mean Q(o, pi(o))", {"case": case, "impl": float(dl)})
        exprs.append(f"(sf (M.dpg_loss float_ops {t2(qo)}))")
        recs.append(("dpg", case, float(dl)))
        # the same loss with the critic TD3 hands to it: Q is whatever the critic module computes (the clipped double Q: min of both)
        okd, dld = chk.impl_call("C12:deterministic_policy_gradient_loss:double-q-raised", case,
                                 lambda: nnx.value_and_grad(lambda p_, q_: deterministic_policy_gradient_loss(q_, o, p_), argnums=0)(pol.a_net, q))
        if okd:
            oa_d = jnp.concatenate((o, pol.a_net(o)), axis=-1)
            qd = np.asarray(q(oa_d), dtype=float)
            gref = nnx.grad(lambda p_, q_: -q_(jnp.concatenate((o, p_(o)), axis=-1)).mean(), argnums=0)(pol.a_net, q)
            gi = np.concatenate([np.asarray(x, dtype=float).reshape(-1) for x in jax.tree.leaves(nnx.state(dld[1], nnx.Param))])
            gr = np.concatenate([np.asarray(x, dtype=float).reshape(-1) for x in jax.tree.leaves(nnx.state(gref, nnx.Param))])
            case_d = {"N": N, "critic": "ContinuousClippedDoubleQNet", "q": qd.reshape(-1).tolist(),
                      "q1": np.asarray(q1(oa_d), dtype=float).reshape(-1).tolist(), "q2": np.asarray(q2(oa_d), dtype=float).reshape(-1).tolist()}
            if not close(float(dld[0]), -float(qd.mean())):
                chk.fail("C12:deterministic_policy_gradient_loss:value", "DPG loss with a clipped double-Q critic is not -mean Q(o, pi(o)) of that critic",
                         {"case": case_d, "impl": float(dld[0]), "documented": -float(qd.mean())})
            elif not np.allclose(gi, gr, rtol=1e-4, atol=1e-6):
                chk.fail("C12:deterministic_policy_gradient_loss:gradient", "the actor gradient of the DPG loss with a clipped double-Q critic is not that of -mean Q(o, pi(o))",
                         {"case": case_d, "impl": gi.tolist(), "documented": gr.tolist()})
            exprs.append(f"(sf (M.dpg_loss float_ops {t2(qd)}))")
            recs.append(("dpg_double", case_d, float(dld[0])))
        # SAC actor
        alpha = float(rng.choice([0.0, 0.25, 1.0]))
        sl = sac.sac_actor_loss(pol, q, alpha, jax.random.key(0), o)
        acts = pol.sample(o, None)
        lp = np.asarray(pol.log_probability(o, acts), dtype=float)
        oa = jnp.concatenate((o, acts), axis=-1)
        qm = np.minimum(np.asarray(q1(oa)), np.asarray(q2(oa))).astype(float)
        spec = float(np.mean(alpha * lp - qm.reshape(-1)))
        case2 = {"N": N, "alpha": alpha, "logp": lp.tolist(), "min_q": qm.reshape(-1).tolist()}
        if not close(float(sl), spec):
            chk.fail("C12:sac_actor_loss:value", "SAC actor loss is not mean(alpha * log pi - min Q)", {"case": case2, "impl": float(sl), "documented": spec})
        gq_sac = nnx.grad(lambda q_, p_: sac.sac_actor_loss(p_, q_, alpha, jax.random.key(0), o), argnums=0)(q, pol)
        # the same objective with critics whose output has shape (N,) instead of (N, 1)
        class Flat(nnx.Module):
            def __init__(self, net):
                self.net = net

            def __call__(self, x):
                return self.net(x).squeeze(-1)
        qf = ContinuousClippedDoubleQNet(Flat(q1), Flat(q2))
        okf, slf = chk.impl_call("C12:sac_actor_loss:flat-critic-raised", case2, lambda: float(sac.sac_actor_loss(pol, qf, alpha, jax.random.key(0), o)))
        if okf and not close(slf, spec):
            chk.fail("C12:sac_actor_loss:value", "SAC actor loss with a critic of output shape (N,) is not mean(alpha * log pi - min Q)",
                     {"case": {**case2, "critic_output_shape": "(N,)"}, "impl": slf, "documented": spec})
        exprs.append(f"(sr sf (M.sac_actor_loss float_ops {flit(alpha)} {t1(lp)} {t2(qm)}))")
        recs.append(("sac_actor", case2, float(sl)))
        # temperature: first step direction through the real update
        target = float(rng.choice([-1.0, 0.5, 2.0]))
        if i % 3 == 2:      # a sharply peaked policy (log pi around 6) with the target entropy of a 2-4 dimensional action space
            pol.lp_net.output_layer.bias.value = pol.lp_net.output_layer.bias.value + 6.0
            lp = np.asarray(pol.log_probability(o, acts), dtype=float)
            target = float(rng.choice([-2.0, -3.0, -4.0]))
        la = sac.EntropyCoefficient(jnp.zeros(1))
        opt = nnx.Optimizer(la, optax.sgd(0.1), wrt=nnx.Param)
        before = float(np.asarray(la.log_alpha.value)[0])
        el, alpha_new = sac._update_entropy_coefficient(opt, pol, target, jax.random.key(1), o, la)
        after = float(np.asarray(la.log_alpha.value)[0])
        ent_est = -float(lp.mean())
        case3 = {"N": N, "target_entropy": target, "logp": lp.tolist(), "entropy_estimate": ent_est}
        if abs(ent_est - target) > 1e-3 and (after > before) != (ent_est < target):
            chk.fail("C12:sac_exploration_loss:alpha-direction", "the temperature step does not raise alpha exactly when the sampled entropy estimate is below the target",
                     {"case": case3, "log_alpha_before": before, "log_alpha_after": after})
        exprs.append(f'(let (v, d) = M.sac_exploration_loss (M.dual_ops float_ops) (0.0, 1.0) ({flit(target)}, 0.0) {dual_list(lp, np.zeros(N))} in '
                     f'"[" ^ sf v ^ "," ^ sf d ^ "]")')
        recs.append(("alpha", case3, [float(el), -(after - before) / 0.1]))
    res = chk.model_eval(exprs)
    for (kind, case, impl), mr in zip(recs, res):
        m = [parse_f(x) for x in mr] if isinstance(mr, list) else (mr if mr == "Err" else parse_f(mr))
        if m == "Err" or not close(impl, m, rtol=1e-4, atol=1e-5):
            chk.disagree(kind, {"case": case, "impl": impl, "model": mr})


def ppo_epoch_cases(chk, rng, n):
    """update_ppo over several epochs: the probability ratio of every epoch is taken against the policy that collected the data
    (log-probabilities before the first update), and advantages / returns stay the same"""
    import jax
    import jax.numpy as jnp
    import optax
    from flax import nnx
    from rl_blox.algorithm import ppo
    from rl_blox.blox.function_approximator.mlp import MLP
    from rl_blox.blox.function_approximator.policy_head import SoftmaxPolicy
    for i in range(n):
        N, epochs = int(rng.choice([4, 6])), int([1, 2, 3][i % 3])
        actor = SoftmaxPolicy(MLP(3, 2, [4], "tanh", nnx.Rngs(i)))
        critic = MLP(3, 1, [4], "tanh", nnx.Rngs(i + 10))
        oa, oc = nnx.Optimizer(actor, optax.sgd(0.5), wrt=nnx.Param), nnx.Optimizer(critic, optax.sgd(0.1), wrt=nnx.Param)
        obs = jnp.asarray(rng.normal(size=(N, 3)).astype(np.float32))
        act = jnp.asarray(rng.integers(0, 2, size=N))
        rew = jnp.asarray(rng.normal(size=N).astype(np.float32) * 2)
        term = jnp.asarray((rng.random(N) < 0.3).astype(np.float32))
        nv = jnp.asarray(rng.normal(size=N).astype(np.float32))
        logp0 = np.asarray(actor.log_probability(obs, act), dtype=float)
        calls, orig = [], ppo.ppo_loss

        def rec(actor_, critic_, old_logps, observations, actions, advantages, returns, *a, **k):
            calls.append((np.asarray(old_logps, dtype=float), np.asarray(advantages, dtype=float), np.asarray(returns, dtype=float)))
            return orig(actor_, critic_, old_logps, observations, actions, advantages, returns, *a, **k)
        ppo.ppo_loss = rec
        try:
            with jax.disable_jit():
                ppo.update_ppo(actor, critic, oa, oc, obs, act, rew, term, nv, epochs=epochs, n_envs=1)
        finally:
            ppo.ppo_loss = orig
        case = {"N": N, "epochs": epochs}
        chk.case(("ppo-epochs", i, N, epochs))
        chk.count("ppo_epoch_cases")
        if len(calls) != epochs:
            chk.fail("C12:update_ppo:epochs", "update_ppo did not evaluate the objective once per epoch", {"case": case, "evaluations": len(calls)})
            continue
        for e, (lp, adv, ret) in enumerate(calls):
            if not np.allclose(lp, logp0, rtol=1e-6, atol=1e-6):
                chk.fail("C12:update_ppo:old-log-probabilities", "in a later epoch the probability ratio is not taken against the policy that collected the data "
                         "(the 'old' log-probabilities changed between epochs), so clipped samples keep receiving policy gradient",
                         {"case": case, "epoch": e, "old_logp_passed": lp.tolist(), "logp_before_first_update": logp0.tolist()})
                break
            if not (np.array_equal(adv, calls[0][1]) and np.array_equal(ret, calls[0][2])):
                chk.fail("C12:update_ppo:targets-changed", "advantages / returns changed between epochs", {"case": case, "epoch": e})
                break


def embedded_policy_cases(chk, rng, n):
    """DPG objectives of the SALE (TD7) and encoder (MR.Q) policies on real modules with non-unit action bounds:
    the critic must be evaluated at the action the policy actually produces."""
    import jax.numpy as jnp
    from rl_blox.algorithm.mrq import create_mrq_state, mrq_policy_loss
    from rl_blox.algorithm.td7 import create_td7_state, deterministic_policy_gradient_loss_sale
    from stubs import ScriptEnv
    exprs, recs = [], []
    for i in range(n):
        d = int(rng.choice([1, 2]))
        low = rng.uniform(-3, 1, size=d).astype(np.float32)
        high = (low + rng.uniform(0.5, 5, size=d)).astype(np.float32)
        if i % 4 == 0:
            low, high = -np.ones(d, dtype=np.float32), np.ones(d, dtype=np.float32)
        env = ScriptEnv([(3, "term")], low=tuple(float(x) for x in low), high=tuple(float(x) for x in high))
        N = int(rng.choice([2, 5]))
        obs = jnp.asarray(rng.normal(size=(N, 3)).astype(np.float32))
        case = {"N": N, "low": low.tolist(), "high": high.tolist()}
        chk.case(("embedded", i, str(case)))
        chk.count("embedded_policy_cases")
        # --- MR.Q encoder policy
        st = create_mrq_state(env, policy_hidden_nodes=(4,), q_hidden_nodes=(4,), encoder_n_bins=7, encoder_zs_dim=4, encoder_za_dim=3, encoder_zsa_dim=4,
                              encoder_hidden_nodes=(4,), seed=i)
        enc, pol = st.policy_with_encoder.encoder, st.policy_with_encoder.policy
        zs = enc.encode_zs(obs)
        w = float(rng.choice([0.0, 1e-2, 0.5]))
        loss, (dpg, reg) = mrq_policy_loss(pol, st.q, enc, zs, w)
        act = pol(zs)                                       # the action the policy produces
        qv = np.asarray(st.q(enc.encode_zsa(zs, act)), dtype=float)
        reg_ref = float(np.mean(np.square(np.asarray(pol.policy_net(zs), dtype=float))))
        if not (close(float(dpg), -float(qv.mean()), rtol=1e-4, atol=1e-5) and close(float(reg), reg_ref, rtol=1e-4, atol=1e-6)
                and close(float(loss), -float(qv.mean()) + w * reg_ref, rtol=1e-4, atol=1e-5)):
            chk.fail("C12:mrq_policy_loss:value", "the MR.Q policy loss is not -mean Q(zsa(zs, pi(zs))) + weight * mean(pre-activation^2) at the action the policy produces",
                     {"case": case, "impl": [float(loss), float(dpg), float(reg)], "documented": [-float(qv.mean()) + w * reg_ref, -float(qv.mean()), reg_ref],
                      "policy_action": np.asarray(act).tolist()})
        exprs.append(f"(sf (M.dpg_loss float_ops {t2(qv.reshape(N, -1)[:, :1])}))")
        recs.append(("mrq_dpg", case, float(dpg) if qv.reshape(N, -1).shape[1] == 1 else -float(qv.reshape(N, -1)[:, :1].mean())))
        # --- TD7 SALE policy
        s7 = create_td7_state(env, n_embedding_dimensions=4, state_embedding_hidden_nodes=(4,), state_action_embedding_hidden_nodes=(4,), policy_sa_encoding_nodes=4,
                              policy_hidden_nodes=(4,), q_sa_encoding_nodes=4, q_hidden_nodes=(4,), seed=i)
        dl = deterministic_policy_gradient_loss_sale(s7.embedding, s7.critic, obs, s7.actor)
        zs7 = s7.embedding.state_embedding(obs)
        a7 = s7.actor(obs, zs7)
        zsa7 = s7.embedding.state_action_embedding(jnp.concatenate((zs7, a7), axis=-1))
        q7 = np.asarray(s7.critic.mean(jnp.concatenate((obs, a7), axis=-1), zs=zs7, zsa=zsa7), dtype=float)
        inside = bool(np.all(np.asarray(a7) >= low - 1e-5) and np.all(np.asarray(a7) <= high + 1e-5))
        if not close(float(dl), -float(q7.mean()), rtol=1e-4, atol=1e-5) or not inside:
            chk.fail("C12:deterministic_policy_gradient_loss_sale:value", "the SALE actor loss is not -mean Q(o, pi(o)) at the (bounded) action the actor produces",
                     {"case": case, "impl": float(dl), "documented": -float(q7.mean()), "actions_inside_bounds": inside})
        exprs.append(f"(sf (M.dpg_loss float_ops {t2(q7.reshape(N, 1))}))")
        recs.append(("sale_dpg", case, float(dl)))
    for (kind, case, impl), mr in zip(recs, chk.model_eval(exprs)):
        if not close(impl, parse_f(mr), rtol=1e-4, atol=1e-5):
            chk.disagree(kind, {"case": case, "impl": impl, "model": mr})


def a2c_norm_cases(chk, rng, n):
    import jax
    import jax.numpy as jnp
    import optax
    from flax import nnx
    from rl_blox.algorithm import a2c
    Stub = stub_policy_cls()
    exprs, recs = [], []
    for i in range(n):
        N = int(rng.choice([2, 4, 8]))
        pol = Stub(linear(2, 1, rng, 1), linear(3, 1, rng, 2), linear(2, 1, rng, 3))
        opt = nnx.Optimizer(pol, optax.sgd(0.0), wrt=nnx.Param)
        obs, act, adv = dy(rng, (N, 2)), dy(rng, (N, 1)), dy(rng, (N,))
        seen = []
        orig = a2c.a2c_policy_gradient

        def rec(policy, observations, actions, advantages):
            seen.append(np.asarray(advantages, dtype=float))
            return orig(policy, observations, actions, advantages)
        a2c.a2c_policy_gradient = rec
        try:
            with jax.disable_jit():
                a2c.train_policy_a2c(pol, opt, 1, jnp.asarray(obs), jnp.asarray(act), jnp.asarray(adv))
        finally:
            a2c.a2c_policy_gradient = orig
        case = {"advantages": adv.tolist()}
        chk.case(("a2c_norm", adv.tobytes()))
        chk.count("a2c_normalisation_cases")
        ref = (adv.astype(float) - adv.mean()) / (adv.astype(float).std() + 1e-8)
        if len(seen) != 1 or not close(seen[0], ref, rtol=1e-4, atol=1e-5):
            chk.fail("C12:train_policy_a2c:normalisation", "A2C weights are not the standardised advantages", {"case": case, "impl": [s.tolist() for s in seen]})
            continue
        exprs.append(f"(sl sf (M.a2c_normalise float_ops {fl(adv)}))")
        recs.append((case, seen[0]))
    res = chk.model_eval(exprs)
    for (case, impl), mr in zip(recs, res):
        if not close(impl, [parse_f(x) for x in mr], rtol=1e-4, atol=1e-5):
            chk.disagree("train_policy_a2c.normalisation", {"case": case, "impl": impl.tolist(), "model": mr})


def main(chk):
    chk.proof_step()
    rng = np.random.default_rng(chk.seed)
    q = chk.tier == "quick"
    pseudo_loss_cases(chk, rng, 24 if q else 800)
    ppo_cases(chk, rng, 24 if q else 800)
    dpg_sac_cases(chk, rng, 16 if q else 500)
    a2c_norm_cases(chk, rng, 8 if q else 200)
    embedded_policy_cases(chk, rng, 6 if q else 80)
    ppo_epoch_cases(chk, rng, 6 if q else 60)
    chk.sample({"note": "stub policy with linear log-probability / sample / entropy networks and linear critics (half-integer weights), dyadic "
                        "batches of size 1-8; value and jax gradient vs documented formulas and vs the dual-number evaluation of the extracted model"})
    return chk.finish(
        rule="pseudo-loss (value, gradient, (N,1)-weight rejection, REINFORCE and actor-critic weights as constants), PPO objective "
             "(ratio 1 and ratios e^{+-0.25}, e^{+-0.5} on both advantage signs; value term; critic gradient), DPG and SAC actor losses, "
             "first temperature step through _update_entropy_coefficient, A2C advantage normalisation observed inside train_policy_a2c; DPG objective of "
             "the MR.Q encoder policy (mrq_policy_loss) and of the TD7 SALE actor on real modules with unit and non-unit action bounds; update_ppo with "
             "1-3 epochs (old log-probabilities, advantages and returns fixed across epochs)",
        assumptions=["policy / critic forward passes are oracles (stub linear modules)", "JAX autodiff trusted to differentiate the traced program",
                     "ratios are kept away from the clip edges (max/min kinks are not compared)", "float32 tolerance 1e-4"])
