#!/usr/bin/env python3
"""Writes the one-line descriptions into seeded/<id>/<m>/meta.json and prints the markdown table of DESIGN.md §8.6."""
import glob
import json
import os

V = "/verif"
# (what the change is, what it needs to manifest) - condensed from the sub-agents' notes.md, which are stored beside each patch
DESC = {
    "C01/m1": ("train_sac stores `termination or truncation` as the termination flag", "an episode that ends by truncation"),
    "C01/m2": ("ppo.collect_trajectories: trailing `obs = next_obs` deleted, the final-observation patch is carried over", "an episode ending inside a rollout (SAME_STEP autoreset)"),
    "C02/m1": ("ReplayBuffer.add_sample: length = max(len, insert_idx) after the index wrapped", "at least capacity additions"),
    "C02/m2": ("MultiTaskReplayBuffer: copy.copy instead of deepcopy of the per-task buffer", "two tasks, additions to both"),
    "C03/m1": ("model_based_encoder_loss: termination mask no longer cumulative", "horizon >= 3, a termination followed by non-terminated steps"),
    "C03/m2": ("td7_update_critic: value clipping applied to the whole target instead of the bootstrap", "a target outside [q_min, q_max]"),
    "C04/m1": ("SubtrajectoryReplayBuffer.add_sample no longer clears the start flag of the successor-row slot", "wrapped ring + episode end on a slot that was a start in the previous pass"),
    "C04/m2": ("sample_batch: next_observation of the reduced view taken at the storage horizon", "include_intermediate=False and horizon < storage horizon"),
    "C05/m1": ("TD7 target sync rotates references (`policy.embedding = embedding`) instead of copying weights", "target_delay training epochs; then update_sale changes the fixed embeddings"),
    "C05/m2": ("train_ensemble trims the last batch with `[:, :-remaining]` also when remaining == 0", "bootstrap size an exact multiple of batch_size: no update at all"),
    "C06/m1": ("TD7 target block reordered: fixed embedding refreshed before it is copied to the target embedding", "a TD7 run reaching a target update"),
    "C06/m2": ("DDQN target copy nested under `step % update_frequency == 0`", "target_update_frequency not a multiple of update_frequency"),
    "C07/m1": ("discounted_n_step_return vectorised with an inclusive cumprod of (1 - terminated)", "a terminated step with non-zero reward inside the window"),
    "C07/m2": ("prepare_a2c_batch: one GAE scan over the env-major flattened rollout", "> 1 environment, a rollout not ending on a terminated step, gamma*lambda > 0"),
    "C08/m1": ("MultiTaskReplayBuffer.update_priority indexes the selected task, not the sampled one", "sample from a task other than the selected one, then update"),
    "C08/m2": ("PriorityBuffer.prioritized_sampling masks the stored priorities in place", "subtrajectory PER: add, sample, add more, sample"),
    "C09/m1": ("smt_stage1 breaks ties with the global np.random.choice", "a task leaving the pool while two untrained tasks are tied"),
    "C09/m2": ("train_td7: ValueClippingState() as a mutable default argument", "a second train_td7 call in the same process"),
    "C10/m1": ("sample_target_actions clips the noise to +-noise_clip, not to +-noise_clip*half range", "half range < 1"),
    "C10/m2": ("cem_sample: 0.5 * min(dist)^2 instead of (0.5*dist)^2", "search variance above (d/2)^2 and a draw beyond 1.41 sigma"),
    "C11/m1": ("train_active_mt: 'cut by the budget' test `len(return_queue) == 0`", "scheduling_interval > 1, budget ending inside a backbone call"),
    "C11/m2": ("DUCB discounted counts updated incrementally, rewards still windowed", "> 250 rewarded rounds, gamma close to 1"),
    "C12/m1": ("ppo_loss: lower clip of the probability ratio dropped", "negative advantage with ratio below 1 - clip"),
    "C12/m2": ("mrq_policy_loss evaluates the critic at tanh(activation) instead of the scaled action", "action space other than the unit box"),
    "C13/m1": ("GaussianPolicy.entropy: 0.5*clip(log_var) instead of clip(0.5*log_var)", "log-variance outside [-20, 2]"),
    "C13/m2": ("train_ddqn acts greedily on the target network", "an update since the last target sync, a non-exploring step"),
    "C14/m1": ("Monte-Carlo update counts all visits of the episode before the backward loop", "a state-action pair visited twice in one episode"),
    "C14/m2": ("Dyna-Q model_update writes only the visited successor probability", "stochastic successors"),
    "C15/m1": ("checkpoint window switch guarded by `max_episodes_before_update != max_episodes_when_checkpointing`", "max_episodes_when_checkpointing = 1"),
    "C15/m2": ("TD7 checkpoint policy built on the live fixed embedding (no clone)", "use_checkpoints and a target update after a checkpoint"),
    "C16/m1": ("cem_sample: 0.5 * bound_dist^2", "variance above (d/2)^2"),
    "C16/m2": ("CMA-ES best_params re-read from the current population at the incumbent's old slot", "a second generation without improvement"),
    "C17/m1": ("pendulum_reward no longer clips the torque", "abs(u) > 2"),
    "C17/m2": ("train_ensemble batches with reshape(-1, n_ensemble, batch_size)", ">= 2 batches per epoch"),
    "C18/m1": ("two_hot_encoding via searchsorted clipped to n-1", "input equal to the last bin edge"),
    "C18/m2": ("linear_schedule closed form ending in maximum(schedule, end)", "increasing schedule"),
    "C19/m1": ("buffer pickles trimmed at insert_idx instead of current_len", "save of a full or wrapped buffer"),
    "C19/m2": ("load_pickle caches the unpickled state per file name", "two loads of one file name in a process, re-save or training in between"),
    "C20/m1": ("OrbaxCheckpointer cadence: `step - last_step > interval`", "a record exactly one interval after the previous one"),
    # ---- second round
    "C01/r2m1": ("a2c.collect_trajectories: `obs = next_obs` moved to the top of the loop, the returned observation is one step old", "two consecutive rollouts (train_a2c)"),
    "C01/r2m2": ("ReplayBuffer.add_sample re-allocates its arrays whenever insert_idx == 0", "more steps than the buffer capacity (wrap)"),
    "C02/r2m1": ("MultiTaskReplayBuffer.sample_batch selects the drawn task as a side effect", "select, sample from another task, add without re-selecting"),
    "C02/r2m2": ("LAP.__init__ no longer forwards `dtypes`", "LAP / PER constructed with custom dtypes"),
    "C03/r2m1": ("sac_loss: entropy term added outside the (1 - terminated) factor", "a terminated transition and alpha != 0"),
    "C03/r2m2": ("td3_lap_loss goes through a shared helper and omits min_priority (Huber delta fixed at 1)", "min_priority != 1"),
    "C04/r2m1": ("SubtrajectoryReplayBuffer.add_sample: past_idx range from current_len instead of episode_timesteps", "a terminated episode shorter than the horizon after earlier data"),
    "C04/r2m2": ("PriorityBuffer.prioritized_sampling masks in place", "prioritized subtrajectory buffer, sample / add interleaved beyond a wrap"),
    "C05/r2m1": ("train_value_function as nnx.scan with the value function broadcast (mutations dropped)", "value_gradient_steps >= 2"),
    "C05/r2m2": ("train_ddpg builds policy_target with nnx.merge(*nnx.split(policy)) (shares the Params)", "train_ddpg creating its own target, one actor update"),
    "C06/r2m1": ("TD7 checkpoint embedding copied from the live embedding, not from the fixed embedding", "use_checkpoints, second checkpoint update off a target-delay multiple"),
    "C06/r2m2": ("SAC applies the soft update target_network_delay times per update point", "target_network_delay > 1, tau < 1"),
    "C07/r2m1": ("model_based_encoder_loss: termination mask no longer cumulative (as C03/m1, delivered for C07)", "horizon >= 3, termination followed by non-terminated steps"),
    "C07/r2m2": ("discounted_reward_to_go vectorised with a division by gamma^t", "gamma = 0 (or underflow of gamma^t)"),
    "C08/r2m1": ("LAP.reset_max_priority passes insert_idx instead of current_len", "wrapped buffer with non-uniform priorities"),
    "C08/r2m2": ("importance weights normalised by the smallest stored priority's weight", "batch missing the minimum-priority slot, beta > 0"),
    "C09/r2m1": ("MultiTaskReplayBuffer.active_buffers becomes a set of buffer objects (ordered by address)", "multi-task scheduler with two active tasks"),
    "C09/r2m2": ("LAP.add_sample initialises the priority after the insert index advanced (slot 0 stays uninitialised)", "a LAP-based routine before its buffer wraps; uninitialised memory differing between runs"),
    "C10/r2m1": ("PETS planner bounds built with repeat().reshape(): dimensions mixed over the plan", "two action dimensions with different bounds"),
    "C10/r2m2": ("make_sample_actions caches the jitted sampler keyed on shape / dtype / noise only", "a second sampler in the process for another box of the same shape"),
    "C11/r2m1": ("train_td7: the learning_starts gate survives only without checkpoints; in checkpoint mode released epochs train during warm-up", "use_checkpoints and an episode ending before learning_starts"),
    "C11/r2m2": ("DUCBGeneralized.select returns the arm index instead of tasks[arm]", "a task array that is not 0..n-1"),
    "C12/r2m1": ("sac_exploration_loss clips log pi to [-20, 2]", "peaked policy (log pi > 2), action dimension >= 2"),
    "C12/r2m2": ("update_ppo re-reads the 'old' log-probabilities in every epoch", "epochs >= 2"),
    "C13/r2m1": ("SoftmaxPolicy log-softmax stabilised with the batch-wide maximum", "batch >= 2 with rows on very different logit scales"),
    "C13/r2m2": ("train_nature_dqn allocates epsilon_rolls for total_timesteps - global_step but indexes with the absolute step", "a continued run with global_step > 0"),
    "C14/r2m1": ("train_q_learning passes `terminated or truncated` as the termination flag of the update", "a truncated step with a non-zero greedy successor value"),
    "C14/r2m2": ("Dyna-Q planning gathers max Q(s') for all replays before the sweep", "n_planning_steps >= 2 and an earlier replay changing a later successor's row maximum"),
    "C15/r2m1": ("TD7 _train_step returns early while the buffer holds fewer than batch_size transitions", "use_checkpoints and a window ending before the buffer reaches batch_size"),
    "C15/r2m2": ("accepted window records the last return, not the window minimum, as best minimum", "long window active, last return above the window minimum, a later return in between"),
    "C16/r2m1": ("CMA-ES step-size cap applied as exp(2 * min(1.2, .)) on the variance", "several generations moving the mean in one direction (cap active)"),
    "C16/r2m2": ("cem_update takes every sample with fitness >= the n_elite-th best", "a tie across the elite boundary"),
    "C17/r2m1": ("base_predict takes member i from an lru_cache'd helper", "base_predict, parameter change, base_predict again on the same object"),
    "C17/r2m2": ("gaussian_nll clips the log-variance to [-10, 10] inside the precision term", "predicted log-variance outside [-10, 10]"),
    "C18/r2m1": ("avg_l1_norm divides by mean|x| + eps instead of max(mean|x|, eps)", "mean|x| between 1e-8 and 1e-4"),
    "C18/r2m2": ("make_two_hot_bins pins the centre edge to 0", "asymmetric exponent range"),
    "C19/r2m1": ("prioritized buffers call reset_max_priority() in __setstate__", "max priority above the current maximum of the stored priorities at save time"),
    "C19/r2m2": ("Orbax save and restore_checkpoint handle nnx.Param only", "tanh policy head, template with other non-Param variables"),
    "C20/r2m1": ("OrbaxCheckpointer.save_model saves nnx.Param only", "module with non-Param variables, restore into its full state"),
    "C20/r2m2": ("LoggerList.record_stat forwards (key, value, step, episode) positionally", "explicit episode / step through a LoggerList"),
    # ---- third round (12 properties)
    "C01/r3m1": ("EpisodeDataset._nest_observations derives successors by shifting the observation list", "a data set with at least two episodes (train_ac)"),
    "C01/r3m2": ("train_dynaq allocates reward_history with [[]] * n_states (shared lists)", "stochastic successors with different rewards"),
    "C03/r3m1": ("mrq_loss drops the target_reward_scale conversion", "target_reward_scale != reward_scale, non-terminated window"),
    "C03/r3m2": ("ddqn_per_loss swaps the selecting and the evaluating network", "target network differing from the online one"),
    "C05/r3m1": ("EntropyControl.update caches a split of (optimizer, policy, alpha) and writes all three back", "update, actor update, update again on one EntropyControl"),
    "C05/r3m2": ("EntropyCoefficient.__call__ clamps log_alpha in place", "log_alpha outside [-10, 2]; plain loss evaluation"),
    "C06/r3m1": ("train_ddpg soft-updates once per environment step instead of per gradient step", "gradient_steps > 1"),
    "C06/r3m2": ("target updates read nnx.state(..., nnx.Param) only", "policy head whose action scale / bias differ between online and target"),
    "C09/r3m1": ("train_dqn: `if not seed: seed = time.time_ns() ...`", "seed = 0"),
    "C09/r3m2": ("prioritized_sampling falls back to an unseeded generator; SubtrajectoryReplayBufferPER no longer forwards rng", "train_mrq past learning_starts"),
    "C10/r3m1": ("DeterministicTanhPolicy stores action_scale / action_bias as nnx.Param (they get trained)", "actor updates, then the policy output for huge network outputs"),
    "C10/r3m2": ("train_mrq swaps exploration_noise and target_policy_noise", "exploration_noise != target_policy_noise"),
    "C11/r3m1": ("sample_trajectories stops on len > total_steps (counter incremented after the test)", "episodes ending exactly at steps_per_update samples"),
    "C11/r3m2": ("smt_stage1 zeroes training_steps of a task re-entering the pool", "a task re-entering the training pool"),
    "C12/r3m1": ("reinforce_gradient applies the step discount before subtracting the baseline", "baseline and non-unit gamma_discount together"),
    "C12/r3m2": ("sac_actor_loss indexes q(...)[..., 0] instead of squeeze()", "critic with output shape (N,), batch >= 2"),
    "C13/r3m1": ("GaussianTanhPolicy.sample clips the draw to the action box", "a draw leaving the box"),
    "C13/r3m2": ("train_sarsa carries next_action chosen before the table update", "self-transition whose update changes the row's arg-max, epsilon 0"),
    "C15/r3m1": ("TD7: `if update_checkpoint:` block moved out of the episode-end branch (flag stays true)", "steps after an accepted window"),
    "C15/r3m2": ("window reset no longer resets min_return", "two windows with different returns"),
    "C17/r3m1": ("aggregate variance as mean(exp(lv) + m^2) - mean^2 (cancellation)", "large common offset of the member means, tiny variance"),
    "C17/r3m2": ("__call__ returns early for 3-D input, skipping the soft log-variance bounds", "one batch per member (3-D input)"),
    "C19/r3m1": ("SubtrajectoryReplayBuffer.__setstate__ resets episode_timesteps", "buffer pickled mid-episode, then further additions"),
    "C19/r3m2": ("restore_checkpoint updates and returns the template itself", "two restores through one template"),
    "C07/r3m1": ("compute_gae rewritten as a lambda-return scan", "a non-terminated step whose next value differs from the following stored value (truncation inside a PPO rollout)"),
    "C07/r3m2": ("prepare_policy_gradient_dataset writes returns into an array preallocated from the rewards' dtype", "all rewards integers, gamma < 1"),
    "C08/r3m1": ("PER caches the cumulative priority sum; add_sample does not invalidate it", "exactly full buffer: sample, add, sample without an update in between"),
    "C08/r3m2": ("lap_priority via jnp.where(|td| > p_min, |td|^alpha, p_min)", "min_priority > 1 with alpha < 1"),
    "C14/r3m1": ("train_dynaq allocates transition_counter with shared per-action lists", "one state left by two actions with different successors"),
    "C14/r3m2": ("SARSA update as a moving average in two writes", "self-transition with the same action (s' = s, a' = a)"),
    "C16/r3m1": ("active CMA-ES negative update divided by the variance instead of sigma", "active=True and step-size variance below 1"),
    "C16/r3m2": ("flat_params reads all variables, set_params writes Params only", "network with non-Param variables"),
    "C18/r3m1": ("huber_loss linear branch delta*(|e| - 0.5)", "delta != 1 and |e| > delta"),
    "C18/r3m2": ("masked_mse_loss always reshapes the mask to (n, 1)", "1-D predictions with a mask that is not all ones"),
    "C20/r3m1": ("checkpoint cadence short-circuits for interval 1", "interval 1 with a repeated step or a first record at step 0"),
    "C20/r3m2": ("MemoryLogger.get_stat returns the records sorted by x", "a later record filed under a smaller explicit episode / step"),
    "C02/r3m1": ("ReplayBuffer.add_sample re-allocates whenever insert_idx == 0 (delivered for C02; same idea as C01/r2m2)", "capacity + 1 additions"),
    "C02/r3m2": ("MultiTaskReplayBuffer.select_task assigns before the range check", "a rejected select followed by an add"),
    "C04/r3m1": ("SubtrajectoryReplayBuffer: current_len = max(current_len, insert_idx) after the modulo (freezes one short after the first wrap)", "wrapped ring and a window reaching the last slot"),
    "C04/r3m2": ("uniform subtrajectory buffer caches the start list; overwriting a start slot does not invalidate it", "sample, add first steps of a new episode over old starts, sample again"),
    "C20/m2": ("record_stat: `episode = episode or counter`", "explicit episode=0 / step=0 after the counters moved"),
    "C01/r4m1": ("sample_trajectories clips Box actions before env.step but records the unclipped sample", "bounded continuous action space and a Gaussian sample outside the bounds"),
    "C01/r4m2": ("train_sarsa carries next_action over the loop; no new selection after env.reset", "an episode end inside the call, reset observation different from the final one"),
    "C05/r4m1": ("train_mrq binds update_model_based_encoder with live and target encoder transposed", "MR.Q past learning_starts: the update trains the target encoder"),
    "C05/r4m2": ("TD7 _train_step gates the actor with `epoch % policy_delay == 1`", "policy_delay = 1: the actor is never updated"),
    "C06/r4m1": ("soft_target_net_update written as t + tau*(p - t)", "tau = 1 with target leaves of other magnitude: no longer an exact copy"),
    "C06/r4m2": ("train_mrq: epoch = max(0, global_step + 1 - learning_starts)", "a continued run (global_step >= learning_starts) or learning_starts = 0"),
    "C09/r4m1": ("train_uts derives the backbone seed from hash() of a string", "two interpreter processes with different hash salts"),
    "C09/r4m2": ("train_pets timing code reuses the loop variable t (perf_counter reading)", "logger + episode statistics: 'return' is logged at a clock-derived step"),
    "C10/r4m1": ("sample_target_actions: `if noise_clip:` skips the clip for noise_clip = 0", "noise_clip == 0"),
    "C10/r4m2": ("mpc_action pads the shifted plan with zeros instead of avg_act", "action box excluding 0, second planning call of an episode"),
    "C11/r4m1": ("DDQN / Nature-DQN target sync dedented out of the warm-up gate", "a passed q_target_net differing from q_net, sync step inside the warm-up"),
    "C11/r4m2": ("train_uts passes learning_starts = max(0, exploring_starts - global_step)", "two backbone calls starting before the warm-up is over"),
    "C12/r4m1": ("deterministic_policy_gradient_loss evaluates only q.q1 of a clipped double-Q critic", "double-Q critic with Q2 < Q1 on some sample"),
    "C12/r4m2": ("actor-critic weight written r + gamma*(v' - v)", "gamma != 1"),
    "C13/r4m1": ("train_ddqn_per: warm_up = step <= learning_starts", "learning_starts > 0 inside the epsilon decay, non-exploring roll at that step"),
    "C13/r4m2": ("SoftmaxPolicy.entropy as -sum p log p", "logit spread beyond the float32 exp underflow (NaN)"),
    "C17/r4m1": ("evaluate_plans evaluates the reward once on the particle-mean trajectory", "reward not affine in the observation, > 1 particle"),
    "C17/r4m2": ("train_ensemble rounds the batch count up and refills the last batch from the row's start", "bootstrap size not a multiple of batch_size"),
    "C19/r4m1": ("OrbaxCheckpointer drops the epoch from the directory name and saves with force=True", "one logger over two training calls: a step value at which a checkpoint exists comes back"),
    "C19/r4m2": ("MultiTaskReplayBuffer.__getstate__ drops sampled_task_idx", "prioritized multi-task buffer pickled between sample_batch and update_priority"),
}


def main():
    rows = []
    for f in sorted(glob.glob(f"{V}/seeded/*/*/meta.json")):
        key = "/".join(f.split("/")[-3:-1])
        m = json.load(open(f))
        if key in DESC:
            m["change"], m["needs_to_manifest"] = DESC[key]
            json.dump(m, open(f, "w"), indent=1)
        det = m.get("detection", {})
        cells = []
        for cid, d in det.items():
            kinds = "; ".join(sorted({l.split("replay=")[1].split("-seed")[0].split("/")[-1].replace(cid + "-", "").replace(cid + "_", "") + (" (no-failing-input-found)" if l.endswith("no-failing-input-found") else "")
                                      for l in d.get("lines", []) if l.startswith("VIOLATION")}))
            cells.append(f"{cid}: **{'caught' if d.get('caught') else 'MISSED'}**" + (f" ({kinds})" if kinds else ""))
        rows.append(f"| {key} | {m.get('change', '')} | {m.get('needs_to_manifest', '')} | {'yes' if m.get('confirmed') else 'NO'} | {'<br>'.join(cells) or 'not run'} | {m.get('after_strengthening', '')} |")
    print("| change | what it is | needs | confirmed (demo + 31 tests) | quick check on /repo with the patch applied | note |")
    print("|---|---|---|---|---|---|")
    print("\n".join(rows))


if __name__ == "__main__":
    main()
