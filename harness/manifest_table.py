"""Per-property MANIFEST entries: (design_ref, technique, level text, level note)."""
CHECKS = {
    "C20": (
        "DESIGN.md §2 C20",
        "Coq proof (refinement of the dict-of-lists logger to a chronological log; nia proof that the wrap-or-gap test is a floor crossing) + model/implementation correspondence on generated call sequences",
        "Theorems for all call sequences / all non-decreasing step sequences and intervals >= 1 about a Gallina model of MemoryLogger, StandardLogger, LoggerList and OrbaxCheckpointer.record_epoch; the extracted model is compared with the real classes on every run, and the abstract spec is evaluated on the implementation's traces.",
        "Trusts: Coq kernel, extraction (ExtrOcamlBasic), OCaml glue, Python harness and its generators; Orbax save/restore as executed; wall-clock fields ignored. Closed under the global context (no axioms).",
    ),
}
_PENDING = "check not built yet in this revision (planned: Coq model + correspondence, see DESIGN.md §2)"
NOT_APPLICABLE = {f"C{i:02d}": _PENDING for i in range(1, 21) if f"C{i:02d}" not in CHECKS}
