"""Per-property MANIFEST entries: (design_ref, technique, level text, level note)."""
CHECKS = {
    "C20": (
        "DESIGN.md §2 C20",
        "Coq proof (refinement of the dict-of-lists logger to a chronological log; nia proof that the wrap-or-gap test is a floor crossing) + model/implementation correspondence on generated call sequences",
        "Theorems for all call sequences / all non-decreasing step sequences and intervals >= 1 about a Gallina model of MemoryLogger, StandardLogger, LoggerList and OrbaxCheckpointer.record_epoch; the extracted model is compared with the real classes on every run, and the abstract spec is evaluated on the implementation's traces.",
        "Trusts: Coq kernel, extraction (ExtrOcamlBasic), OCaml glue, Python harness and its generators; Orbax save/restore as executed; wall-clock fields ignored. Closed under the global context (no axioms).",
    ),
}
CHECKS["C02"] = (
    "DESIGN.md §2 C02",
    "Coq proof (ring-buffer invariant over the append-only write history, by induction over all addition histories; multi-task refinement to per-task histories) + model/implementation correspondence on generated op histories",
    "Theorems for every capacity N >= 1 and every history: length = min(n,N), slots in write order = the last min(n,N) additions, every in-range draw returns a stored recent row, never-written slots lie outside the draw range; multi-task: additions only reach the selected task, batches come from one task that has data. The extracted model is run against ReplayBuffer, LAP, PrioritizedReplayBuffer and MultiTaskReplayBuffer on every run.",
    "Trusts: Coq kernel, extraction, OCaml glue, Python harness, the scripted generator's coverage of draw ranges; NumPy indexing and dtype casts as executed. No axioms.",
)
CHECKS["C08"] = (
    "DESIGN.md §2 C08",
    "Coq proof (inverse-CDF sampling law over Q for plain, masked and stratified sampling; bookkeeping invariants by induction over all add/sample/update/reset histories; importance-weight and priority monotonicity over R) + model/implementation correspondence with exact dyadic priorities",
    "Theorems: the index returned for u is the one whose cumulative interval (c_{i-1}, c_i] contains u*T (so P(i) = p_i m_i / T, never a masked, zero or unfilled entry); new transitions get the current maximum; update changes exactly the last sampled batch; max_priority dominates over every history and is exact after reset; IS weights in (0,1], max 1, antitone; LAP/PER priorities positive and monotone. The extracted model is compared with LAP, PrioritizedReplayBuffer, SubtrajectoryReplayBufferPER and the multi-task wrapper on every run.",
    "Trusts: Coq kernel; real-number axioms of the standard library for the weight/priority theorems (ClassicalDedekindReals.sig_forall_dec, sig_not_dec, functional_extensionality_dep, Classical_Prop.classic as reported by Print Assumptions); the Q theorems are axiom-free; extraction, OCaml glue (libm pow in the float instance), Python harness; np.cumsum/searchsorted as executed.",
)
CHECKS["C04"] = (
    "DESIGN.md §2 C04",
    "Coq proof (invariant over the append-only write history: ring contents, episode counter and mask discipline, by induction over all histories for every capacity N > H >= 1) + model/implementation correspondence with every enabled start sampled after every add",
    "Theorem C04_window_valid: for every history, every enabled start and every sampling horizon h <= H the returned window is, up to and including its first terminated step, a run of consecutive real writes W[c..c+k] (no synthetic successor row, none truncated, all live, read from the slots that hold them); no window reads an unwritten slot; the reduced view is the stated projection. The extracted model is compared with SubtrajectoryReplayBuffer(PER) after every add on every run; the spec is evaluated on (episode,t) tags in the returned rows.",
    "Trusts: Coq kernel, extraction, OCaml glue, Python harness and tag encoding; NumPy indexing as executed. Reading: guarantees hold up to the first terminated step (rows after it need only be written slots). No axioms.",
)
CHECKS["C15"] = (
    "DESIGN.md §2 C15",
    "Coq proof (per-call specification with a ghost assessment window, lifted by induction to every history; epoch monotonicity gives switch-at-most-once) + correspondence: exhaustive small histories and random long ones against the real function",
    "Theorems for all sequences of (length >= 1, return), all window sizes, thresholds and reset weights: released + waiting = collected at every prefix; a release is exactly the window's steps and resets all counters; the checkpoint is replaced only on a complete window with every return >= the best minimum; cut short iff the window minimum is below it; the window size switches at most once, exactly at the threshold crossing. The extracted model is compared with assess_performance_and_checkpoint on every run.",
    "Trusts: Coq kernel, extraction, OCaml glue, Python harness. Returns are rationals in the model (dyadic in the cases). train_td7's use of the function (epoch += training_steps) is mirrored by td7_run and observed in the C11 train runs. No axioms.",
)
CHECKS["C14"] = (
    "DESIGN.md §2 C14",
    "Coq proof over R (frame + delta of every tabular update on well-shaped tables, arg-max is a first maximiser, Monte-Carlo running-mean invariant over all episode sequences, Dyna-Q empirical-model invariant over all transition histories) + exact rational correspondence with the jitted updates and recorded training runs",
    "Theorems for all tables, states, actions, rewards, gamma, learning rates and termination flags: exactly entry (s,a) changes, by lr*(r + gamma(1-terminated)V_next - Q(s,a)) with V_next the greedy value (Q-learning), the supplied action's value (SARSA) or the other table's value of the updated table's greedy successor action (double Q); Monte-Carlo entries are the arithmetic means of their observed discounted returns; the Dyna-Q model row equals the empirical successor frequencies. The extracted model (rational instance) must equal the float32 implementation exactly on dyadic inputs.",
    "Trusts: Coq kernel + the standard library's real-number axioms (Print Assumptions: ClassicalDedekindReals.sig_forall_dec, sig_not_dec, functional_extensionality_dep, Classical_Prop.classic); extraction, OCaml glue, harness; JAX indexed updates as executed. Dyna-Q's mean-reward entry is tied by correspondence only.",
)
CHECKS["C18"] = (
    "DESIGN.md §2 C18",
    "Coq proof over R (two-hot coding via a unique-strict-minimum characterisation of the masked arg-min on strictly increasing bins; Huber piecewise form; masked MSE through an explicit NumPy-broadcasting tensor calculus; avg-L1 norm; linear schedule) + float correspondence with the JAX functions",
    "Theorems: two-hot rows for any in-range value (edges included) are non-negative, sum to one, have at most two adjacent non-zero entries and decode to the value; symexp bins are strictly increasing; log-softmax is the log of the softmax; Huber = 0.5e^2 / delta(|e|-0.5delta); masked rows of 2-D and 1-D predictions have zero weight (closed forms); avg-L1 output has mean |.| = 1 (finite near zero); schedule length, monotonicity, start value and constant tail. Polymorphic kernels are extracted and compared with the implementation on every run.",
    "Trusts: Coq kernel + standard-library real-number axioms (Print Assumptions); extraction, OCaml glue (float64 libm), harness; float32-vs-float64 tolerances as stated in the evidence. Hypothesis of the two-hot theorem: bin range below the code's 1e8 offset (true for the default exponents +-10).",
)
CHECKS["C07"] = (
    "DESIGN.md §2 C07",
    "Coq proof over R (recurrences of reward-to-go, GAE and n-step return with residual discount; causality as suffix-independence plus a cut lemma at terminated steps; per-environment structure of the A2C and PPO batch preparations) + correspondence and metamorphic perturbation runs against the JAX functions",
    "Theorems for all sequences, gamma, lambda and termination patterns: the estimators satisfy their defining recurrences; an estimate at time t is unchanged by any change before t or after the first terminated step at or after t; A2C and PPO estimates of one environment depend on that environment's column only (the single flat GAE formerly used by PPO is kept as a refuted statement). Extracted kernels are compared with compute_gae, discounted_n_step_return, discounted_reward_to_go, prepare_a2c_batch and the advantages inside the real update_ppo on every run, together with perturbation re-runs of the implementation.",
    "Trusts: Coq kernel + standard-library real-number axioms; extraction, OCaml glue, harness; jax.lax.scan / vmap as executed; float32 rounding handled by a 2^-18 relative tolerance. The MR.Q critic target and encoder-loss masks named by C07 are covered by the C03 check.",
)
CHECKS["C03"] = (
    "DESIGN.md §2 C03",
    "Coq proof over R on an explicit NumPy-broadcasting tensor calculus (per-sample closed forms of the TD losses for all batch sizes, batch-size-1 behaviour, terminated rows, permutation invariance) and on dual numbers (stop_gradient cuts the tangent: target networks / bootstrap inputs get zero gradient) + correspondence with every loss function on stub and small real networks",
    "Theorems: DDPG, TD3, SAC, DQN/Nature-DQN and double-DQN losses equal the mean squared regression of the online estimate onto y = r + (1-terminated) gamma bootstrap with the documented bootstrap, per sample, for every batch size >= 2 (TD3/SAC/double-Q forms also for N = 1; DDPG rejects N = 1 by its shape assertion); terminated transitions contribute no bootstrap; batch-order invariance; gradients w.r.t. target networks, target policies and bootstrap inputs are exactly zero (dual-number statement for TD3, DDPG, TD3+LAP, DQN, DDQN, SALE). TD3+LAP, TD7, MR.Q, PER-DDQN and the model-based encoder loss are tied by correspondence and by the documented-formula oracle (networks evaluated by the harness on the documented inputs).",
    "Trusts: Coq kernel + standard-library real-number axioms; extraction, OCaml glue, harness; network forward passes are oracles; JAX autodiff is trusted to differentiate the traced program (the dual model checks what is differentiated); float32 tolerance 2e-5. The encoder loss has no Coq model of its own: it is checked against the documented row-masked sums only.",
)
CHECKS["C19"] = (
    "DESIGN.md §2 C19",
    "Coq proof (saved image = every attribute except the rebuilt Batch type is a sufficient statistic: bisimulation up to Batch by "
    "induction over every continuation, for every state of every buffer-class model; parameter-tree round trips and extensionality; "
    "necessity lemmas with concrete witnesses) + crash-point enumeration on the real classes (pickle after every prefix; original, "
    "reloaded object and extracted model driven through the same continuation; modules through pickle helper, Orbax and restore helper)",
    "PARTIAL. Theorems about the model: load (save s) = s for every state satisfying the constructor's Batch invariant, load recomputes "
    "Batch from the stored keys for every state, run (load (save s)) ops = run s ops (outputs, batch types and successor state) for "
    "every state and every continuation of the ReplayBuffer, LAP, PrioritizedReplayBuffer, SubtrajectoryReplayBuffer(PER) and "
    "MultiTaskReplayBuffer interpreters of BufferRun.v, crash-point form (save after any prefix, any continuation), pickle / Orbax / "
    "restore_checkpoint tree round trips are the identity on paths and leaves and equal leaves give equal outputs; dropping insert_idx, "
    "current_len, max_priority, priority, sampled_indices, episode_timesteps, mask_, active_buffers, sampled_task_idx, selected_task or "
    "the Batch rebuild each breaks the theorem (witnesses). The enumeration compares all public state bitwise at every crash point.",
    "Trusts: Coq kernel, extraction, OCaml glue, Python harness. No axioms. RUNTIME RESIDUE (not proved, only enumerated): that "
    "pickle.dumps/loads, nnx.split/merge and Orbax save/restore reproduce every stored attribute / leaf bit for bit, that "
    "__getstate__ keeps exactly the modelled entries, that reloaded arrays do not alias the original, device placement, and the "
    "content of uninitialised np.empty storage (compared by shape and dtype only).",
)
CHECKS["C09"] = (
    "DESIGN.md §2 C09",
    "Model REGENERATED from the source on every run: a Python-ast translator (harness/c09_translate.py) emits the call/effect graph of "
    "every function, method, class and module body of rl_blox as coq/Gen/Graph.v (labels Pure/Seeded/WallClock/Ambient, callees "
    "over-approximated by method name); Coq proofs that the fuel-bounded frontier closure computes exactly the inductive reachability "
    "relation of any finite graph, that the boolean check ambient_free is sound and complete, and non-interference of a small effect "
    "semantics with the ambient world; the per-run obligation ambient_free graph roots = true is decided by vm_compute; the translator's "
    "table is validated by twin runs of all 24 training routines in fresh processes under different ambient conditions",
    "PARTIAL. Proved (all seeds, all configurations): from no entry point (every train_*, every replay-buffer method, blox/multitask.py, "
    "blox/mapb.py, blox/schedules.py) is a syntactically visible ambient source reachable - module-level numpy.random.*, unseeded "
    "default_rng/Generator/RandomState/SeedSequence, stdlib random, time.* outside rl_blox/logging, datetime.now, os.urandom/getpid/"
    "listdir/environ, uuid, secrets, id, hash, jax.random.key() without argument, iteration over a set of evidently non-numeric elements; "
    "and for every code table respecting the graph two evaluations under different ambient worlds return equal results. Observed only "
    "(twin runs, bitwise digests of parameters, buffers, counters, MemoryLogger records minus time; third run with another seed differs): "
    "determinism of XLA/Gymnasium/MuJoCo and of dict/set iteration over keys whose type is invisible to the translator.",
    "Label: partial (DESIGN.md). Trusted base beyond the Coq kernel: the translator harness/c09_translate.py, its ambient table and its "
    "allowed-library list (jax, numpy minus numpy.random, flax, optax, chex, gymnasium, tensorflow_probability, orbax, scipy, tqdm, pickle, "
    "copy, collections, functools, dataclasses, math, warnings, contextlib, typing, builtins, abc, atexit, pprint, matplotlib, aim, os.path, "
    "os.makedirs) - unverified, fail-closed (unclassifiable constructs abort), validated by the twin runs; calls on parameters/locals are "
    "Given (premise); vm_compute decides the per-run boolean (kernel-checked). No axioms.",
)
CHECKS["C13"] = (
    "DESIGN.md §2 C13",
    "Coq proof over R (softmax / categorical identities, clipped-std range, closed-form Gaussian log-density and entropy, affine sampling, arg-max is a first maximiser, epsilon-greedy corner cases and the DQN-family action rule) + correspondence of the heads with closed-form references and the extracted model, greedy checks on tables and in training runs",
    "Theorems: softmax probabilities are positive and sum to one, the categorical log-probability is the log of the selected entry and the entropy is -sum p ln p of the same probabilities; the Gaussian heads' std lies in [e^-20, e^2] for any raw log-variance, their log-probability is the sum over dimensions of ln N(a; mean, std), the per-dimension entropy is 0.5 ln(2 pi e std^2), a sample is mean + std*eps; greedy returns a first maximiser, epsilon 0 is greedy, epsilon 1 ignores the values, the DQN-family rule explores during warm-up / epsilon 1 and is greedy otherwise. All heads are run unbatched and with batch sizes 1-5 and action dimensions 1-3 on every run.",
    "Trusts: Coq kernel + standard-library real-number axioms; extraction, OCaml glue (libm), harness; TFP distributions and jax.random as executed; float32 tolerance 1e-4; log-probabilities compared only where (a-mean)/std is well conditioned in float32. The exploration probability of the training loops is sanity-checked, not proved.",
)
CHECKS["C16"] = (
    "DESIGN.md §2 C16",
    "Coq proof over R (recombination weights via monotonicity of ln; admissible learning rates of CMAESConfig.create; incumbent invariant over all evaluation sequences with an extended fitness type NaN/-inf/+inf/finite; stable-sort ranking = sorted permutation; mean = convex combination of the mu best; step-size factor <= e^0.6; covariance symmetric (both variants) and diagonal positive (default variant; active variant partial, under a bound on the negative rank-mu term); flat/unflatten round trips for every list of leaf shapes; CEM bounds, top-k elites, convex mean) + model/implementation correspondence on ask/tell histories, parameter round trips and CEM primitives",
    "Theorems for all dimensions n >= 1 and population sizes >= 2, all fitness sequences including ties, +-inf and NaN, active and default updates, all lists of leaf shapes, all boxes / variances / population and elite sizes. The extracted model (float64 instance) is compared with CMAESConfig / CMAESState / set_evaluation_feedback / update_search_distribution, set_params / flat_params on 14 architectures (bitwise) and cem_sample / cem_update on every run; the property's own spec is evaluated on the implementation's outputs independently of the model.",
    "Trusts: Coq kernel + the standard library's real-number axioms (Print Assumptions: ClassicalDedekindReals.sig_forall_dec, sig_not_dec, functional_extensionality_dep, Classical_Prop.classic; the two flat-parameter theorems are axiom-free); extraction, OCaml glue (libm exp/log/sqrt/pow in the float instance), Python harness. Oracles, not modelled: jnp.linalg.eigh (inv_sqrt), jax.random.multivariate_normal, jax.random.truncated_normal, nnx.state leaf order. PARTIAL: positivity of the variances under the ACTIVE covariance update is proved only under a bound on the negative rank-mu term that the code does not establish (C16_cov_diag_positive_active_partial; C16_active_entry_can_be_negative shows the bound is needed); on the implementation it is checked dynamically only. Float32 effects (symmetry up to rounding, ranking of float32(fitness)) are outside the real-number theorems.",
)
CHECKS["C17"] = (
    "DESIGN.md §2 C17",
    "Coq proof over R (soft log-variance bounds by monotonicity of ln/exp; rank behaviour of the vmapped bounding on a rank-generic tensor model; member slice for batches, refutation witnesses and partial theorems for single vectors; law of total variance; Gaussian NLL closed form; pendulum reward via acos/cos and the floored modulus) and over nat lists (bootstrap rows, joint shuffle, reshape/transpose batching, by induction for all sizes) + correspondence with the real GaussianMLPEnsemble, train_ensemble, evaluate_plans, pendulum_reward and gymnasium's PendulumEnv",
    "Theorems for every member network, ensemble size >= 1, batch size and output dimension: bounded log-variances lie strictly above the learned lower bound and below the upper bound plus the softplus slack ln(1+e^-(max-min)), per output dimension; __call__ is the joint pass and the per-member pass feeds member i only its own inputs; on BATCHES member i's distribution (mean, stddev, stddev^2 = variance) and base_predict's mean equal slice i; aggregate = (mean of means, mean variance + population variance of means) and equals the mixture's second moment minus squared mean; gaussian_nll = mean negative log-density - ln(2 pi)/2; every member's batches read its own bootstrap row at positions used at most once per epoch, fewer than batch_size positions dropped (all data-set and batch sizes); plan value = particle mean of horizon sums = horizon sum of particle means; the bundled Pendulum reward equals Gymnasium's for every real state and action. REFUTED with kernel-checked witnesses (model mirrors the code): base_predict raises on every single vector and returns (B,n,n) variances on batches; base_distribution on a single vector uses the log-variance of dimension 0 for all dimensions in the row PETS samples; partial theorems state what holds (diagonal, one output dimension). The harness reports these as concrete VIOLATIONs on the real classes.",
    "Trusts: Coq kernel + the standard library's real-number axioms (Print Assumptions: ClassicalDedekindReals.sig_forall_dec, sig_not_dec, functional_extensionality_dep, Classical_Prop.classic); the nat-list theorems are closed under the global context; extraction, OCaml glue (libm exp/log/tanh/acos/floor in the float instance), harness; nnx.vmap/split/merge, TFP MultivariateNormalDiag, jax.random.choice/permutation (their outputs are inputs of the index model), optax and the scan in train_epoch as executed. Member networks are arbitrary in the theorems; GaussianMLP itself is tied by correspondence only. The ts_inf spread check is statistical.",
)
CHECKS["C12"] = (
    "DESIGN.md §2 C12",
    "Coq proof over R and over dual numbers R x R (forward-mode derivatives of the same polymorphic kernels): value and gradient of the pseudo-loss, PPO surrogate at ratio one and in the clipped regions, value term for both critic shapes, DPG / SAC actor values, sign of the temperature gradient + correspondence of values and jax gradients on stub modules",
    "Theorems: the pseudo-loss is -mean(w_i log pi_i), rejects (N,1) against (N,) shapes, and its derivative is -mean(w_i dlog pi_i) (weights are constants); the PPO policy term at unchanged parameters has the value and derivative of the unclipped surrogate, a sample clipped on the side its advantage favours has zero derivative, the value term is the per-sample squared error for (N,) and (N,1) critic outputs; DPG loss = -mean Q; SAC actor loss = mean(alpha log pi - min Q); the temperature loss has derivative -alpha (mean log pi + target), negative exactly when the entropy estimate is below the target. Values and jax gradients of the real functions are compared with the documented formulas and with the dual-number evaluation of the extracted model on every run.",
    "Trusts: Coq kernel + standard-library real-number axioms; extraction, OCaml glue, harness; policy / critic forward passes are oracles; JAX autodiff is trusted to differentiate the traced program; max/min kinks are avoided by the generators; float32 tolerance 1e-4.",
)
CHECKS["C01"] = (
    "DESIGN.md §2 C01",
    "Coq proof (invariant of the training-loop skeleton over an append-only environment call log, for every episode script, budget, start count, episode limit, limit position and update gate) + correspondence: every routine run on scripted recording environments with every add_sample call recorded",
    "Theorem: in the loop skeleton shared by the off-policy routines the kept transitions are exactly the environment's step events (observation returned last before the action, action, reward, successor, termination flag), in order and across episode boundaries, and the policy is conditioned on that observation; the 'reset then unconditionally next_obs' variant is refuted with a witness. On every run train_dqn / nature_dqn / ddqn / ddqn_per / ddpg / td3 / td3_lap / sac / td7 / mrq / pets, sample_trajectories and the A2C / PPO collectors are executed on scripted environments; each kept transition is compared with the environment's own call log and with the extracted skeleton.",
    "Trusts: Coq kernel (no axioms), extraction, OCaml glue, harness and the scripted environment. The skeleton abstracts networks, updates and action choice as oracles; one configuration per routine (gate, limit position) is hand-written in harness/loopchecks.py. Tabular routines are covered through the recorded update arguments in the C14 check.",
)
CHECKS["C11"] = (
    "DESIGN.md §2 C11",
    "Coq proof (invariant of the training-loop skeleton: step counter = start + executed steps <= budget, the scripted environment's error state is unreachable, updates only inside the gate, stop exactly at the episode limit; for every script, budget, start, limit, limit position and gate) + correspondence with every routine on environments that raise on a step after episode end; schedulers and selectors against independent reference rules",
    "Theorems about the loop skeleton: never more steps than the remaining budget and the returned counter equals start + executed; a finished episode is never stepped without reset; parameter updates happen only in iterations admitted by the gate (hence not before the warm-up threshold); the loop stops exactly when the requested number of episodes has finished. On every run all eleven off-policy routines are executed on scripted environments and compared with the extracted skeleton (returned counter, update iterations, reset count); generate_rollout, the round-robin and discounted-UCB selectors and train_uts / train_active_mt (with a contract-obeying stub routine) are checked against the property directly.",
    "Trusts: Coq kernel (no axioms), extraction, OCaml glue, harness, the scripted environment. Updates are observed as parameter changes between consecutive env.step calls. The multi-task schedulers and the bandit have no Coq model: they are decided by the reference rules in harness/c11.py (float64 decision rule, arg-max margin > 1e-6); train_smt is exercised only by the repository's own test.",
)
CHECKS["C06"] = (
    "DESIGN.md §2 C06",
    "Coq proof (Polyak update over parameter trees of any shape: leaf-wise law, shape preservation, tau=1 hard copy, tau=0 no-op; a target trace changes only at iterations its cadence predicate admits) + correspondence of soft/hard_target_net_update on every layer type and of target parameters snapshotted at every env.step of every target-maintaining routine",
    "Theorems over all trees, all tau and all cadence predicates / online traces. On every run the real update functions are executed on MLP, LayerNorm-MLP, double-Q, SALE and model-based-encoder trees and compared leaf by leaf with the law and with the extracted model (online network bitwise unchanged); clone targets of nature_dqn/ddpg/td3/sac are checked for shared variables; for nature_dqn, ddqn, per, ddpg, td3, td3_lap, sac, td7 (incl. fixed embeddings, and checkpoint copies in deferred-training mode) and mrq every iteration outside the documented update points leaves each target bitwise unchanged and every update point is the documented hard copy / Polyak step of its source.",
    "Trusts: Coq kernel + the real-number axioms of the standard library (Print Assumptions list in the evidence), extraction, OCaml glue, harness, scripted environment. The cadence predicates (due_* in coq/Model/Target.v) are hand-written per routine from the documentation and compared with the harness's own predicates; nnx.update / optax.incremental_update are exercised, not modelled. float32 tolerance 1e-6 / 1e-5.",
)
CHECKS["C10"] = (
    "DESIGN.md §2 C10",
    "Coq proof over the reals (clip lands in [low, high] for every input when low <= high; exploration = clip(pi + noise*half range*z); smoothing noise bounded by noise_clip*half range; tanh-scaled output inside the bounds for every network output; CEM candidate inside [lb, ub] for every mean in the box, variance and |z| <= 2) + correspondence of the real samplers on recomputed key variates and of every action received by the recording environment",
    "Theorems for all real inputs and bounds. On every run make_sample_actions / make_sample_target_actions are executed with asymmetric, tiny, large, per-dimension different bounds and compared with the extracted model on the key's recomputed N(0,1) variates (bounds exact, pre-clip form, noise clip); DeterministicTanhPolicy on outputs up to 1e30 and +-inf; cem_sample with means inside / near / on the bounds; and ddpg, td3, td3_lap, td7, mrq, pets training runs with random bounds, checking every env.step action and every smoothed target action computed during training.",
    "Trusts: Coq kernel + standard-library real-number axioms, extraction, OCaml glue, harness. Theorems are about real arithmetic; float32 rounding is handled by the correspondence: the clipped samplers must respect the bounds exactly, tanh / CEM / PETS outputs within 4 float32 ulp of the bound (the property's 'up to floating-point rounding of the bound itself'). The distribution of jax.random.normal is not checked (variates are recomputed from the key).",
)
_PENDING = "check not built yet in this revision (planned: Coq model + correspondence, see DESIGN.md §2)"
NOT_APPLICABLE = {f"C{i:02d}": _PENDING for i in range(1, 21) if f"C{i:02d}" not in CHECKS}
