"""C07 — return and advantage estimates obey their recurrences and are causal."""
import fractions

import numpy as np

from common import flit, frac, llit, nlit, parse_q, qlit
from stubs import ScriptEnv

F = fractions.Fraction
DY = [F(0), F(1, 2), F(1)]


def ql(xs):
    return llit(xs, qlit)


def f32_exact(x):
    """Is the rational x exactly representable in float32?"""
    return F(float(np.float32(float(x)))) == x and F(float(x)) == x


def same(impl, exact):
    """impl (Fraction of a float32 result) vs exact rational value: within a few float32
    ulps of the largest magnitude involved (recurrences over 20+ steps exceed 24 mantissa
    bits, so bit-equality is not demanded; a wrong formula moves results by O(0.1))."""
    if len(impl) != len(exact):
        return False
    scale = max([1] + [abs(b) for b in exact])
    return all(abs(a - b) <= F(1, 2**18) * scale for a, b in zip(impl, exact))


def dy(rng):
    return F(int(rng.integers(-8, 9)), 4)


def term_pattern(rng, T):
    kind = int(rng.integers(0, 5))
    d = [0] * T
    if kind == 0:
        pass
    elif kind == 1:
        d[0] = 1
    elif kind == 2:
        d[-1] = 1
    elif kind == 3:
        for i in rng.choice(T, size=min(T, 3), replace=False):
            d[int(i)] = 1
    else:
        d = [int(rng.random() < 0.3) for _ in range(T)]
    return d


def gae_cases(chk, rng, n):
    import jax.numpy as jnp
    from rl_blox.blox.gae import compute_gae
    exprs, recs = [], []
    for _ in range(n):
        T = int(rng.integers(1, 25))
        r, v, nv = [dy(rng) for _ in range(T)], [dy(rng) for _ in range(T)], [dy(rng) for _ in range(T)]
        d = term_pattern(rng, T)
        g, lam = DY[int(rng.integers(0, 3))], DY[int(rng.integers(0, 3))]
        arr = lambda x: jnp.asarray([float(a) for a in x], dtype=jnp.float32)
        adv, ret = compute_gae(arr(r), arr(v), arr(nv), arr(d), float(g), float(lam))
        adv, ret = [frac(x) for x in np.asarray(adv)], [frac(x) for x in np.asarray(ret)]
        # metamorphic: perturb steps before t0 and after the first termination >= t0
        t0 = int(rng.integers(0, T))
        first = next((i for i in range(t0, T) if d[i]), None)
        r2, v2, nv2, d2 = list(r), list(v), list(nv), list(d)
        for i in range(T):
            if i < t0 or (first is not None and i > first):
                r2[i], v2[i], nv2[i] = r[i] + 3, v[i] - 2, nv[i] + 5
                d2[i] = 1 - d[i] if i < t0 else d[i]
        adv2, _ = compute_gae(arr(r2), arr(v2), arr(nv2), arr(d2), float(g), float(lam))
        adv2 = [frac(x) for x in np.asarray(adv2)]
        hi = first + 1 if first is not None else T
        exprs.append(f'(let (a, r) = M.compute_gae q_ops {ql(r)} {ql(v)} {ql(nv)} {ql([F(x) for x in d])} {qlit(g)} {qlit(lam)} in "[" ^ sl sq a ^ "," ^ sl sq r ^ "]")')
        recs.append((r, v, nv, d, g, lam, adv, ret, t0, hi, adv2, first))
    res = chk.model_eval(exprs)
    for (r, v, nv, d, g, lam, adv, ret, t0, hi, adv2, first), (ma, mr) in zip(recs, res):
        T = len(r)
        chk.case(("gae", T, tuple(d), g, lam, tuple(r)), nontrivial=T > 1)
        chk.count("gae_cases")
        chk.count("gae_with_termination", int(any(d)))
        case = {"rewards": [str(x) for x in r], "values": [str(x) for x in v], "next_values": [str(x) for x in nv],
                "terminated": d, "gamma": str(g), "lambda": str(lam)}
        if not same(adv, [parse_q(x) for x in ma]) or not same(ret, [parse_q(x) for x in mr]):
            chk.disagree("compute_gae", {"case": case, "impl": [str(x) for x in adv], "model": ma})
        ref, nxt = [F(0)] * T, F(0)
        for t in reversed(range(T)):
            delta = r[t] + g * nv[t] * (1 - d[t]) - v[t]
            nxt = delta + g * lam * (1 - d[t]) * nxt
            ref[t] = nxt
        if not same(adv, ref) or not same(ret, [a + b for a, b in zip(ref, v)]):
            chk.fail("C07:compute_gae:recurrence", "advantages / returns differ from the GAE recurrence",
                     {"case": case, "impl": [str(x) for x in adv], "expected": [str(x) for x in ref]})
        if first is not None and adv[t0:hi] != adv2[t0:hi]:
            chk.fail("C07:compute_gae:causality", "estimate changed after perturbing pre-t steps / steps after the first termination",
                     {"case": case, "t": t0, "window_end": hi})
        elif first is None and adv[t0:] != adv2[t0:]:
            chk.fail("C07:compute_gae:causality", "estimate changed after perturbing earlier steps", {"case": case, "t": t0})


def nstep_cases(chk, rng, n):
    import jax.numpy as jnp
    from rl_blox.blox.return_estimates import discounted_n_step_return
    exprs, recs = [], []
    for _ in range(n):
        B, H = int(rng.integers(1, 5)), int(rng.integers(1, 7))
        R = [[dy(rng) for _ in range(H)] for _ in range(B)]
        D = [term_pattern(rng, H) for _ in range(B)]
        g = DY[int(rng.integers(0, 3))]
        ret, disc = discounted_n_step_return(jnp.asarray(np.array(R, dtype=np.float32)), jnp.asarray(np.array(D, dtype=np.float32)), float(g))
        ret, disc = [frac(x) for x in np.asarray(ret)], [frac(x) for x in np.asarray(disc)]
        # metamorphic: change everything after the first termination of each row
        R2 = [list(row) for row in R]
        D2 = [list(row) for row in D]
        for b in range(B):
            first = next((i for i in range(H) if D[b][i]), None)
            if first is not None:
                for i in range(first + 1, H):
                    R2[b][i] += 9
                    D2[b][i] = 1 - D2[b][i]
        ret2, disc2 = discounted_n_step_return(jnp.asarray(np.array(R2, dtype=np.float32)), jnp.asarray(np.array(D2, dtype=np.float32)), float(g))
        exprs.append('(sl (fun (a, b) -> "[" ^ sq a ^ "," ^ sq b ^ "]") (List.map2 (fun r d -> M.n_step_return q_ops r d ' + qlit(g) + ') '
                     + llit(R, ql) + ' ' + llit(D, lambda row: ql([F(x) for x in row])) + '))')
        recs.append((R, D, g, ret, disc, [frac(x) for x in np.asarray(ret2)], [frac(x) for x in np.asarray(disc2)]))
    res = chk.model_eval(exprs)
    for (R, D, g, ret, disc, ret2, disc2), mr in zip(recs, res):
        chk.case(("nstep", str(R), str(D), g), nontrivial=True)
        chk.count("nstep_cases")
        case = {"rewards": [[str(x) for x in r] for r in R], "terminated": D, "gamma": str(g)}
        if not same(ret, [parse_q(a) for a, b in mr]) or not same(disc, [parse_q(b) for a, b in mr]):
            chk.disagree("discounted_n_step_return", {"case": case, "impl": [[str(a), str(b)] for a, b in zip(ret, disc)], "model": mr})
        for b, (row, drow) in enumerate(zip(R, D)):
            G, dd = F(0), F(1)
            for r, d in zip(row, drow):
                G += dd * r
                dd *= g * (1 - d)
            if not same([ret[b], disc[b]], [G, dd]):
                chk.fail("C07:n_step_return:recurrence", "n-step return / residual discount differ from the recurrence",
                         {"case": case, "row": b, "impl": [str(ret[b]), str(disc[b])], "expected": [str(G), str(dd)]})
        if ret != ret2 or disc != disc2:
            chk.fail("C07:n_step_return:causality", "n-step return changed after perturbing data behind the first terminated step", {"case": case})


def rtg_cases(chk, rng, n):
    from rl_blox.algorithm.reinforce import discounted_reward_to_go
    exprs, recs = [], []
    for _ in range(n):
        T = int(rng.integers(1, 25))
        r = [dy(rng) for _ in range(T)]
        g = DY[int(rng.integers(0, 3))]
        out = [frac(x) for x in discounted_reward_to_go([float(x) for x in r], float(g))]
        exprs.append(f"(sl sq (M.reward_to_go q_ops {ql(r)} {qlit(g)}))")
        recs.append((r, g, out))
    res = chk.model_eval(exprs)
    for (r, g, out), mr in zip(recs, res):
        chk.case(("rtg", tuple(r), g), nontrivial=len(r) > 1)
        chk.count("rtg_cases")
        case = {"rewards": [str(x) for x in r], "gamma": str(g)}
        if not same(out, [parse_q(x) for x in mr]):
            chk.disagree("discounted_reward_to_go", {"case": case, "impl": [str(x) for x in out], "model": mr})
        ref, acc = [], F(0)
        for x in reversed(r):
            acc = x + g * acc
            ref.append(acc)
        ref.reverse()
        if not same(out, ref):
            chk.fail("C07:reward_to_go:recurrence", "reward-to-go differs from its recurrence", {"case": case, "impl": [str(x) for x in out]})


def dataset_cases(chk, rng, n):
    """the returns EpisodeDataset.prepare_policy_gradient_dataset hands to REINFORCE / actor-critic: reward-to-go per episode, for
    float and for integer-typed rewards, several episodes in one data set"""
    import gymnasium as gym
    from rl_blox.algorithm.reinforce import EpisodeDataset
    space = gym.spaces.Discrete(2)
    for k in range(n):
        g = float([0.5, 0.9, 1.0, 0.0][k % 4])
        integer_rewards = k % 2 == 0
        ds, ref = EpisodeDataset(), []
        for _ in range(int(rng.integers(1, 4))):
            ds.start_episode()
            T = int(rng.integers(1, 7))
            rs = [int(x) if integer_rewards else float(x) / 4 for x in rng.integers(-6, 7, size=T)]
            for t, r in enumerate(rs):
                ds.add_sample(np.zeros(3, dtype=np.float32) + t, 1 if t % 2 else 0, np.zeros(3, dtype=np.float32) + t + 1, r)
            acc, out = 0.0, []
            for r in reversed(rs):
                acc = float(r) + g * acc
                out.append(acc)
            ref += out[::-1]
        case = {"gamma": g, "integer_rewards": integer_rewards, "reference_returns": ref}
        ok, prep = chk.impl_call("C07:prepare_policy_gradient_dataset:raised", case, ds.prepare_policy_gradient_dataset, space, g)
        chk.case(("dataset", k, g, integer_rewards, len(ref)))
        chk.count("dataset_cases")
        if ok:
            ret = np.asarray(prep[3], dtype=float).reshape(-1)
            if ret.shape[0] != len(ref) or not np.allclose(ret, ref, rtol=1e-5, atol=1e-5):
                chk.fail("C07:prepare_policy_gradient_dataset:returns", "the returns prepared for the policy-gradient learners are not the per-episode reward-to-go",
                         {"case": case, "impl": ret.tolist()})


def a2c_cases(chk, rng, n):
    import gymnasium as gym
    import jax.numpy as jnp
    from flax import nnx
    from rl_blox.algorithm.a2c import prepare_a2c_batch
    from rl_blox.blox.function_approximator.mlp import MLP
    from rl_blox.blox.replay_buffer import ReplayBuffer
    vf = MLP(1, 1, [], "relu", nnx.Rngs(0))
    vf.output_layer.kernel.value = jnp.asarray([[0.5]])
    vf.output_layer.bias.value = jnp.asarray([0.25])
    V = lambda o: F(1, 2) * o + F(1, 4)
    exprs, recs = [], []
    for _ in range(n):
        T, N = int(rng.integers(1, 7)), int(rng.integers(1, 5))
        g, lam = DY[int(rng.integers(0, 3))], DY[int(rng.integers(0, 3))]
        O = [[dy(rng) for _ in range(N)] for _ in range(T)]
        Rw = [[dy(rng) for _ in range(N)] for _ in range(T)]
        D = [[int(rng.random() < 0.3) for _ in range(N)] for _ in range(T)]
        last = [dy(rng) for _ in range(N)]

        def run(O_, Rw_, D_, last_):
            rb = ReplayBuffer(buffer_size=T, keys=["obs", "actions", "rewards", "terminations", "truncations"], dtypes=[float, float, float, int, int])
            for t in range(T):
                rb.add_sample(obs=np.array([[float(x)] for x in O_[t]]), actions=np.zeros((N, 1)), rewards=np.array([float(x) for x in Rw_[t]]),
                              terminations=np.array(D_[t]), truncations=np.zeros(N, dtype=int))
            _, _, adv, ret = prepare_a2c_batch(rb, vf, jnp.asarray(np.array([[float(x)] for x in last_], dtype=np.float32)),
                                               gym.spaces.Box(-1, 1, (1,)), float(g), float(lam))
            return [frac(x) for x in np.asarray(adv)], [frac(x) for x in np.asarray(ret)]
        adv, ret = run(O, Rw, D, last)
        # perturb every environment except j0
        j0 = int(rng.integers(0, N))
        O2 = [[x if j == j0 else x + 2 for j, x in enumerate(row)] for row in O]
        R2 = [[x if j == j0 else x - 3 for j, x in enumerate(row)] for row in Rw]
        D2 = [[x if j == j0 else 1 - x for j, x in enumerate(row)] for row in D]
        last2 = [x if j == j0 else x + 1 for j, x in enumerate(last)]
        adv2, ret2 = run(O2, R2, D2, last2)
        Vm = [[V(x) for x in row] for row in O]
        boot = [V(x) for x in last]
        mat = lambda M: llit(M, ql)
        exprs.append(f'(let (a, r) = M.a2c_batch q_ops {nlit(N)} {mat(Rw)} {mat(Vm)} {mat([[F(x) for x in row] for row in D])} {ql(boot)} {qlit(g)} {qlit(lam)} in '
                     f'"[" ^ sl sq (List.concat a) ^ "," ^ sl sq (List.concat r) ^ "]")')
        recs.append((T, N, g, lam, O, Rw, D, last, adv, ret, j0, adv2, ret2))
    res = chk.model_eval(exprs)
    for (T, N, g, lam, O, Rw, D, last, adv, ret, j0, adv2, ret2), (ma, mr) in zip(recs, res):
        chk.case(("a2c", T, N, str(Rw), str(D)), nontrivial=T * N > 1)
        chk.count("a2c_cases")
        case = {"T": T, "N": N, "gamma": str(g), "lambda": str(lam), "obs": [[str(x) for x in r] for r in O],
                "rewards": [[str(x) for x in r] for r in Rw], "terminations": D, "last_obs": [str(x) for x in last]}
        if not same(adv, [parse_q(x) for x in ma]) or not same(ret, [parse_q(x) for x in mr]):
            chk.disagree("prepare_a2c_batch", {"case": case, "impl": [str(x) for x in adv], "model": ma})
        # spec: per-environment GAE with next values = values[1:] + bootstrap
        for j in range(N):
            vals = [F(1, 2) * O[t][j] + F(1, 4) for t in range(T)]
            nvs = vals[1:] + [F(1, 2) * last[j] + F(1, 4)]
            nxt = F(0)
            for t in reversed(range(T)):
                delta = Rw[t][j] + g * nvs[t] * (1 - D[t][j]) - vals[t]
                nxt = delta + g * lam * (1 - D[t][j]) * nxt
                if not same([adv[t * N + j]], [nxt]):
                    chk.fail("C07:prepare_a2c_batch:recurrence", "A2C advantages differ from the per-environment GAE recurrence",
                             {"case": case, "env": j, "t": t, "impl": str(adv[t * N + j]), "expected": str(nxt)})
                    break
        if [adv[t * N + j0] for t in range(T)] != [adv2[t * N + j0] for t in range(T)] or \
                [ret[t * N + j0] for t in range(T)] != [ret2[t * N + j0] for t in range(T)]:
            chk.fail("C07:prepare_a2c_batch:env-independence", "an environment's estimates changed when only other environments' data changed",
                     {"case": case, "env": j0})


def ppo_cases(chk, rng, n):
    """PPO's batched preparation, observed through the real update_ppo (jit disabled) by
    recording the advantages / returns it hands to ppo_loss."""
    import gymnasium as gym
    import jax
    import jax.numpy as jnp
    import optax
    from flax import nnx
    from rl_blox.algorithm import ppo
    from rl_blox.blox.function_approximator.mlp import MLP
    from rl_blox.blox.function_approximator.policy_head import SoftmaxPolicy
    exprs, recs = [], []
    for ci in range(n):
        N, B = int(rng.integers(2, 4)), int(rng.integers(2, 6))
        scripts = [[(int(rng.integers(1, 6)), str(rng.choice(["term", "trunc"]))) for _ in range(3)] for _ in range(N)]
        g, lam = 0.99, 0.95

        def run(reward_shift_env=None):
            envs = gym.vector.SyncVectorEnv([(lambda s=scripts[j], j=j: ScriptEnv(s, env_id=j, discrete=2, reward_scale=0.25)) for j in range(N)],
                                            autoreset_mode=gym.vector.AutoresetMode.SAME_STEP)
            actor = SoftmaxPolicy(MLP(3, 2, [], "relu", nnx.Rngs(0)))
            critic = MLP(3, 1, [], "relu", nnx.Rngs(1))
            critic.output_layer.kernel.value = jnp.asarray([[0.5], [0.25], [1.0]])
            critic.output_layer.bias.value = jnp.asarray([0.0])
            oa = nnx.Optimizer(actor, optax.sgd(0.0), wrt=nnx.Param)
            oc = nnx.Optimizer(critic, optax.sgd(0.0), wrt=nnx.Param)
            last_obs, _ = envs.reset(seed=0)
            traj = ppo.collect_trajectories(envs, actor, critic, jax.random.key(ci), B, None, last_obs, 0)
            reward = np.asarray(traj.reward, dtype=np.float32).copy()
            if reward_shift_env is not None:
                reward = reward.reshape(N, B)
                reward[reward_shift_env] += 4.0
                reward = reward.reshape(-1)
            calls = []
            orig = ppo.ppo_loss

            def rec(actor_, critic_, old_logps, observations, actions, advantages, returns, *a, **k):
                calls.append((np.asarray(advantages, dtype=float), np.asarray(returns, dtype=float)))
                return orig(actor_, critic_, old_logps, observations, actions, advantages, returns, *a, **k)
            ppo.ppo_loss = rec
            try:
                with jax.disable_jit():
                    ppo.update_ppo(actor, critic, oa, oc, traj.observation, traj.action, jnp.asarray(reward), traj.terminated,
                                   traj.next_value, epochs=1, n_envs=N)
            finally:
                ppo.ppo_loss = orig
            values = np.asarray(critic(traj.observation), dtype=float).reshape(-1)
            calls = [((np.asarray(reward, dtype=float), values, np.asarray(traj.next_value, dtype=float),
                       np.asarray(traj.terminated, dtype=float)), c) for c in calls]
            logs = [e.log for e in envs.envs]
            return traj, calls, logs
        traj, calls, logs = run()
        case = {"n_envs": N, "steps": B, "scripts": scripts}
        chk.case(("ppo", N, B, str(scripts)), nontrivial=True)
        chk.count("ppo_rollouts")
        if len(calls) != 1:
            chk.disagree("update_ppo.ppo_loss-calls", {"case": case, "calls": len(calls)})
            continue
        (r, v, nv, d), (adv, ret) = calls[0]
        # correspondence with the model of the flat GAE (tolerance regime: gamma, lambda defaults)
        cols = [[(r[j * B + t], v[j * B + t], nv[j * B + t], d[j * B + t]) for t in range(B)] for j in range(N)]
        exprs.append("(sl sf (M.ppo_gae float_ops " + llit(cols, lambda c: llit(c, lambda s: f"((({flit(s[0])}, {flit(s[1])}), {flit(s[2])}), {flit(s[3])})")) + f" {g!r} {lam!r}))")
        # spec 1: environment independence of the advantages (metamorphic on the real update_ppo)
        other = N - 1
        traj2, calls2, _ = run(reward_shift_env=other)
        adv2 = calls2[0][1][0]
        leak = None
        for j in range(N - 1):
            if not np.array_equal(adv[j * B:(j + 1) * B], adv2[j * B:(j + 1) * B]):
                leak = j
        recs.append((case, adv, leak, d, B, N))
        if leak is not None:
            chk.fail("C07:ppo.update_ppo:gae-cross-env",
                     "PPO advantages of one environment change when only another environment's rewards change",
                     {"case": case, "env_changed": other, "env_affected": leak,
                      "adv_before": adv[leak * B:(leak + 1) * B].tolist(), "adv_after": adv2[leak * B:(leak + 1) * B].tolist()})
        # spec 2: the bootstrap value of every step is the critic at that step's true successor observation
        W = np.array([0.5, 0.25, 1.0])
        for j in range(N):
            steps = [e for e in logs[j] if e[0] == "step"][:B]
            for t, e in enumerate(steps):
                succ = e[4]
                expect = float(W @ succ)
                got = float(nv[j * B + t])
                if abs(got - expect) > 1e-5 and not e[5]:   # terminated steps are masked by (1 - terminated)
                    chk.fail("C07:ppo.collect_trajectories:bootstrap-observation",
                             "the bootstrap value of a non-terminated step is not the critic's value of that step's successor observation "
                             "(after a truncated episode the reset observation of the next episode is used)",
                             {"case": case, "env": j, "t": t, "successor": succ.tolist(), "truncated": bool(e[6]), "next_value": got, "expected": expect})
                    break
    res = chk.model_eval(exprs)
    from common import parse_f
    for (case, adv, leak, d, B, N), mr in zip(recs, res):
        m = np.array([parse_f(x) for x in mr])
        if not np.allclose(adv, m, rtol=1e-4, atol=1e-4):
            chk.disagree("update_ppo.gae", {"case": case, "impl": adv.tolist(), "model": m.tolist()})


def main(chk):
    chk.proof_step()
    rng = np.random.default_rng(chk.seed)
    q = chk.tier == "quick"
    gae_cases(chk, rng, 150 if q else 8000)
    nstep_cases(chk, rng, 100 if q else 5000)
    rtg_cases(chk, rng, 100 if q else 5000)
    dataset_cases(chk, rng, 16 if q else 400)
    a2c_cases(chk, rng, 40 if q else 1500)
    ppo_cases(chk, rng, 6 if q else 60)
    # learning signals computed from sampled subtrajectories (MR.Q critic target, encoder loss): nothing after the first terminated step matters
    import c03_repr
    st, enc, enc_t = c03_repr.mrq_cases(chk, rng, 6 if q else 100)
    c03_repr.encoder_cases(chk, rng, 15 if q else 300, st, enc, enc_t)
    chk.sample({"kind": "gae", "note": "dyadic rewards/values k/4, gamma and lambda in {0,1/2,1}, T in 1..24, termination at first/last/several/none; "
                                        "each case is also re-run after perturbing pre-t steps and post-termination steps (bitwise comparison)"})
    return chk.finish(
        rule="compute_gae / discounted_n_step_return / discounted_reward_to_go / prepare_a2c_batch on dyadic inputs (exact rational comparison "
             "with the extracted model and with the recurrences), each with a metamorphic re-run perturbing data that must not matter; PPO's "
             "preparation observed inside the real update_ppo (jit disabled, the advantages handed to ppo_loss recorded) on scripted vector environments",
        assumptions=["exact regime: dyadic inputs and gamma, lambda in {0,1/2,1} make float32 arithmetic exact", "jax.lax.scan / vmap trusted as executed",
                     "the MR.Q critic target and encoder-loss masks named by C07 are covered by the C03 check"])
