"""Self-test of the C09 translator on a synthetic package (run by harness/c09.py on every check).

One function per row of the ambient table and per resolution rule; the expected label of every
function is fixed here.  A mismatch means the translator's table no longer does what its
documentation (and DESIGN.md) says -> the harness reports a broken obligation.
"""
import os
import shutil
import tempfile

import c09_translate as T

FILES = {
    "rl_blox/__init__.py": "",
    "rl_blox/blox/__init__.py": "",
    "rl_blox/algorithm/__init__.py": "",
    "rl_blox/logging/__init__.py": "",
    "rl_blox/blox/replay_buffer.py": '''
import numpy as np
class Buf:
    def __init__(self):
        self.s = set()
    def sample_batch(self, n, rng):
        return rng.integers(0, 3, n)
    def bad_sample(self, n):
        return np.random.choice(3, n)
''',
    "rl_blox/blox/multitask.py": "def f():\n    return 0\n",
    "rl_blox/blox/mapb.py": "def g():\n    return 0\n",
    "rl_blox/blox/schedules.py": "def h():\n    return 0\n",
    "rl_blox/logging/logger.py": '''
import time
class L:
    def record_stat(self, k, v):
        return time.time()
''',
    "rl_blox/algorithm/a.py": '''
import os
import random as pyrandom
import time
import uuid
import secrets
import datetime
from datetime import datetime as dt
import numpy as np
import numpy.random as npr
from numpy.random import default_rng
import jax
from jax import random
from jax import random as jr
from ..blox.replay_buffer import Buf
from ..logging.logger import L


def train_pure(env, q, seed):
    key = jax.random.key(seed)
    key, sub = random.split(key)          # jax.random, NOT the stdlib module
    x = jr.uniform(sub, (3,))
    rng = np.random.default_rng(seed)
    o = env.step(rng.integers(3))
    return q(o) + x


def train_np_global(seed):
    return np.random.rand()


def train_np_alias(seed):
    return npr.normal()


def train_unseeded_rng(seed):
    return np.random.default_rng()


def train_none_rng(seed):
    return default_rng(None)


def train_seeded_from_import(seed):
    return default_rng(seed)


def train_stdlib_random(seed):
    return pyrandom.random()


def train_time_key(seed):
    return jax.random.key(int(time.time()))


def train_datetime(seed):
    return dt.now()


def train_datetime2(seed):
    return datetime.datetime.utcnow()


def train_urandom(seed):
    return os.urandom(4)


def train_pid(seed):
    return os.getpid()


def train_uuid(seed):
    return uuid.uuid4()


def train_secrets(seed):
    return secrets.token_hex(4)


def train_id(seed, o):
    return id(o)


def train_hash(seed, o):
    return hash(o)


def train_key_noarg(seed):
    return jax.random.PRNGKey()


def train_set_str(xs):
    out = []
    for t in set(map(str, xs)):
        out.append(t)
    return out


def train_set_literal():
    return [t for t in {"a", "b"}]


def train_set_int(n):
    s = set(range(n))
    s.add(3)
    return [t for t in s]


def train_set_unknown(xs):
    s = set(xs)
    return list(s)


def train_set_local_str(xs):
    s = set()
    for x in xs:
        s.add(str(x))
    return list(s)


def train_by_name(buf):
    return buf.bad_sample(3)              # unknown receiver: resolved by method name


def train_via_helper(seed):
    return helper(seed)


def helper(seed):
    return inner_helper(seed)


def inner_helper(seed):
    return np.random.randint(3)


def train_reference_only(seed):
    return jax.jit(inner_helper)          # a bare reference counts as a call


def train_logger(logger):
    logger.record_stat("k", 1)            # reaches the exempt wall clock only
    return 0


def train_nested(seed):
    def body(x):
        return time.perf_counter() + x
    return body(1)


def train_ctor(seed):
    return Buf()


def train_lambda(seed):
    f = lambda: np.random.rand()          # noqa: E731
    return f()


def not_an_entry_point(seed):
    return np.random.rand()
''',
    "rl_blox/algorithm/usesb.py": '''
from . import b


def train_other_module(seed):
    return b.leaf(seed)               # b's module body creates an unseeded generator


def train_module_init_only(seed):
    return seed                       # still reaches b.<module> through this module's imports
''',
    "rl_blox/algorithm/b.py": '''
import numpy as np
SEEDLESS = np.random.default_rng()


def leaf(seed):
    return SEEDLESS.integers(3)
''',
}

# expected: is an Ambient node reachable from this root?
EXPECT_REACH = {
    "train_pure": False, "train_np_global": True, "train_np_alias": True, "train_unseeded_rng": True,
    "train_none_rng": True, "train_seeded_from_import": False, "train_stdlib_random": True, "train_time_key": True,
    "train_datetime": True, "train_datetime2": True, "train_urandom": True, "train_pid": True, "train_uuid": True,
    "train_secrets": True, "train_id": True, "train_hash": True, "train_key_noarg": True, "train_set_str": True,
    "train_set_literal": True, "train_set_int": False, "train_set_unknown": False, "train_set_local_str": True,
    "train_by_name": True, "train_via_helper": True, "train_reference_only": True,
    "usesb.train_other_module": True, "usesb.train_module_init_only": True,
    "train_logger": False, "train_nested": True, "train_ctor": False, "train_lambda": True,
}
EXPECT_LABEL = {
    "rl_blox.algorithm.a.train_pure": "Seeded", "rl_blox.logging.logger.L.record_stat": "WallClock",
    "rl_blox.algorithm.a.train_seeded_from_import": "Seeded", "rl_blox.blox.replay_buffer.Buf.bad_sample": "Ambient",
    "rl_blox.algorithm.b.<module>": "Ambient", "rl_blox.algorithm.a.not_an_entry_point": "Ambient",
    "rl_blox.algorithm.a.train_via_helper": "Pure",
}
ABORTS = {
    "socket": "import socket\ndef train_x(seed):\n    return socket.gethostname()\n",
    "star": "from numpy import *\ndef train_x(seed):\n    return 0\n",
    "eval": "def train_x(seed):\n    return eval('1')\n",
    "unresolved": "def train_x(seed):\n    return undefined_name(seed)\n",
    "shadow": "import time\ndef train_x(seed, time):\n    return time.time()\n",
    "os-unknown": "import os\ndef train_x(seed):\n    return os.cpu_count()\n",
    "getattr-module": "import numpy as np\ndef train_x(seed):\n    return getattr(np, 'ran' + 'dom').rand()\n",
    "subprocess": "import subprocess\ndef train_x(seed):\n    return subprocess.run(['date'])\n",
}


def _write(root, files):
    for rel, body in files.items():
        p = os.path.join(root, rel)
        os.makedirs(os.path.dirname(p), exist_ok=True)
        with open(p, "w") as f:
            f.write(body)


def run(tmp_parent=None):
    """-> list of mismatches (empty = ok), number of assertions."""
    d = tempfile.mkdtemp(prefix="c09-selftest-", dir=tmp_parent)
    problems, n = [], 0
    try:
        _write(d, FILES)
        g = T.translate(d)
        if g.get("abort"):
            return [f"synthetic package aborted: {g['abort']}"], 1
        nodes = {x["id"]: x for x in g["nodes"]}
        byq = {x["qual"]: x for x in g["nodes"]}
        for name, want in EXPECT_REACH.items():
            n += 1
            q = f"rl_blox.algorithm.{name}" if "." in name else f"rl_blox.algorithm.a.{name}"
            if q not in byq or not byq[q]["root"]:
                problems.append(f"{q} is not a root")
                continue
            seen, todo = {byq[q]["id"]}, [byq[q]["id"]]
            while todo:
                u = todo.pop()
                for v in nodes[u]["callees"]:
                    if v not in seen:
                        seen.add(v)
                        todo.append(v)
            got = any(nodes[u]["label"] == "Ambient" for u in seen)
            if got != want:
                problems.append(f"{name}: ambient reachable = {got}, expected {want}")
        for q, want in EXPECT_LABEL.items():
            n += 1
            if q not in byq or byq[q]["label"] != want:
                problems.append(f"label of {q}: {byq.get(q, {}).get('label')} expected {want}")
        n += 1
        if byq["rl_blox.algorithm.a.not_an_entry_point"]["root"]:
            problems.append("not_an_entry_point must not be a root")
        n += 1
        if not byq["rl_blox.blox.replay_buffer.Buf.sample_batch"]["root"]:
            problems.append("replay-buffer methods must be roots")
        for key, body in ABORTS.items():
            n += 1
            files = dict(FILES)
            files["rl_blox/algorithm/c.py"] = body
            d2 = tempfile.mkdtemp(prefix="c09-selftest-", dir=tmp_parent)
            try:
                _write(d2, files)
                g2 = T.translate(d2)
                if not g2.get("abort"):
                    problems.append(f"construct '{key}' must abort the translation (fail-closed) but did not")
                elif g2["roots"] != [0] or g2["nodes"][0]["label"] != "Ambient":
                    problems.append(f"aborted translation for '{key}' did not produce the fail-closed graph")
            finally:
                shutil.rmtree(d2, ignore_errors=True)
    finally:
        shutil.rmtree(d, ignore_errors=True)
    return problems, n


if __name__ == "__main__":
    pr, k = run()
    print(f"c09_selftest: {k} assertions, {len(pr)} problems")
    for p in pr:
        print("  ", p)
    raise SystemExit(1 if pr else 0)
