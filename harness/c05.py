"""C05 — each update routine changes only the component it trains.

Every update routine is intercepted while the real training routines run (off-policy routines on
the scripted environment of harness/trainrun.py, on-policy routines on small gym tasks).  Around
each call the harness records, for every nnx object among the arguments and every module of the
run, the identity of each variable and its bytes before / after.  The write-set is the set of
variables of the documented trained component plus its optimizer's state; the extracted Coq
frame_check and an independent Python rule both decide whether every changed path is explained."""
import dataclasses
import functools
import importlib
import inspect

import numpy as np

import trainrun as tr
from common import llit, nlit

# routine -> modules whose namespace refers to it, trained components (argument, sub-path), optimizer arguments
SPEC = {
    "train_step_with_loss": dict(mods=[], trained=[("q", ())], opt=["optimizer"]),       # reached through nnx.jit(partial(...)), see spy_jit
    "ddpg_update_actor": dict(mods=["ddpg", "td3", "td3_lap"], trained=[("policy", ())], opt=["policy_optimizer"]),
    "sac_update_actor": dict(mods=["sac"], trained=[("policy", ())], opt=["policy_optimizer"]),
    "_update_entropy_coefficient": dict(mods=["sac"], trained=[("log_alpha", ())], opt=["optimizer"]),
    "EntropyControl.update": dict(mods=[], method=("sac", "EntropyControl", "update"), trained=[("self._alpha", ())], opt=["self.optimizer"]),
    "td7_update_critic": dict(mods=["td7"], trained=[("critic", ())], opt=["critic_optimizer"]),
    "td7_update_actor": dict(mods=["td7"], trained=[("policy", ("actor",))], opt=["actor_optimizer"]),
    "update_sale": dict(mods=["td7"], trained=[("embedding", ())], opt=["embedding_optimizer"]),
    "update_critic_and_policy": dict(mods=["mrq"], trained=[("q", ()), ("policy", ())], opt=["q_optimizer", "policy_optimizer"]),
    "update_model_based_encoder": dict(mods=["mrq"], trained=[("encoder", ())], opt=["encoder_optimizer"]),
    "update_ppo": dict(mods=["ppo"], trained=[("actor", ()), ("critic", ())], opt=["optimizer_actor", "optimizer_critic"]),
    "train_value_function": dict(mods=["reinforce", "actor_critic", "a2c"], trained=[("value_function", ())], opt=["value_function_optimizer"]),
    "train_policy_reinforce": dict(mods=["reinforce"], trained=[("policy", ())], opt=["policy_optimizer"]),
    "train_policy_actor_critic": dict(mods=["actor_critic"], trained=[("policy", ())], opt=["policy_optimizer"]),
    "train_policy_a2c": dict(mods=["a2c"], trained=[("policy", ())], opt=["policy_optimizer"]),
    "update_dynamics_model": dict(mods=["pets"], trained=[("dynamics_model.model", ())], opt=["dynamics_model.optimizer"]),
}
SLOW = ("target", "fixed_embedding", "checkpoint")     # slow copies: their updates are C06's subject


def nnx_objects(name, v, out, depth=0):
    from flax import nnx
    if isinstance(v, (nnx.Module, nnx.Optimizer, nnx.Variable)):
        out[name] = v
    elif depth < 2 and isinstance(v, tuple) and hasattr(v, "_fields"):
        for f in v._fields:
            nnx_objects(f"{name}.{f}", getattr(v, f), out, depth + 1)
    elif depth < 2 and dataclasses.is_dataclass(v) and not isinstance(v, type):
        for f in dataclasses.fields(v):
            nnx_objects(f"{name}.{f.name}", getattr(v, f.name), out, depth + 1)
    elif depth < 2 and isinstance(v, (tuple, list)):
        for i, x in enumerate(v):
            nnx_objects(f"{name}[{i}]", x, out, depth + 1)
    elif depth < 1 and hasattr(v, "__dict__") and type(v).__module__.startswith("rl_blox"):      # a plain library object holding modules (EntropyControl)
        for attr, x in vars(v).items():
            nnx_objects(f"{name}.{attr}", x, out, depth + 1)


def variables(obj):
    """[(path tuple, Variable)] of an nnx object"""
    from flax import nnx
    if isinstance(obj, nnx.Variable):
        return [((), obj)]
    return [(tuple(path), v) for path, v in nnx.iter_graph(obj) if isinstance(v, nnx.Variable)]


def take(objs):
    out = {}
    for name, o in objs.items():
        out[name] = [(p, id(v), np.array(v.value, copy=True)) for p, v in variables(o)]
    return out


class Spy:
    def __init__(self):
        self.signature_changes = []
        self.calls = []            # dict(routine, objs {name: [(path, id)]}, changed {name: [path idx]}, ws ids, iteration, context)
        self.run_mods = {}
        self.snaps = None
        self.context = ""
        self._patched = []

    def wrap(self, key, orig, names=None):
        spec = SPEC[key]

        @functools.wraps(orig)
        def w(*a, **k):
            if names is not None:
                bound = {(names[i] if i < len(names) else f"arg{i}"): x for i, x in enumerate(a)}
                bound.update(k)
            else:
                ba = inspect.signature(orig).bind(*a, **k)
                bound = dict(ba.arguments)
            objs = {}
            for n, v in bound.items():
                nnx_objects(n, v, objs)
            for n, m in self.run_mods.items():
                m = tr.resolve(m)
                if m is not None:
                    objs["run:" + n] = m
            missing = [arg for arg, _ in spec["trained"] if arg not in objs] + [arg for arg in spec["opt"] if arg not in objs]
            if missing:       # the routine's signature no longer matches the table: reported as a broken correspondence by the caller
                self.signature_changes.append((key, missing))
                return orig(*a, **k)
            before = take(objs)
            out = orig(*a, **k)
            after = take(objs)
            ws = set()
            for arg, sub in spec["trained"]:
                ws |= {i for p, i, _ in before[arg] if p[:len(sub)] == sub}
            for arg in spec["opt"]:
                ws |= {i for _, i, _ in before[arg]}
            trained_ids = set()
            for arg, sub in spec["trained"]:
                trained_ids |= {i for p, i, _ in before[arg] if p[:len(sub)] == sub}
            slow_hit = sorted(n[4:] for n in objs if n.startswith("run:") and any(t in n for t in SLOW) and trained_ids & {i for _, i, _ in before[n]})
            changed = {n: [j for j, ((_, _, b), (_, _, c)) in enumerate(zip(before[n], after[n])) if b.shape != c.shape or b.tobytes() != c.tobytes()]
                       for n in objs}
            tchanged = {f"{arg}{'.' + '.'.join(sub) if sub else ''}": any(before[arg][j][0][:len(sub)] == sub for j in changed[arg]) for arg, sub in spec["trained"]}
            self.calls.append(dict(routine=key, context=self.context, objs={n: [(p, i) for p, i, _ in before[n]] for n in objs}, changed=changed, ws=ws,
                                   trained_changed=tchanged, slow_hit=slow_hit, iteration=None if self.snaps is None else len(self.snaps) - 1))
            return out
        return w

    def install(self):
        from flax import nnx
        import rl_blox.algorithm.dqn as dqn
        for key, spec in SPEC.items():
            if "method" in spec:
                mod = importlib.import_module(f"rl_blox.algorithm.{spec['method'][0]}")
                cls = getattr(mod, spec["method"][1])
                orig = getattr(cls, spec["method"][2])
                setattr(cls, spec["method"][2], self.wrap(key, orig))
                self._patched.append((cls, spec["method"][2], orig))
            for m in spec["mods"]:
                mod = importlib.import_module(f"rl_blox.algorithm.{m}")
                orig = getattr(mod, key)
                setattr(mod, key, self.wrap(key, orig))
                self._patched.append((mod, key, orig))
        orig_jit, tswl, spy = nnx.jit, dqn.train_step_with_loss, self

        def spy_jit(fun=None, **kw):      # the DQN-family / DDPG / TD3 / SAC routines jit partial(train_step_with_loss, loss) themselves
            if fun is None:
                return lambda f: spy_jit(f, **kw)
            jitted = orig_jit(fun, **kw)
            if isinstance(fun, functools.partial) and fun.func is tswl:
                return spy.wrap("train_step_with_loss", jitted, names=["loss", "optimizer", "q"][len(fun.args):])
            return jitted
        nnx.jit = spy_jit
        self._patched.append((nnx, "jit", orig_jit))

    def uninstall(self):
        for mod, key, orig in reversed(self._patched):
            setattr(mod, key, orig)
        self._patched = []


# ---------------------------------------------------------------------------------------------------
def on_policy_runs(spy, rng, which, variant=0):
    import gymnasium as gym
    import optax
    from flax import nnx
    seed = int(rng.integers(0, 1000))
    steps_kw = [dict(policy_gradient_steps=1, value_gradient_steps=1), dict(policy_gradient_steps=2, value_gradient_steps=3)][variant % 2]   # defaults and several steps
    spy.context += f" {steps_kw}"

    def seeded(env):
        env.reset(seed=seed)
        env.action_space.seed(seed)
        return env
    if which in ("reinforce", "actor_critic", "a2c"):
        from rl_blox.algorithm.reinforce import create_policy_gradient_continuous_state
        base = seeded(gym.make("InvertedPendulum-v5"))
        st = create_policy_gradient_continuous_state(base, policy_shared_head=bool(rng.integers(0, 2)), policy_hidden_nodes=[8], policy_learning_rate=3e-3,
                                                     value_network_hidden_nodes=[8], value_network_learning_rate=1e-2, seed=seed)
        spy.run_mods = {"policy": st.policy, "value_function": st.value_function, "policy_optimizer": st.policy_optimizer,
                        "value_function_optimizer": st.value_function_optimizer}
        if which == "reinforce":
            from rl_blox.algorithm.reinforce import train_reinforce
            train_reinforce(base, st.policy, st.policy_optimizer, st.value_function, st.value_function_optimizer, seed=seed, total_timesteps=60,
                            steps_per_update=20, gamma=0.99, progress_bar=False, **steps_kw)
        elif which == "actor_critic":
            from rl_blox.algorithm.actor_critic import train_ac
            train_ac(base, st.policy, st.policy_optimizer, st.value_function, st.value_function_optimizer, seed=seed, total_timesteps=60,
                     steps_per_update=20, gamma=0.99, progress_bar=False, **steps_kw)
        else:
            from rl_blox.algorithm.a2c import train_a2c
            envs = gym.vector.SyncVectorEnv([lambda: gym.make("InvertedPendulum-v5") for _ in range(2)])
            envs = gym.wrappers.vector.RecordEpisodeStatistics(envs)
            envs.reset(seed=seed)
            envs.action_space.seed(seed)
            train_a2c(envs, st.policy, st.policy_optimizer, st.value_function, st.value_function_optimizer, seed=seed, total_timesteps=40,
                      steps_per_update=5, log_frequency=None, progress_bar=False, **steps_kw)
    else:
        from rl_blox.algorithm.ppo import train_ppo
        from rl_blox.blox.function_approximator.mlp import MLP
        from rl_blox.blox.function_approximator.policy_head import SoftmaxPolicy
        envs = gym.make_vec("CartPole-v1", num_envs=2, vectorization_mode="sync", vector_kwargs={"autoreset_mode": gym.vector.AutoresetMode.SAME_STEP})
        envs.reset(seed=seed)
        envs.action_space.seed(seed)
        feats, acts = envs.observation_space.shape[1], int(envs.single_action_space.n)
        actor = SoftmaxPolicy(MLP(feats, acts, [10], "relu", nnx.Rngs(seed)))
        critic = MLP(feats, 1, [10], "relu", nnx.Rngs(seed + 1000))
        oa = nnx.Optimizer(actor, optax.adam(0.003), wrt=nnx.Param)
        oc = nnx.Optimizer(critic, optax.adam(0.003), wrt=nnx.Param)
        spy.run_mods = {"actor": actor, "critic": critic, "optimizer_actor": oa, "optimizer_critic": oc}
        train_ppo(envs, actor, critic, oa, oc, iterations=2, epochs=2, batch_size=16, seed=seed, progress_bar=False)


def evaluation_cases(chk, rng):
    """merely evaluating a loss or acting changes nothing - also for parameter values at the edge of their range"""
    import jax
    import jax.numpy as jnp
    from flax import nnx
    from rl_blox.algorithm import sac
    from rl_blox.algorithm.ddpg import create_ddpg_state
    from rl_blox.blox.losses import deterministic_policy_gradient_loss
    from stubs import ScriptEnv
    env = ScriptEnv([(3, "term")], low=(-2.0,), high=(1.0,))
    obs = jnp.asarray(rng.normal(size=(4, 3)).astype(np.float32))
    st = sac.create_sac_state(env, policy_hidden_nodes=[4], q_hidden_nodes=[4], seed=1)
    dd = create_ddpg_state(env, policy_hidden_nodes=[4], q_hidden_nodes=[4], seed=2)
    for la in (0.0, 3.0, -12.0, 1.9):
        alpha = sac.EntropyCoefficient(jnp.asarray([la], dtype=jnp.float32))
        evals = {
            "sac_exploration_loss": (lambda: sac.sac_exploration_loss(st.policy, -1.0, jax.random.key(0), obs, alpha), {"alpha": alpha, "policy": st.policy}),
            "grad sac_exploration_loss": (lambda: nnx.value_and_grad(sac.sac_exploration_loss, argnums=4)(st.policy, -1.0, jax.random.key(0), obs, alpha),
                                          {"alpha": alpha, "policy": st.policy}),
            "alpha()": (lambda: alpha(), {"alpha": alpha}),
            "sac_actor_loss": (lambda: sac.sac_actor_loss(st.policy, st.q, float(np.exp(min(la, 2.0))), jax.random.key(1), obs), {"policy": st.policy, "q": st.q}),
            "policy.sample": (lambda: st.policy.sample(obs, jax.random.key(2)), {"policy": st.policy}),
            "deterministic_policy_gradient_loss": (lambda: deterministic_policy_gradient_loss(dd.q, obs, dd.policy), {"policy": dd.policy, "q": dd.q}),
            "policy(obs)": (lambda: dd.policy(obs), {"policy": dd.policy}),
        }
        for what, (fn, objs) in evals.items():
            before = take(objs)
            ok, _ = chk.impl_call(f"C05:{what}:raised", {"log_alpha": la}, fn)
            after = take(objs)
            chk.case(("evaluation", what, la))
            chk.count("evaluation_cases")
            for n in objs:
                ch = [describe({"objs": {n: [(p, i) for p, i, _ in before[n]]}}, n, j) for j, ((_, _, b), (_, _, c)) in enumerate(zip(before[n], after[n])) if b.tobytes() != c.tobytes()]
                if ch:
                    chk.fail(f"C05:{what.split('(')[0].replace(' ', '-')}:evaluation-changes-state", f"evaluating {what} changed parameters although nothing is trained",
                             {"evaluated": what, "log_alpha": la, "object": n, "paths": ch})


OFF_POLICY = ["dqn", "nature_dqn", "ddqn", "per", "ddpg", "td3", "td3_lap", "sac", "td7", "mrq", "pets"]
ON_POLICY = ["reinforce", "actor_critic", "a2c", "ppo"]


def describe(call, name, j):
    p = call["objs"][name][j][0]
    return "/".join(str(x) for x in p) or "<value>"


def main(chk):
    chk.proof_step()
    rng = np.random.default_rng(chk.seed)
    q = chk.tier == "quick"
    evaluation_cases(chk, rng)
    spy = Spy()
    loop_recs = []
    spy.install()
    try:
        for name in OFF_POLICY:
            for _ in range(1 if q else 8):
                script = [(int(rng.choice([2, 3, 5])), str(rng.choice(["term", "trunc"]))) for _ in range(3)]
                total, warm = int(rng.choice([9, 12])), int(rng.choice([0, 3, 4])) if name != "pets" else 3
                extra = {"pd": int(rng.choice([1, 2])), "tuf": int(rng.choice([2, 3])), "td": int(rng.choice([2, 3])), "tnd": int(rng.choice([1, 2])),
                         "uf": int(rng.choice([1, 2]))}
                mods_ref, snaps_ref = {}, []
                spy.run_mods, spy.snaps, spy.context = mods_ref, snaps_ref, f"train_{name} #{len(loop_recs)}"
                first = len(spy.calls)
                res = tr.run(name, script, total, warm=warm, seed=int(rng.integers(0, 1000)), extra=dict(extra, mods_ref=mods_ref, snaps_ref=snaps_ref))
                case = {"routine": name, "script": script, "total_timesteps": total, "learning_starts": warm, **extra}
                chk.case(("off", str(case)))
                chk.count("runs_" + name)
                loop_recs.append((case, res, spy.calls[first:]))
        # targets created by the routines themselves (no target passed in): every module a routine returns has its own storage
        for name in ["nature_dqn", "ddqn", "per", "ddpg", "td3", "td3_lap", "sac", "td7", "mrq"]:
            from flax import nnx
            mods_ref, snaps_ref = {}, []
            spy.run_mods, spy.snaps, spy.context = mods_ref, snaps_ref, f"train_{name} (own targets) #{len(loop_recs)}"
            res = tr.run(name, [(3, "term"), (2, "trunc")], 8, warm=2, seed=int(rng.integers(0, 1000)),
                         extra={"own_targets": True, "pd": 1, "td": 2, "tuf": 2, "mods_ref": mods_ref, "snaps_ref": snaps_ref})
            rm = res.get("result_modules") or {}
            chk.case(("own-targets", name))
            chk.count("own_target_runs")
            names_ = sorted(rm)
            idsets = {n_: {id(v) for _, v in variables(rm[n_])} for n_ in names_}
            for ai, a in enumerate(names_):
                for b in names_[ai + 1:]:
                    if idsets[a] & idsets[b] and rm[a] is not rm[b]:
                        chk.fail(f"C05:train_{name}:returned-modules-share-storage", "two modules returned by the routine (e.g. a network and the target it created "
                                 "itself) share parameter storage, so an update of one changes the other", {"routine": name, "modules": [a, b]})
            if len(names_) < 2:
                chk.disagree("own-targets", {"routine": name, "what": "the routine returned fewer than two modules", "returned": names_})
        spy.snaps = None
        for name in ON_POLICY:
            for v in range(2 if q else 6):
                spy.context = f"train_{name} #{len(spy.calls)}"
                on_policy_runs(spy, rng, name, v)
                chk.case(("on", name, len(spy.calls)))
                chk.count("runs_" + name)
    finally:
        spy.uninstall()

    # ---- per call: every changed path must be explained by the write-set (spec rule + extracted Coq frame_check)
    exprs, recs, cache = [], [], {}
    seen_routines, seen_any = {}, set()
    for c in spy.calls:
        key = c["routine"]
        chk.count("calls_" + key)
        seen_any.add(key)
        sr = seen_routines.setdefault((key, c["context"]), {"calls": 0, "trained_changed": {}})
        sr["calls"] += 1
        for t, ch in c["trained_changed"].items():
            sr["trained_changed"][t] = sr["trained_changed"].get(t, 0) + int(ch)
        names = sorted(c["objs"])
        ids = {}
        for n in names:
            for _, i in c["objs"][n]:
                ids.setdefault(i, len(ids))
        py_viol = []
        for oi, n in enumerate(names):
            for j in c["changed"][n]:
                if c["objs"][n][j][1] not in c["ws"]:
                    py_viol.append([oi, j])
                    chk.fail(f"C05:{key}:{n.replace('run:', '')}", f"{key} changed a parameter outside the component it trains and its optimizer state",
                             {"routine": key, "called_from": c["context"], "object": n, "path": describe(c, n, j),
                              "documented": {"trained": [list(map(str, t)) for t in SPEC[key]["trained"]], "optimizer": SPEC[key]["opt"]}})
        if c["slow_hit"]:
            chk.fail(f"C05:{key}:trains-slow-copy", f"{key} was handed a target network / slow copy of the run as the component to train: the update changes that copy "
                     "and not the online component it is documented to train", {"routine": key, "called_from": c["context"], "iteration": c["iteration"],
                                                                               "trained_argument_is_part_of": c["slow_hit"],
                                                                               "documented": {"trained": [list(map(str, t)) for t in SPEC[key]["trained"]]}})
        # distinct components must not share storage: among the arguments, and among the modules / optimizers of the run
        idsets = {n: {i for _, i in c["objs"][n]} for n in names}
        groups = [[n for n in names if not n.startswith("run:")], [n for n in names if n.startswith("run:")]]
        py_share = []
        for gi, grp in enumerate(groups):
            for ai, a in enumerate(grp):
                for bi in range(ai + 1, len(grp)):
                    if idsets[a] & idsets[grp[bi]]:
                        py_share.append([gi, ai, bi])
                        chk.fail(f"C05:{key}:shared-storage", f"two distinct components passed to / living beside {key} share parameter storage, so training one changes the other",
                                 {"routine": key, "called_from": c["context"], "objects": [a, grp[bi]], "iteration": c["iteration"]})
        sig = (key, tuple((n, tuple(ids[i] for _, i in c["objs"][n]), tuple(c["changed"][n])) for n in names), tuple(sorted(ids[i] for i in c["ws"])))
        if sig not in cache:
            cache[sig] = len(exprs)
            ws_l = llit(sorted(ids[i] for i in c["ws"]), nlit)
            objs_l = llit(names, lambda n: llit(list(enumerate(c["objs"][n])), lambda e: f"({nlit(e[0])}, {nlit(ids[e[1][1]])})"))
            ch_l = llit(names, lambda n: llit(c["changed"][n], nlit))
            obj_l = lambda n: llit(list(enumerate(c["objs"][n])), lambda e: f"({nlit(e[0])}, {nlit(ids[e[1][1]])})")   # noqa: E731
            exprs.append(f"(sp (sl (sp sn sn)) (sl (sl (sp sn sn))) (M.frame_check {ws_l} {objs_l} {ch_l}, "
                         f"[M.sharing {llit(groups[0], obj_l)}; M.sharing {llit(groups[1], obj_l)}]))")
        recs.append((cache[sig], py_viol, py_share, c))
    res = chk.model_eval(exprs, per_file=40)
    for k, py_viol, py_share, c in recs:
        if sorted(map(list, res[k][0])) != sorted(py_viol):
            chk.disagree("frame_check", {"routine": c["routine"], "called_from": c["context"], "harness": py_viol, "model": res[k][0]})
        if sorted([gi, a, b] for gi, g in enumerate(res[k][1]) for a, b in g) != sorted(py_share):
            chk.disagree("sharing", {"routine": c["routine"], "called_from": c["context"], "harness": py_share, "model": res[k][1]})
    chk.count("distinct_frame_shapes", len(exprs))

    # ---- an update does change the trained component (aggregated over the calls of each routine)
    # Deterministic actors behind a tanh can have an exactly zero gradient for a whole short run (saturated tiny networks): for them the
    # rule is aggregated over all runs of the check; for every other routine it holds per training run.
    ACTORS = {"ddpg_update_actor", "sac_update_actor", "td7_update_actor"}
    agg = {}
    for (key, ctx), sr in seen_routines.items():
        if key in ACTORS:
            a = agg.setdefault(key, {"calls": 0, "trained_changed": {}})
            a["calls"] += sr["calls"]
            for t, n in sr["trained_changed"].items():
                a["trained_changed"][t] = a["trained_changed"].get(t, 0) + n
    for key, a in agg.items():
        for t, n in a["trained_changed"].items():
            if a["calls"] >= 4 and n == 0:
                chk.fail(f"C05:{key}:never-trains", f"{key} never changed {t}, the component it is documented to train, in {a['calls']} calls over all runs",
                         {"routine": key, "component": t})
    for (key, ctx), sr in seen_routines.items():       # per training run: a run in which a routine is called but never moves its component
        if key in ACTORS:
            continue
        for t, n in sr["trained_changed"].items():
            if key == "update_critic_and_policy" and t.startswith("policy"):
                continue           # MR.Q's deterministic policy: same remark as for the actors above (its critic part is checked)
            if sr["calls"] >= 2 and n == 0:
                chk.fail(f"C05:{key}:never-trains", f"{key} never changed {t}, the component it is documented to train, in the {sr['calls']} calls of one training run",
                         {"routine": key, "component": t, "run": ctx})
    # ---- a delayed actor is still trained: in a run whose critic routine was called at least twice the actor's delay, the actor routine is called
    PAIRS = {"td3": ("train_step_with_loss", "ddpg_update_actor"), "td3_lap": ("train_step_with_loss", "ddpg_update_actor"),
             "sac": ("train_step_with_loss", "sac_update_actor"), "td7": ("td7_update_critic", "td7_update_actor")}
    for case, res_, calls in loop_recs:
        pair = PAIRS.get(case["routine"])
        if pair is None or res_.get("exception"):
            continue
        n_c, n_a = sum(1 for c in calls if c["routine"] == pair[0]), sum(1 for c in calls if c["routine"] == pair[1])
        if n_c >= 2 * case["pd"]:
            chk.count("delayed_actor_runs_checked")
            aname = "actor" if case["routine"] == "td7" else "policy"
            snaps_ = res_["snaps"]
            moved = bool(snaps_) and aname in snaps_[0] and any(a.tobytes() != b.tobytes() for a, b in zip(snaps_[0][aname], snaps_[-1][aname]))
            if n_a == 0 and moved:       # the actor is trained, but not through the routine of the table: the interception is blind, nothing is shown
                chk.disagree("routine-table", {"routine": pair[1], "what": "never called in a run in which the actor changed", "case": case})
            elif n_a == 0:
                chk.fail(f"C05:train_{case['routine']}:actor-never-updated", f"{pair[0]} was called {n_c} times in one training run with policy_delay={case['pd']}, "
                         f"but {pair[1]} never: the actor, a component the training step is documented to train, is never changed",
                         {"case": case, "critic_update_calls": n_c, "actor_update_calls": n_a})
    for key, missing in sorted(set((k_, tuple(m_)) for k_, m_ in spy.signature_changes)):
        chk.disagree("routine-table", {"routine": key, "what": "its arguments no longer include the documented trained component / optimizer", "missing": list(missing)})
    for key in SPEC:
        if key not in seen_any and not any(k_ == key for k_, _ in spy.signature_changes):
            chk.disagree("routine-table", {"routine": key, "what": "not reached by any training run (renamed, or no longer called)"})

    # ---- loop level: online parameters change only inside intercepted update routines (acting / loss evaluation change nothing)
    for case, res_, calls in loop_recs:
        snaps, mods = res_["snaps"], res_["mods"]
        explained = {}
        for c in calls:
            for n in c["objs"]:
                if n.startswith("run:"):
                    explained.setdefault((c["iteration"], n[4:]), set()).update(j for j, (_, i) in enumerate(c["objs"][n]) if i in c["ws"])
        for i in range(len(snaps) - 1):
            for n in snaps[i]:
                if any(s in n for s in SLOW):
                    continue
                diff = [j for j, (a, b) in enumerate(zip(snaps[i][n], snaps[i + 1][n])) if a.tobytes() != b.tobytes()]
                if not diff:
                    continue
                chk.count("loop_changes_checked")
                # nnx.state leaf order of trainrun.snapshot vs variable order of iter_graph differ: compare at module granularity
                if not explained.get((i, n)):
                    chk.fail(f"C05:train_{case['routine']}:{n}-outside-update", f"{n} changed in an iteration in which no update routine that trains it was called",
                             {"case": case, "iteration": i, "module": n})
    reached = {}
    for (k, _), v in seen_routines.items():
        reached[k] = reached.get(k, 0) + v["calls"]
    chk.sample({"routines_reached": reached})
    return chk.finish(
        rule="every call of the 15 update routines made by the 15 training routines (off-policy on the scripted environment, on-policy on small gym tasks): "
             "variables of every nnx object among the arguments and of every module / optimizer of the run compared bytewise before and after; a changed "
             "variable must belong to the documented trained component or its optimizer (Python rule and extracted Coq frame_check on the live "
             "variable-identity structure); each trained component changes in at least one call; between env.step calls online modules change only in "
             "iterations where an update routine training them was called",
        assumptions=["the table routine -> (trained component, optimizer) in harness/c05.py is taken from the documentation",
                     "variable identity = id() of the live nnx.Variable objects (stable through nnx.jit and nnx.cached_partial: checked on q/q_target)",
                     "tabular routines are pure functions on arrays (their frame is covered by C14's update models)"])
