"""Regenerates /verif/MANIFEST.json from the table below (run by hand after editing)."""
import json

BASE = ("cd /repo && /venv/bin/python -m pytest -ra -q -p no:cacheprovider --timeout=900 "
        "--continue-on-collection-errors")
CHECKS = {
    # id: (design_ref, technique, level text, level note)
}
NOT_APPLICABLE = {}


def load_tables():
    import importlib.util, os
    spec = importlib.util.spec_from_file_location("mt", os.path.join(os.path.dirname(__file__), "manifest_table.py"))
    m = importlib.util.module_from_spec(spec)
    spec.loader.exec_module(m)
    return m.CHECKS, m.NOT_APPLICABLE


def main():
    checks, na = load_tables()
    man = {
        "version": 1,
        "setup_cmd": "bin/setup",
        "hooks": {
            "guard": "RL_BLOX_VERIF",
            "enable": "no source hooks are needed: every observation goes through public arguments (env, rng, logger, replay_buffer=, q_target=); RL_BLOX_VERIF is reserved and unused",
            "baseline_off_cmd": BASE,
            "source_commits": [],
            "add_only": True,
        },
        "engines": [{
            "name": "coq-model+correspondence",
            "path": "coq/ (models, proofs, Props/<ID>.v), harness/ (correspondence + spec oracle), ocaml/prelude.ml",
            "serves_properties": sorted(checks),
            "kind_free_text": "Coq 8.16 theorems about hand-written Gallina models; models extracted to OCaml and run against /repo's working tree on generated cases; C09 additionally regenerates its model from the source",
        }],
        "checks": [],
        "not_applicable": [{"property_id": k, "reason": v} for k, v in sorted(na.items())],
        "notes": "bin/check <ID> <quick|thorough>; VERIF_SEED selects the seed. See DESIGN.md.",
    }
    for pid in sorted(checks):
        ref, tech, text, note = checks[pid]
        man["checks"].append({
            "property_id": pid,
            "quick_cmd": f"bin/check {pid} quick",
            "thorough_cmd": f"bin/check {pid} thorough",
            "evidence_file": f"/verif/evidence/{pid}.json",
            "replay_cmd_template": "bin/replay {path}",
            "engine": "coq-model+correspondence",
            "level_claimed": {"category": "proof", "text": text, "design_ref": ref},
            "level_note": note,
            "technique": tech,
        })
    import os
    json.dump(man, open(os.path.join(os.environ.get("VERIF_ROOT", "/verif"), "MANIFEST.json"), "w"), indent=1)
    print("wrote MANIFEST.json with", len(man["checks"]), "checks,", len(man["not_applicable"]), "not applicable")


if __name__ == "__main__":
    main()
