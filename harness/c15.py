"""C15 — deferred training releases exactly the collected steps; checkpoints only improve."""
import fractions
import itertools

import numpy as np

from common import frac, llit, parse_q, qlit, zlit

F = fractions.Fraction


def run_impl(cfg, hist):
    from rl_blox.blox.checkpointing import CheckpointState, assess_performance_and_checkpoint
    w, maxep, thr = cfg
    st = CheckpointState()
    epoch = 0
    outs, states = [], []
    for (L, ret) in hist:
        before = (st.episodes_since_udpate, st.timesteps_since_upate, st.max_episodes_before_update,
                  st.min_return, st.best_min_return, epoch)
        u, tr = assess_performance_and_checkpoint(st, L, float(ret), epoch, float(w), maxep, thr)
        epoch += tr
        outs.append([bool(u), int(tr)])
        states.append((before, (st.episodes_since_udpate, st.timesteps_since_upate, st.max_episodes_before_update,
                                st.min_return, st.best_min_return, epoch)))
    final = [int(st.episodes_since_udpate), int(st.timesteps_since_upate), int(st.max_episodes_before_update),
             frac(st.min_return), frac(st.best_min_return), int(epoch)]
    return outs, states, final


def spec_check(chk, cfg, hist, outs, states):
    """The property evaluated on the implementation's own trace."""
    case = {"reset_weight": str(cfg[0]), "max_episodes": cfg[1], "threshold": cfg[2], "history": [[l, str(r)] for l, r in hist]}
    window = []
    released = 0
    switches = 0
    ghost_best = -1e8       # the property's own record of "the best minimum return recorded so far" (not read from the implementation)
    for i, ((L, ret), (u, tr), (before, after)) in enumerate(zip(hist, outs, states)):
        window.append((L, ret))
        wsum = sum(l for l, _ in window)
        wmin = min(r for _, r in window)
        if float(before[4]) != float(ghost_best):
            chk.fail("C15:assess:best-minimum-record", "the recorded best minimum return is not the minimum of the last accepted window (times the reset "
                     "weight once the long window started)", {"case": case, "call": i, "recorded": before[4], "expected": float(ghost_best)})
            return
        best_before, maxeps_before = before[4], before[2]
        released += tr
        if released + after[1] != sum(l for l, _ in hist[: i + 1]):
            chk.fail("C15:assess:conservation", "released training iterations + waiting steps != collected environment steps",
                     {"case": case, "call": i, "released_total": released, "waiting": after[1]})
            return
        if tr not in (0, wsum):
            chk.fail("C15:assess:release-amount", "released steps are neither 0 nor the steps collected in the window",
                     {"case": case, "call": i, "released": tr, "window_steps": wsum})
            return
        if u and not (len(window) == maxeps_before and wmin >= best_before and tr == wsum):
            chk.fail("C15:assess:checkpoint-only-on-good-window",
                     "checkpoint replaced although the window was incomplete or a return was below the best minimum",
                     {"case": case, "call": i, "window": [[l, str(r)] for l, r in window], "best_min": best_before, "max_episodes": maxeps_before})
            return
        if (tr > 0 and not u) != (wmin < best_before):
            chk.fail("C15:assess:cut-short-iff-below", "assessment cut short although no return fell below the best minimum (or vice versa)",
                     {"case": case, "call": i, "window": [[l, str(r)] for l, r in window], "best_min": best_before, "released": tr, "update": u})
            return
        if tr == 0 and not (len(window) != maxeps_before and wmin >= best_before):
            chk.fail("C15:assess:missed-release", "complete window without release", {"case": case, "call": i})
            return
        if after[2] != before[2]:
            switches += 1
            if not (tr > 0 and before[5] < cfg[2] <= before[5] + tr and after[2] == cfg[1]):
                chk.fail("C15:assess:switch-point", "assessment window size changed at a call that does not cross the threshold",
                         {"case": case, "call": i, "epoch_before": before[5], "released": tr})
                return
        elif tr > 0 and before[5] < cfg[2] <= before[5] + tr and cfg[1] != before[2]:
            chk.fail("C15:assess:switch-missed", "threshold crossed without switching to the long window", {"case": case, "call": i})
            return
        if u:
            ghost_best = float(wmin)
        if tr > 0 and before[5] < cfg[2] <= before[5] + tr:      # the release that crosses the threshold starts the long window
            ghost_best = ghost_best * float(cfg[0])
        if tr > 0:
            if (after[0], after[1], after[3]) != (0, 0, 1e8):
                chk.fail("C15:assess:reset", "window counters not reset after a release", {"case": case, "call": i, "state": after})
                return
            window = []
    if switches > 1:
        chk.fail("C15:assess:switch-once", "assessment window size switched more than once", {"case": case})


def model_expr(cfg, hists):
    w, maxep, thr = cfg
    k = f"{{M.k_weight = {qlit(w)}; k_maxeps = {zlit(maxep)}; k_threshold = {zlit(thr)}}}"
    hl = llit(hists, lambda h: llit(h, lambda lr: f"({zlit(lr[0])}, {qlit(lr[1])})"))
    return (f'(sl (fun h -> let ((outs, sf), ef) = M.td7_run {k} M.cstate_init (z "0") h in '
            f'"[" ^ sl (sp sb sz) outs ^ ",[" ^ sz sf.M.c_eps ^ "," ^ sz sf.M.c_ts ^ "," ^ sz sf.M.c_maxeps ^ "," ^ sq sf.M.c_minret '
            f'^ "," ^ sq sf.M.c_best ^ "," ^ sz ef ^ "]]") {hl})')


def main(chk):
    chk.proof_step()
    rng = np.random.default_rng(chk.seed)
    lengths, returns = [1, 2, 5], [F(-2), F(0), F(3)]
    cfgs = [(w, m, t) for w in (F(1, 2), F(1)) for m in (1, 2, 3) for t in (0, 4, 9)]
    maxlen = 3 if chk.tier == "quick" else 5
    pairs = list(itertools.product(lengths, returns))
    base = []
    for L in range(1, maxlen + 1):
        base.extend([list(h) for h in itertools.product(pairs, repeat=L)])
    exhaustive_n = len(base)
    n_rand = 150 if chk.tier == "quick" else 3000
    exprs, recs = [], []
    for cfg in cfgs:
        hists = list(base)
        for _ in range(n_rand):
            L = int(rng.integers(4, 14))
            hists.append([(int(rng.choice([1, 2, 3, 5, 8])), F(int(rng.integers(-8, 9)), int(rng.choice([1, 2, 4])))) for _ in range(L)])
        # adversarial: returns equal to the running best minimum, threshold hit exactly
        hists.append([(cfg[2] or 1, F(1)), (1, F(1)), (1, F(1)), (2, F(1, 2)), (1, F(1))])
        for i in range(0, len(hists), 100):
            recs.append((cfg, hists[i:i + 100]))
            exprs.append(model_expr(cfg, hists[i:i + 100]))
    mres = chk.model_eval(exprs, per_file=2)
    for (cfg, hists), mr in zip(recs, mres):
        for hist, mo in zip(hists, mr):
            outs, states, final = run_impl(cfg, hist)
            chk.case((cfg, tuple(hist)), nontrivial=len(hist) >= 2)
            chk.count("histories")
            chk.count("calls", len(hist))
            chk.count("releases", sum(1 for u, tr in outs if tr > 0))
            chk.count("checkpoints", sum(1 for u, tr in outs if u))
            m_outs, m_final = mo
            m_final = [m_final[0], m_final[1], m_final[2], parse_q(m_final[3]), parse_q(m_final[4]), m_final[5]]
            if outs != m_outs or final != m_final:
                chk.disagree("assess_performance_and_checkpoint", {
                    "reset_weight": str(cfg[0]), "max_episodes": cfg[1], "threshold": cfg[2],
                    "history": [[l, str(r)] for l, r in hist], "impl": [outs, [str(x) for x in final]],
                    "model": [m_outs, [str(x) for x in m_final]]})
            spec_check(chk, cfg, hist, outs, states)
    chk.sample({"config": {"reset_weight": "1/2", "max_episodes": cfgs[0][1], "threshold": cfgs[0][2]},
                "history": [[l, str(r)] for l, r in recs[5][1][50]], "model_output": mres[5][50]})
    # TD7 integration: real train_td7 runs in deferred-training mode on the scripted environment
    import c06
    c06.td7_checkpoint_mode(chk, rng, chk.tier == "quick", prefix="C15", check_release=True)
    return chk.finish(
        rule=f"all histories of 1..{maxlen} episodes over lengths {{1,2,5}} x returns {{-2,0,3}} ({exhaustive_n} histories, enumerated "
             f"exhaustively) plus {n_rand} random histories of 4-13 episodes, each under 18 configurations (reset weight {{1/2,1}} x window "
             f"{{1,2,3}} x threshold {{0,4,9}}); distinct = distinct (configuration, history) with >= 2 episodes; real train_td7 runs in deferred-"
             f"training mode on scripted environments: training epochs executed per iteration = epochs released by the assessment of that iteration, "
             f"checkpoint modules (actor and fixed embedding) change only when the assessment decided an update and then equal the acting policy",
        assumptions=["returns are dyadic so float64 arithmetic (min, multiplication by the reset weight) is exact",
                     "train_td7 integration: training epochs are counted through the logger's record_epoch('embedding') calls, the checkpoint modules are reached by "
                     "recording the DeterministicSALEPolicy objects train_td7 builds (harness/trainrun.py)"],
        extra={"exhaustive_part": f"lengths x returns, up to {maxlen} episodes: {exhaustive_n} histories x 18 configs"})
