"""C06 — target networks follow the Polyak / hard-copy law, only at update points."""
import numpy as np

import loopchecks as lc
import trainrun as tr
from common import flit, llit, nlit, parse_f

# target -> (source module, "pre" = source as it was when the iteration started / "post" = after the iteration's training, rule)
TARGETS = {
    "nature_dqn": [("q_target", "q", "post", "hard")], "ddqn": [("q_target", "q", "post", "hard")], "per": [("q_target", "q", "post", "hard")],
    "ddpg": [("policy_target", "policy", "post", "soft"), ("q_target", "q", "post", "soft")],
    "td3": [("policy_target", "policy", "post", "soft"), ("q_target", "q", "post", "soft")],
    "td3_lap": [("policy_target", "policy", "post", "soft"), ("q_target", "q", "post", "soft")],
    "sac": [("q_target", "q", "post", "soft")],
    # TD7 copies at the end of a training epoch: actor/critic targets from the trained networks, the fixed target embedding from
    # the previous fixed embedding, the fixed embedding from the trained embedding
    "td7": [("actor_target", "actor", "post", "hard"), ("critic_target", "critic", "post", "hard"),
            ("fixed_embedding_target", "fixed_embedding", "pre", "hard"), ("fixed_embedding", "embedding", "post", "hard")],
    # MR.Q copies at the start of a training epoch, before the encoder / critic / policy are trained
    "mrq": [("policy_with_encoder_target", "policy_with_encoder", "pre", "hard"), ("q_target", "q", "pre", "hard")],
}


def due_fn(name, cfg, extra):
    b, ls, start = cfg["batch"], cfg["warm"], cfg["start"]
    if name in ("nature_dqn", "ddqn", "per"):
        tuf = extra["tuf"]
        return (lambda s: s > b and s >= ls and s % tuf == 0), f"(M.due_dqn_family {nlit(b)} {nlit(ls)} {nlit(tuf)})"
    if name == "ddpg":
        return (lambda s: s >= ls), f"(M.due_every_update {nlit(ls)})"
    if name in ("td3", "td3_lap"):
        pd = extra["pd"]
        return (lambda s: s >= ls and s % pd == 0), f"(M.due_delayed {nlit(ls)} {nlit(pd)})"
    if name == "sac":
        d = extra["tnd"]
        return (lambda s: s >= ls and s % d == 0), f"(M.due_delayed {nlit(ls)} {nlit(d)})"
    td = extra["td"]
    return (lambda s: s >= ls and (s - ls + 1) % td == 0), f"(M.due_epoch {nlit(ls)} {nlit(td)})"


def tree_lit(tree):
    return llit(tree, lambda leaf: llit(np.asarray(leaf, dtype=float).reshape(-1), flit))


def law_cases(chk, rng, n):
    """soft / hard update functions on the layer types used as targets"""
    import jax
    import jax.numpy as jnp
    from flax import nnx
    from rl_blox.blox.double_qnet import ContinuousClippedDoubleQNet
    from rl_blox.blox.function_approximator.layer_norm_mlp import LayerNormMLP
    from rl_blox.blox.function_approximator.mlp import MLP
    from rl_blox.blox.target_net import hard_target_net_update, soft_target_net_update
    exprs, recs = [], []

    def make(kind, seed):
        if kind == "mlp":
            return MLP(3, 2, [4], "relu", nnx.Rngs(seed))
        if kind == "lnmlp":
            return LayerNormMLP(3, 2, [4], "elu", rngs=nnx.Rngs(seed))
        if kind == "double_q":
            return ContinuousClippedDoubleQNet(MLP(3, 1, [4], "relu", nnx.Rngs(seed)), MLP(3, 1, [4], "relu", nnx.Rngs(seed + 7)))
        if kind == "tanh_policy":      # online and target heads built for different action boxes: scale / bias are leaves too
            import gymnasium as gym
            from rl_blox.blox.function_approximator.policy_head import DeterministicTanhPolicy
            lo, hi = ((-1.0, -1.0), (1.0, 1.0)) if seed % 2 == 0 else ((-3.0, 0.5), (0.0, 2.5))
            return DeterministicTanhPolicy(MLP(3, 2, [4], "relu", nnx.Rngs(seed)), gym.spaces.Box(np.asarray(lo, dtype=np.float32), np.asarray(hi, dtype=np.float32)))
        from rl_blox.blox.embedding.sale import SALE
        if kind == "sale":
            return SALE(MLP(3, 4, [4], "elu", nnx.Rngs(seed)), MLP(5, 4, [4], "elu", nnx.Rngs(seed + 3)))
        from rl_blox.blox.embedding.model_based_encoder import ModelBasedEncoder
        return ModelBasedEncoder(3, 1, 5, 4, 3, 4, [4], "elu", False, nnx.Rngs(seed))
    kinds = ["mlp", "lnmlp", "double_q", "sale", "encoder", "tanh_policy"]
    for i in range(n):
        kind = kinds[i % len(kinds)]
        online, target = make(kind, 2 * i), make(kind, 2 * i + 1)
        for m in (online, target):   # random (not only initialiser) values, incl. layer-norm scales / biases
            nnx.update(m, jax.tree_util.tree_map(lambda x: x + jnp.asarray(rng.normal(0, 0.5, size=x.shape), dtype=x.dtype), nnx.state(m)))
        tau = [0.0, 0.25, 0.5, 1.0, 0.005][i % 5]
        o0 = [np.array(x) for x in jax.tree_util.tree_leaves(nnx.state(online))]
        t0 = [np.array(x) for x in jax.tree_util.tree_leaves(nnx.state(target))]
        hard = i % 7 == 6
        if hard:
            hard_target_net_update(online, target)
        else:
            soft_target_net_update(online, target, tau)
        o1 = [np.array(x) for x in jax.tree_util.tree_leaves(nnx.state(online))]
        t1 = [np.array(x) for x in jax.tree_util.tree_leaves(nnx.state(target))]
        case = {"module": kind, "tau": "hard" if hard else tau, "n_leaves": len(o0)}
        chk.case(("law", kind, tau, hard, i))
        chk.count("law_" + kind)
        if not all(np.array_equal(a, b) for a, b in zip(o0, o1)):
            chk.fail("C06:target_net_update:online-changed", "the online network was changed by a target update", {"case": case})
        for a, b, c in zip(o0, t0, t1):
            if hard or tau == 1.0:
                ok = np.array_equal(c, a)
            elif tau == 0.0:
                ok = np.array_equal(c, b)
            else:
                ref = tau * a.astype(np.float64) + (1 - tau) * b.astype(np.float64)
                ok = np.allclose(c, ref, rtol=1e-6, atol=1e-7)
            if not ok:
                chk.fail("C06:target_net_update:law", "a target leaf is not tau*online + (1-tau)*target (hard update: not equal to the online leaf)",
                         {"case": case, "online": a.reshape(-1)[:4].tolist(), "target_before": b.reshape(-1)[:4].tolist(), "target_after": c.reshape(-1)[:4].tolist()})
                break
        if not hard:
            exprs.append(f"(sl (sl sf) (M.soft_update float_ops {flit(tau)} {tree_lit(o0)} {tree_lit(t0)}))")
            recs.append((case, t1))
    res = chk.model_eval(exprs, per_file=10)
    for (case, t1), mr in zip(recs, res):
        m = [np.array([parse_f(x) for x in leaf]) for leaf in mr]
        if len(m) != len(t1) or not all(np.allclose(a.reshape(-1), b, rtol=1e-6, atol=1e-7) for a, b in zip(t1, m)):
            chk.disagree("soft_target_net_update", {"case": case})


def clone_cases(chk, rng):
    """targets created inside the routines share no storage with their online networks"""
    import jax
    from flax import nnx
    for name in ("nature_dqn", "ddpg", "td3", "sac"):
        script = [(3, "term")]
        import jax.numpy as jnp
        import optax
        env = tr.HookEnv(script, discrete=3 if name == "nature_dqn" else 0)
        chk.case(("clone", name))
        chk.count("clone_cases")
        if name == "nature_dqn":
            from rl_blox.algorithm.nature_dqn import train_nature_dqn
            from rl_blox.blox.function_approximator.mlp import MLP
            from rl_blox.blox.replay_buffer import ReplayBuffer
            q = MLP(3, 3, [4], "relu", nnx.Rngs(0))
            out = train_nature_dqn(q, env, ReplayBuffer(10, discrete_actions=True), nnx.Optimizer(q, optax.sgd(0.1), wrt=nnx.Param),
                                   batch_size=2, total_timesteps=4, progress_bar=False)
            pairs = [(out.q_net, out.q_target_net)]
        elif name == "ddpg":
            from rl_blox.algorithm.ddpg import create_ddpg_state, train_ddpg
            st = create_ddpg_state(env, policy_hidden_nodes=[4], q_hidden_nodes=[4])
            out = train_ddpg(env, st.policy, st.policy_optimizer, st.q, st.q_optimizer, total_timesteps=4, batch_size=2, learning_starts=2, progress_bar=False)
            pairs = [(out.policy, out.policy_target), (out.q, out.q_target)]
        elif name == "td3":
            from rl_blox.algorithm.td3 import create_td3_state, train_td3
            st = create_td3_state(env, policy_hidden_nodes=[4], q_hidden_nodes=[4])
            out = train_td3(env, st.policy, st.policy_optimizer, st.q, st.q_optimizer, total_timesteps=4, batch_size=2, learning_starts=2, progress_bar=False)
            pairs = [(out.policy, out.policy_target), (out.q, out.q_target)]
        else:
            from rl_blox.algorithm.sac import create_sac_state, train_sac
            st = create_sac_state(env, policy_hidden_nodes=[4], q_hidden_nodes=[4])
            out = train_sac(env, st.policy, st.policy_optimizer, st.q, st.q_optimizer, total_timesteps=4, batch_size=2, learning_starts=2, progress_bar=False)
            pairs = [(out.q, out.q_target)]
        for online, target in pairs:
            vo = {id(v) for _, v in nnx.iter_graph(online) if isinstance(v, nnx.Variable)}
            vt = {id(v) for _, v in nnx.iter_graph(target) if isinstance(v, nnx.Variable)}
            if vo & vt:
                chk.fail(f"C06:train_{name}:shared-storage", "a target network created by the routine shares variables with its online network", {"routine": name})
                continue
            before = [np.array(x) for x in jax.tree_util.tree_leaves(nnx.state(online))]
            nnx.update(target, jax.tree_util.tree_map(lambda x: x + 1.0, nnx.state(target)))
            after = [np.array(x) for x in jax.tree_util.tree_leaves(nnx.state(online))]
            if not all(np.array_equal(a, b) for a, b in zip(before, after)):
                chk.fail(f"C06:train_{name}:shared-storage", "writing the target network changed the online network", {"routine": name})


def follows(kind, tau, src, t0, t1):
    if kind == "hard":
        return all(np.array_equal(a, b) for a, b in zip(src, t1))
    return all(np.allclose(c, tau * a.astype(np.float64) + (1 - tau) * b.astype(np.float64), rtol=1e-5, atol=1e-6) for a, b, c in zip(src, t0, t1))


def gen_learning(rng, name, quick):
    """configurations in which training (and hence target updates) actually happens"""
    while True:
        cfg = lc.gen_config(rng, name, quick)
        if name in ("nature_dqn", "ddqn", "per") and not (cfg["total"] >= 12 and cfg["start"] <= 3 and cfg["warm"] <= 4):
            continue      # two periods (update, target copy): the run must reach a copy point that follows an update and is not a common multiple
        if cfg["total"] - cfg["start"] >= 6 and cfg["warm"] <= cfg["start"] + 4:
            return cfg


def cadence(chk, rng, q):
    exprs, recs = [], []
    per = 4 if q else 30
    for name in TARGETS:
        # the two periodic settings of a routine are cycled through co-prime, nested and equal pairs (a documented update point that
        # is not a multiple of the other period must still be an update point)
        pairs, state = [(2, 3), (3, 2), (2, 1), (1, 3), (1, 1), (3, 3)], {"k": 0}

        def gen(g, name_, quick_):
            cfg = gen_learning(g, name_, quick_)
            cfg["uf"] = pairs[state["k"] % len(pairs)][0] if name_ in ("nature_dqn", "ddqn", "per") else cfg["uf"]
            return cfg

        def draw(g):
            a, b = pairs[state["k"] % len(pairs)]
            state["k"] += 1
            tau = [0.25, 0.125, 0.75, 0.5, 1.0, 0.25][(state["k"] - 1) % len(pairs)]     # tau = 1 hides how often a soft update is applied
            return {"tuf": b, "pd": a, "tnd": b, "td": b, "tau": tau}
        rs = lc.collect(chk, rng, [name], per, quick=True, extra=draw, gen=gen)
        for r in rs:
            res, cfg, case, extra = r["res"], r["cfg"], lc.case_of(r), r["extra"]
            case.update({k: extra[k] for k in extra})
            if res is None or res["raised"]:
                continue
            n = len(tr.step_events(res))
            start = cfg["start"]
            due, due_ml = due_fn(name, cfg, extra)
            snaps = res["snaps"]
            for target, source, when, kind in TARGETS[name]:
                for i in range(n):
                    s_ = start + i
                    t0, t1 = snaps[i][target], snaps[i + 1][target]
                    if not due(s_):
                        if not tr.same(t0, t1):
                            chk.fail(f"C06:train_{name}:cadence", f"{target} changed in an iteration that is not a documented update point",
                                     {"case": case, "target": target, "step": s_, "documented_update_steps": [x for x in range(start, start + n) if due(x)]})
                            break
                        continue
                    src = snaps[i][source] if when == "pre" else snaps[i + 1][source]
                    if not follows(kind, extra["tau"], src, t0, t1):
                        chk.fail(f"C06:train_{name}:law", f"{target} does not follow the documented {'hard copy' if kind == 'hard' else 'Polyak'} rule at an update point",
                                 {"case": case, "target": target, "step": s_, "source": source, "source_taken": when})
                        break
                    chk.count("update_points_checked")
                    if not tr.same(t0, t1):
                        chk.count("update_points_with_visible_change")
            exprs.append(f"(sl sn (List.filter {due_ml} {llit(range(start, start + n), nlit)}))")
            recs.append((case, [s_ for s_ in range(start, start + n) if due(s_)]))
            chk.count("cadence_runs_" + name)
    res = chk.model_eval(exprs)
    for (case, exp), mr in zip(recs, res):
        if mr != exp:
            chk.disagree("cadence-predicate", {"case": case, "harness": exp, "model": mr})


class SnapLogger:
    """duck-typed logger: snapshots every module after each TD7 training epoch (record_epoch receives the live modules)"""

    def __init__(self, mods, out):
        self.mods, self.out, self.snapshot = mods, out, tr.snapshot

    def start_new_episode(self):
        pass

    def stop_episode(self, *a, **k):
        pass

    def record_stat(self, *a, **k):
        pass

    def record_epoch(self, key, value, **k):
        if key == "embedding":
            self.out.append(("epoch", self.snapshot(self.mods)))

    def __getattr__(self, name):
        return lambda *a, **k: None


def td7_checkpoint_mode(chk, rng, q, prefix="C06", check_release=False, check_warmup=False):
    """TD7 with deferred training: target cadence counted in training epochs, checkpoint copies only when decided"""
    for _ in range(2 if q else 20):
        script = [(int(rng.choice([1, 2, 3])), str(rng.choice(["term", "trunc"]))) for _ in range(3)]
        total, warm, td = int(rng.choice([10, 14])), int(rng.choice([0, 3]) if not check_warmup else rng.choice([5, 8])), int(rng.choice([2, 3]))
        case = {"routine": "td7", "use_checkpoints": True, "script": script, "total_timesteps": total, "learning_starts": warm, "target_delay": td}
        seq = []
        mods_ref = {}
        logger = SnapLogger(mods_ref, seq)
        orig_snapshot = tr.snapshot

        def snap(mods):      # the environment hook's snapshots, interleaved with the logger's in one sequence
            mods_ref.update(mods)
            sn = orig_snapshot(mods)
            seq.append(("step", sn))
            return sn
        tr.snapshot = snap
        try:
            res = tr.run("td7", script, total, warm=warm, seed=int(rng.integers(0, 1000)),
                         extra={"td": td, "pd": 2, "use_checkpoints": True, "logger": logger, "max_eps": 2, "steps_before": 5})
        finally:
            tr.snapshot = orig_snapshot
        chk.case(("td7-checkpoints", str(case)))
        chk.count("td7_checkpoint_runs")
        if res["raised"]:
            continue
        decisions = {i: upd for i, upd, _ in res["checkpoint_decisions"]}
        epoch, it = 0, -1
        for (k0, a), (k1, b) in zip(seq, seq[1:]):
            if k0 == "step":
                it += 1
            if k1 == "epoch":
                epoch += 1
                due = epoch % td == 0
                for target, source, when, kind in TARGETS["td7"]:
                    if not due:
                        if not tr.same(a[target], b[target]):
                            chk.fail(f"{prefix}:train_td7:cadence", f"{target} changed in a training epoch that is not a multiple of target_delay", {"case": case, "epoch": epoch})
                    elif not follows("hard", None, (a if when == "pre" else b)[source], a[target], b[target]):
                        chk.fail(f"{prefix}:train_td7:law", f"{target} is not the documented hard copy after epoch {epoch}", {"case": case, "epoch": epoch})
                    else:
                        chk.count("update_points_checked")
            else:
                for target in ("actor_target", "critic_target", "fixed_embedding", "fixed_embedding_target"):
                    if not tr.same(a[target], b[target]):
                        chk.fail(f"{prefix}:train_td7:cadence", f"{target} changed outside a training epoch", {"case": case, "iteration": it})
        if check_warmup:       # no training epoch and no parameter change in iterations before learning_starts, although episodes end there
            it3, early, ended_before = -1, 0, 0
            for k_, _ in seq:
                if k_ == "step":
                    it3 += 1
                elif it3 < warm:
                    early += 1
            steps_ = [sn for k_, sn in seq if k_ == "step"]
            changed = [n_ for i_ in range(min(warm, len(steps_) - 1)) for n_ in steps_[i_] if not tr.same(steps_[i_][n_], steps_[i_ + 1][n_])]
            ended_before = sum(1 for e in tr.step_events(res)[:warm] if e[5] or e[6])
            chk.count("td7_episodes_ended_during_warmup", ended_before)
            if early or changed:
                chk.fail(f"{prefix}:train_td7:update-before-warmup", "TD7 in deferred-training mode trained before learning_starts was reached",
                         {"case": case, "training_epochs_before_warmup": early, "modules_changed_before_warmup": sorted(set(changed))})
        if check_release:      # the training epochs executed in an iteration are exactly those released by the assessment of that iteration
            released = {i: n for i, _, n in res["checkpoint_decisions"]}
            per_it, it2 = {}, -1
            for k_, _ in seq:
                if k_ == "step":
                    it2 += 1
                else:
                    per_it[it2] = per_it.get(it2, 0) + 1
            for i in sorted(set(per_it) | set(released)):
                if per_it.get(i, 0) != released.get(i, 0):
                    chk.fail(f"{prefix}:train_td7:released-epochs", "the training epochs executed after an episode differ from the number released by the assessment",
                             {"case": case, "iteration": i, "executed": per_it.get(i, 0), "released": released.get(i, 0)})
                    break
            if released:
                chk.count("td7_release_points_checked", len(released))
        # checkpoint copies: between two environment steps they change only when the assessment said so, to the policy as it was then
        steps = [sn for k, sn in seq if k == "step"]
        for i in range(len(steps) - 1):
            a, b = steps[i], steps[i + 1]
            changed = not (tr.same(a["actor_checkpoint"], b["actor_checkpoint"]) and tr.same(a["fixed_embedding_checkpoint"], b["fixed_embedding_checkpoint"]))
            if changed and not decisions.get(i, False):
                chk.fail(f"{prefix}:train_td7:checkpoint-cadence", "the checkpoint copy changed although no checkpoint update was decided", {"case": case, "iteration": i})
            if decisions.get(i, False):
                chk.count("checkpoint_updates_checked")
                if not (tr.same(a["actor"], b["actor_checkpoint"]) and tr.same(a["fixed_embedding"], b["fixed_embedding_checkpoint"])):
                    chk.fail(f"{prefix}:train_td7:checkpoint-law", "the checkpoint is not a copy of the acting policy (actor and fixed embedding) it was decided for",
                             {"case": case, "iteration": i})


def gradient_step_mode(chk, rng, q):
    """DDPG / TD3 / TD3+LAP with several gradient steps per environment step: one snapshot per gradient step (the logger receives the
    live modules), targets follow the Polyak law at every gradient step of a due environment step and stay unchanged otherwise"""
    for name in ("ddpg", "td3", "td3_lap"):
        for rep in range(1 if q else 6):
            script = [(int(rng.choice([2, 3, 5])), str(rng.choice(["term", "trunc"]))) for _ in range(3)]
            total, warm = int(rng.choice([8, 10])), int(rng.choice([0, 3]))
            G, pd, tau = int([2, 3][rep % 2]), int([2, 1, 3][rep % 3]), float([0.25, 0.5, 0.125][rep % 3])
            case = {"routine": name, "script": script, "total_timesteps": total, "learning_starts": warm, "gradient_steps": G, "policy_delay": pd, "tau": tau}
            seq, mods_ref = [], {}
            logger = SnapLogger(mods_ref, seq)
            logger.record_epoch = lambda key, value, _l=logger, **k: _l.out.append(("epoch", _l.snapshot(_l.mods))) if key == "q" else None
            orig_snapshot = tr.snapshot

            def snap(mods):
                mods_ref.update(mods)
                sn = orig_snapshot(mods)
                seq.append(("step", sn))
                return sn
            tr.snapshot = snap
            try:
                res = tr.run(name, script, total, warm=warm, seed=int(rng.integers(0, 1000)),
                             extra={"pd": pd, "tau": tau, "logger": logger, "kw": {"gradient_steps": G}})
            finally:
                tr.snapshot = orig_snapshot
            chk.case(("gradient-steps", str(case)))
            chk.count("gradient_step_runs")
            if res["raised"]:
                continue
            due = (lambda s_: s_ >= warm) if name == "ddpg" else (lambda s_: s_ >= warm and s_ % pd == 0)
            it, per_it = -1, {}
            for (k0, a), (k1, b) in zip(seq, seq[1:]):
                if k0 == "step":
                    it += 1
                if k1 == "epoch":
                    per_it[it] = per_it.get(it, 0) + 1
                    for target, source, when, kind in TARGETS[name]:
                        if due(it):
                            ok = follows("soft", tau, b[source], a[target], b[target])
                        else:
                            ok = tr.same(a[target], b[target])
                        if not ok:
                            chk.fail(f"C06:train_{name}:gradient-step-law", f"{target} does not follow the documented rule at a gradient step (Polyak step at "
                                     "every gradient step of an update point, unchanged otherwise)", {"case": case, "env_step": it, "gradient_step": per_it[it]})
                            break
                    chk.count("gradient_steps_checked")
                else:
                    for target, _, _, _ in TARGETS[name]:
                        if not tr.same(a[target], b[target]):
                            chk.fail(f"C06:train_{name}:gradient-step-law", f"{target} changed outside a gradient step", {"case": case, "env_step": it})
            n_steps = len(tr.step_events(res))
            for i in range(n_steps):
                if per_it.get(i, 0) != (G if i >= warm else 0):
                    chk.fail(f"C06:train_{name}:gradient-steps", "the number of gradient steps in an iteration differs from the configured gradient_steps",
                             {"case": case, "env_step": i, "observed": per_it.get(i, 0)})
                    break


def main(chk):
    chk.proof_step()
    rng = np.random.default_rng(chk.seed)
    q = chk.tier == "quick"
    law_cases(chk, rng, 35 if q else 700)
    clone_cases(chk, rng)
    cadence(chk, rng, q)
    td7_checkpoint_mode(chk, rng, q)
    gradient_step_mode(chk, rng, q)
    chk.sample({"note": "laws: MLP / LayerNorm MLP / double-Q / SALE / model-based encoder trees with perturbed values, tau in {0, 1/4, 1/2, 1, 0.005} and "
                        "hard copies; cadence: snapshots of online and target parameters at every env.step of scripted training runs"})
    return chk.finish(
        rule="soft / hard update functions on five module types (every leaf compared with tau*online+(1-tau)*target and with the extracted "
             "Coq soft_update; online bitwise unchanged); nnx.clone targets created by nature_dqn / ddpg / td3 / sac share no variables; for "
             "nature_dqn, ddqn, per, ddpg, td3, td3_lap, sac, td7 (incl. fixed embeddings), mrq: in every iteration that is not a documented "
             "update point (the Coq due_* predicates) each target is bitwise unchanged, and at every update point it equals the hard copy / "
             "Polyak step of its source; TD7 with deferred training: cadence counted in training epochs via logger snapshots, checkpoint "
             "copies change only when assess_performance_and_checkpoint decided so and equal the acting policy",
        assumptions=["Flax nnx.update / optax.incremental_update trusted as executed (their results are compared leaf by leaf)", "float32 tolerance 1e-6 (laws), 1e-5 (training runs)",
                     "TD7's fixed embeddings and checkpoint copies are reached by recording the DeterministicSALEPolicy objects train_td7 builds (harness-side patch, no repository hook)"])
