"""C13 — policy heads: sampling, log-probability and entropy describe one distribution;
greedy / epsilon-greedy selection."""
import math

import numpy as np

from common import flit, llit, nlit, parse_f

C2PI = 0.5 * math.log(2 * math.pi)


def fl(xs):
    return llit(np.asarray(xs, dtype=float).reshape(-1), flit)


def close(a, b, rtol=2e-5, atol=2e-6):
    return np.allclose(np.asarray(a, dtype=float), np.asarray(b, dtype=float), rtol=rtol, atol=atol)


def set_linear(layer, rng, scale=1.0):
    import jax.numpy as jnp
    k = np.asarray(layer.kernel.value)
    layer.kernel.value = jnp.asarray((rng.normal(0, scale, size=k.shape)).astype(np.float32))
    layer.bias.value = jnp.asarray((rng.normal(0, scale, size=np.asarray(layer.bias.value).shape)).astype(np.float32))


def obs_shapes(rng, od):
    """unbatched observation and batches of 1..5"""
    shapes = [None] + [int(b) for b in range(1, 6)]
    b = shapes[int(rng.integers(0, len(shapes)))]
    if b is None:
        return None, rng.normal(0, 1, size=(od,)).astype(np.float32)
    return b, rng.normal(0, 1, size=(b, od)).astype(np.float32)


def softmax_cases(chk, rng, n):
    import jax
    import jax.numpy as jnp
    from flax import nnx
    from rl_blox.blox.function_approximator.mlp import MLP
    from rl_blox.blox.function_approximator.policy_head import SoftmaxPolicy
    exprs, recs = [], []
    for i in range(n):
        od, A = 3, int(rng.integers(2, 5))
        net = MLP(od, A, [], "relu", nnx.Rngs(0))
        set_linear(net.output_layer, rng, scale=[1.0, 30.0, 0.01][i % 3])     # extreme logits included
        pol = SoftmaxPolicy(net)
        b, obs = obs_shapes(rng, od)
        o = jnp.asarray(obs)
        case = {"head": "softmax", "batch": b, "n_actions": A, "obs": obs.tolist()}
        ok, out = chk.impl_call("C13:SoftmaxPolicy:raised", case, lambda: (
            np.asarray(pol(o), dtype=float), np.asarray(pol.logits(o), dtype=float), np.asarray(pol.entropy(o), dtype=float),
            np.asarray(pol.sample(o, jax.random.key(i))),))
        chk.case(("softmax", b, A, obs.tobytes()), nontrivial=True)
        chk.count("softmax_cases")
        chk.count("unbatched" if b is None else f"batch_{b}")
        if not ok:
            continue
        probs, logits, ent, samp = out
        rows = logits.reshape(-1, A)
        acts = rng.integers(0, A, size=rows.shape[0])
        a_in = jnp.asarray(acts if b is not None else acts[0])
        ok, lp = chk.impl_call("C13:SoftmaxPolicy:raised", case, lambda: np.asarray(pol.log_probability(o, a_in), dtype=float))
        if not ok:
            continue
        # closed-form float64 reference
        z = rows - rows.max(axis=1, keepdims=True)
        p = np.exp(z) / np.exp(z).sum(axis=1, keepdims=True)
        lsm = z - np.log(np.exp(z).sum(axis=1, keepdims=True))
        if not (close(probs.reshape(-1, A), p) and (probs >= 0).all() and close(probs.reshape(-1, A).sum(axis=1), 1.0)):
            chk.fail("C13:SoftmaxPolicy:probabilities", "action probabilities are not the softmax of the logits / do not sum to one",
                     {"case": case, "impl": probs.tolist()})
        if not close(lp.reshape(-1), lsm[np.arange(rows.shape[0]), acts], rtol=1e-4, atol=1e-5):
            chk.fail("C13:SoftmaxPolicy:log-probability", "log-probability is not the log of the selected softmax entry",
                     {"case": case, "actions": acts.tolist(), "impl": lp.tolist()})
        if not close(ent.reshape(-1), -(p * lsm).sum(axis=1), rtol=1e-4, atol=1e-5):
            chk.fail("C13:SoftmaxPolicy:entropy", "entropy is not -sum p log p of the softmax probabilities", {"case": case, "impl": ent.tolist()})
        if not np.all((np.asarray(samp).reshape(-1) >= 0) & (np.asarray(samp).reshape(-1) < A)):
            chk.fail("C13:SoftmaxPolicy:sample-range", "sampled action outside 0..A-1", {"case": case, "sample": np.asarray(samp).tolist()})
        exprs.append('(sl (fun (lg, a) -> "[" ^ sl sf (M.softmax float_ops lg) ^ "," ^ sf (M.cat_logprob float_ops lg a) ^ "," ^ sf (M.cat_entropy float_ops lg) ^ "]") '
                     + llit(list(zip(rows, acts)), lambda ra: f"({fl(ra[0])}, {nlit(ra[1])})") + ")")
        recs.append((case, probs.reshape(-1, A), lp.reshape(-1), ent.reshape(-1)))
    res = chk.model_eval(exprs, per_file=60)
    for (case, probs, lp, ent), mr in zip(recs, res):
        mp = np.array([[parse_f(x) for x in r[0]] for r in mr])
        ml = np.array([parse_f(r[1]) for r in mr])
        me = np.array([parse_f(r[2]) for r in mr])
        if not (close(probs, mp) and close(lp, ml, rtol=1e-4, atol=1e-5) and close(ent, me, rtol=1e-4, atol=1e-5)):
            chk.disagree("SoftmaxPolicy", {"case": case, "impl": [probs.tolist(), lp.tolist(), ent.tolist()], "model": mr})


def gaussian_cases(chk, rng, n):
    import gymnasium as gym
    import jax
    import jax.numpy as jnp
    from flax import nnx
    from rl_blox.blox.function_approximator.gaussian_mlp import GaussianMLP
    from rl_blox.blox.function_approximator.policy_head import GaussianPolicy, GaussianTanhPolicy
    exprs, recs = [], []
    for i in range(n):
        od, ad = 3, int(rng.integers(1, 4))
        shared = bool(i % 2)
        net = GaussianMLP(shared, od, ad, [], "relu", nnx.Rngs(0))
        for layer in net.output_layers:
            set_linear(layer, rng, scale=[1.0, 40.0][i % 2])       # log-variances far beyond the clipping range too
        kind = "gaussian" if i % 3 else "tanh_gaussian"
        low = rng.uniform(-3, -0.5, size=ad).astype(np.float32)
        high = (low + rng.uniform(0.5, 4, size=ad)).astype(np.float32)
        pol = GaussianPolicy(net) if kind == "gaussian" else GaussianTanhPolicy(net, gym.spaces.Box(low, high, dtype=np.float32))
        b, obs = obs_shapes(rng, od)
        o = jnp.asarray(obs)
        case = {"head": kind, "batch": b, "action_dim": ad, "shared_head": shared, "obs": obs.tolist()}
        chk.case((kind, b, ad, obs.tobytes()), nontrivial=True)
        chk.count(kind + "_cases")
        chk.count("unbatched" if b is None else f"batch_{b}")
        mean_raw, logvar = (np.asarray(x, dtype=float) for x in net(o))
        if kind == "gaussian":
            mean = mean_raw
        else:
            mean = np.tanh(mean_raw) * (high.astype(float) - low) / 2 + (high.astype(float) + low) / 2
        std = np.exp(np.clip(0.5 * logvar, -20.0, 2.0))
        act = (mean + rng.normal(0, 1, size=mean.shape) * np.minimum(std, 2.0)).astype(np.float32)
        key = jax.random.key(i)
        ok, out = chk.impl_call(f"C13:{kind}:raised", case, lambda: (
            np.asarray(pol.log_probability(o, jnp.asarray(act)), dtype=float), np.asarray(pol.entropy(o), dtype=float),
            np.asarray(pol.sample(o, key), dtype=float)))
        if not ok:
            continue
        lp, ent, samp = out
        ref_lp = (-np.log(std) - C2PI - 0.5 * ((act - mean) / std) ** 2).sum(axis=-1)
        ref_ent = 0.5 + C2PI + np.log(std)
        well = std.min() > 1e-2      # (a - mean) / std is ill-conditioned in float32 for tiny std: compare only well-conditioned cases
        if well and not close(lp, ref_lp, rtol=2e-4, atol=2e-4):
            chk.fail(f"C13:{kind}:log-probability", "log-probability is not the closed-form diagonal-Gaussian log-density of mean and clipped std",
                     {"case": case, "impl": np.asarray(lp).tolist(), "expected": ref_lp.tolist()})
        if ent.shape != ref_ent.shape or not close(ent, ref_ent, rtol=1e-4, atol=1e-4):
            chk.fail(f"C13:{kind}:entropy", "entropy is not the per-dimension Gaussian entropy 0.5 + 0.5 ln(2 pi) + ln std",
                     {"case": case, "impl": np.asarray(ent).tolist(), "expected": ref_ent.tolist()})
        # standardised-noise invariance: same key, another policy (different mean / scale) -> same noise
        net2 = GaussianMLP(shared, od, ad, [], "relu", nnx.Rngs(1))
        for layer in net2.output_layers:
            set_linear(layer, rng, scale=0.5)
        pol2 = GaussianPolicy(net2) if kind == "gaussian" else GaussianTanhPolicy(net2, gym.spaces.Box(low, high, dtype=np.float32))
        m2r, lv2 = (np.asarray(x, dtype=float) for x in net2(o))
        m2 = m2r if kind == "gaussian" else np.tanh(m2r) * (high.astype(float) - low) / 2 + (high.astype(float) + low) / 2
        s2 = np.exp(np.clip(0.5 * lv2, -20.0, 2.0))
        samp2 = np.asarray(pol2.sample(o, key), dtype=float)
        z1, z2 = (samp - mean) / std, (samp2 - m2) / s2
        # where standardisation is well conditioned in float32: (sample - mean) carries an absolute error of about ulp(|mean|), so the
        # standardised noise is only meaningful when std is well above |mean| * 2^-23
        sel = (std > 1e-3 + 1e-4 * np.abs(mean)) & (s2 > 1e-3 + 1e-4 * np.abs(m2)) & (std < 5) & (s2 < 5)
        if sel.any() and not np.allclose(z1[sel], z2[sel], atol=2e-3):
            chk.fail(f"C13:{kind}:sample-noise", "samples for one key are not mean + std * (the same key-determined standard noise)",
                     {"case": case, "z1": z1.tolist(), "z2": z2.tolist()})
        rows_m, rows_lv, rows_a = mean.reshape(-1, ad), logvar.reshape(-1, ad), act.astype(float).reshape(-1, ad)
        exprs.append('(sl (fun ((m, lv), a) -> "[" ^ sf (M.gauss_logpdf float_ops ' + flit(C2PI) + ' m lv a) ^ "," ^ sl sf (M.gauss_entropy float_ops ' + flit(C2PI) + ' lv) ^ "]") '
                     + llit(list(zip(rows_m, rows_lv, rows_a)), lambda r: f"(({fl(r[0])}, {fl(r[1])}), {fl(r[2])})") + ")")
        recs.append((case, np.asarray(lp).reshape(-1), np.asarray(ent).reshape(-1, ad), well))
    res = chk.model_eval(exprs, per_file=60)
    for (case, lp, ent, well), mr in zip(recs, res):
        ml = np.array([parse_f(r[0]) for r in mr])
        me = np.array([[parse_f(x) for x in r[1]] for r in mr])
        if not ((not well or close(lp, ml, rtol=2e-4, atol=2e-4)) and close(ent, me, rtol=1e-4, atol=1e-4)):
            chk.disagree(case["head"], {"case": case, "impl": [lp.tolist(), ent.tolist()], "model": mr})


def greedy_cases(chk, rng, n):
    import jax
    import jax.numpy as jnp
    from flax import nnx
    from rl_blox.blox import value_policy as vp
    from rl_blox.blox.function_approximator.mlp import MLP
    from rl_blox.blox.q_policy import greedy_policy as greedy_net
    for i in range(n):
        ns, na = int(rng.integers(2, 6)), int(rng.integers(2, 5))
        t = (rng.integers(-8, 9, size=(ns, na)) / 4).astype(np.float32)
        if i % 3 == 0:
            t[int(rng.integers(0, ns))] = 1.0       # ties: first maximiser
        s = int(rng.integers(0, ns))
        case = {"table": t.tolist(), "state": s}
        chk.case(("greedy", t.tobytes(), s))
        chk.count("greedy_cases")
        g = int(vp.greedy_policy(jnp.asarray(t), s))
        if t[s, g] != t[s].max() or g != int(np.argmax(t[s])):
            chk.fail("C13:greedy_policy:maximiser", "greedy selection did not return the (first) maximiser", {"case": case, "action": g})
        for k in range(4):
            key = jax.random.key(1000 * i + k)
            a0 = int(vp.epsilon_greedy_policy(jnp.asarray(t), s, 0.0, key))
            if a0 != g:
                chk.fail("C13:epsilon_greedy_policy:eps0", "epsilon-greedy with epsilon 0 is not greedy", {"case": case, "action": a0})
            t2 = (rng.integers(-8, 9, size=(ns, na)) / 4).astype(np.float32)
            a1, a1b = int(vp.epsilon_greedy_policy(jnp.asarray(t), s, 1.0, key)), int(vp.epsilon_greedy_policy(jnp.asarray(t2), s, 1.0, key))
            if a1 != a1b or not 0 <= a1 < na:
                chk.fail("C13:epsilon_greedy_policy:eps1", "epsilon-greedy with epsilon 1 depends on the values", {"case": case, "actions": [a1, a1b]})
        q = MLP(3, na, [], "relu", nnx.Rngs(0))
        set_linear(q.output_layer, rng)
        obs = rng.normal(0, 1, size=3).astype(np.float32)
        qv = np.asarray(q(jnp.asarray([obs])), dtype=float).reshape(-1)
        gn = int(greedy_net(q, obs))
        if gn != int(np.argmax(qv)):
            chk.fail("C13:q_policy.greedy_policy:maximiser", "network greedy policy did not return the arg-max action", {"obs": obs.tolist(), "q": qv.tolist(), "action": gn})


def main(chk):
    chk.proof_step()
    rng = np.random.default_rng(chk.seed)
    q = chk.tier == "quick"
    softmax_cases(chk, rng, 36 if q else 1500)
    gaussian_cases(chk, rng, 48 if q else 2000)
    greedy_cases(chk, rng, 20 if q else 800)
    import c13_loops
    c13_loops.run(chk, rng, q)
    c13_loops.run_tabular(chk, rng, q)
    chk.sample({"note": "heads on single-layer networks with random weights (logit scale 0.01 / 1 / 30, log-variance scale 1 / 40), unbatched "
                        "observation and batch sizes 1-5, action dimensions 1-3; greedy on tables with ties"})
    return chk.finish(
        rule="SoftmaxPolicy / GaussianPolicy / GaussianTanhPolicy: __call__, log_probability, entropy, sample on unbatched and batched "
             "observations vs closed-form float64 references and vs the extracted model; standardised-noise invariance across two "
             "policies for one key; tabular greedy / epsilon-greedy (epsilon 0 and 1) and the network greedy policy",
        assumptions=["TFP distributions trusted as executed (their outputs are compared with closed forms)", "float32 tolerance 1e-4",
                     "the exploration rule of the DQN-family loops (roll < scheduled epsilon, or step < learning_starts) is the Coq dqn_choice compared step by step with the real loops on recorded rolls (harness/c13_loops.py); the distribution of the rolls is not checked"])
