"""C13, loop part: the DQN-family training loops act greedily on their current estimate except
with the scheduled exploration probability.  Runs the real routines on the scripted environment,
records the uniform rolls they draw, every action_space.sample() and every greedy_policy call
(with the Q-values of the network at that moment), and compares each step's choice with the
documented rule and with the extracted Coq dqn_choice."""
import numpy as np

import loopchecks as lc
import trainrun as tr
from common import flit, llit, nlit

ROUTINES = ["dqn", "nature_dqn", "ddqn", "per"]


def eps_ref(total, start=1.0, end=0.1, fraction=0.1):
    n = int(total * fraction)
    out = np.ones(total) * end
    out[:n] = np.linspace(start, end, n)      # as documented: linear from start to end over the first fraction of the steps
    return out


def run(chk, rng, quick):
    import jax
    exprs, recs = [], []
    for name in ROUTINES:
        for _ in range(2 if quick else 12):
            total = int(rng.choice([30, 40]))
            start = int(rng.choice([0, 12]))          # a continued run: the schedule and the rolls are indexed by the global step
            warm = int(rng.choice([0, 5])) if name != "dqn" else 0
            script = [(int(rng.choice([2, 3, 5])), str(rng.choice(["term", "trunc"]))) for _ in range(3)]
            rolls, calls = [], []
            orig_uniform = jax.random.uniform

            def uniform(key, shape=(), *a, _o=orig_uniform, **k):
                out = _o(key, shape, *a, **k)
                if len(tuple(shape)) == 1 and tuple(shape)[0] >= 2 and not rolls:      # the per-step exploration rolls of the call
                    rolls.append(np.asarray(out, dtype=np.float64))
                return out
            jax.random.uniform = uniform
            mods_ref = {}
            gp = lc._patch_greedy(name, calls, online=lambda: mods_ref["q"])
            try:
                res = tr.run(name, script, total, start=start, warm=warm, seed=int(rng.integers(0, 1000)), extra={"uf": 1, "tuf": int(rng.choice([3, 7])), "mods_ref": mods_ref})
            finally:
                jax.random.uniform = orig_uniform
                lc._unpatch_greedy(gp)
            case = {"routine": name, "script": script, "total_timesteps": total, "learning_starts": warm, "global_step": start}
            chk.case(("c13-loop", str(case)))
            chk.count("loop_runs_" + name)
            if res["raised"] or not rolls:
                chk.disagree("dqn-loop-observation", {"case": case, "what": "the run raised or drew no per-step uniform rolls", "raised": res["raised"]})
                continue
            eps = eps_ref(total)
            sampled, step, gi = False, start, 0
            for e in res["log"]:
                if e[0] == "sample":
                    sampled = True
                elif e[0] == "step":
                    a_env = int(np.asarray(e[2]).reshape(-1)[0])
                    if step >= len(rolls[0]):
                        chk.fail(f"C13:train_{name}:exploration-rule", "the loop drew no exploration roll for this step (fewer rolls than steps of the schedule): "
                                 "its decision cannot follow roll(step) < epsilon(step)", {"case": case, "step": step, "rolls_drawn": len(rolls[0])})
                        break
                    margin = abs(rolls[0][step] - eps[step])
                    expect_explore = step < warm or rolls[0][step] < eps[step]
                    if margin > 1e-6 and sampled != expect_explore:
                        chk.fail(f"C13:train_{name}:exploration-rule", "the loop explored / acted greedily against the scheduled rule roll < epsilon(step) (or step < learning_starts)",
                                 {"case": case, "step": step, "roll": float(rolls[0][step]), "epsilon": float(eps[step]), "sampled_random_action": sampled})
                        break
                    if not sampled:
                        if gi >= len(calls):
                            chk.fail(f"C13:train_{name}:greedy-call", "an action was neither sampled nor produced by the greedy policy", {"case": case, "step": step})
                            break
                        obs, a, qv = calls[gi]
                        gi += 1
                        if a != a_env or qv[a] < qv.max() or not np.array_equal(np.asarray(obs).reshape(-1), np.asarray(e[1]).reshape(-1)):
                            chk.fail(f"C13:train_{name}:greedy-action", "the action sent to the environment is not a maximiser of the online network's current Q-values at the current observation",
                                     {"case": case, "step": step, "q_values": qv.tolist(), "greedy_action": a, "env_action": a_env})
                            break
                        chk.count("greedy_steps")
                        if margin > 1e-6 and np.sum(qv == qv.max()) == 1:
                            exprs.append(f"(sn (M.dqn_choice float_ops {nlit(step)} {nlit(warm)} {flit(float(rolls[0][step]))} {flit(float(eps[step]))} {nlit(99)} {llit(qv.tolist(), flit)}))")
                            recs.append((case, step, a_env))
                    else:
                        chk.count("explore_steps")
                        if margin > 1e-6:
                            exprs.append(f"(sn (M.dqn_choice float_ops {nlit(step)} {nlit(warm)} {flit(float(rolls[0][step]))} {flit(float(eps[step]))} {nlit(99)} {llit([0.0, 1.0, 0.5], flit)}))")
                            recs.append((case, step, 99))
                    sampled = False
                    step += 1
    res = chk.model_eval(exprs, per_file=200)
    for (case, step, a), m in zip(recs, res):
        if m != a:
            chk.disagree("dqn_choice", {"case": case, "step": step, "impl": a, "model": m})


def run_tabular(chk, rng, quick):
    """tabular loops with epsilon = 0 on the scripted discrete environment (self-transitions and changing arg-max rows occur)"""
    import tabruns
    for name in ("q_learning", "sarsa", "monte_carlo"):
        for _ in range(3 if quick else 30):
            script = [(int(rng.choice([3, 5, 8])), str(rng.choice(["term", "trunc"]))) for _ in range(3)]
            ns, na, total = int(rng.choice([2, 3])), int(rng.choice([2, 3])), int(rng.choice([12, 20]))
            res = tabruns.run(name, ns, na, script, total, seed=int(rng.integers(0, 1000)), epsilon=0.0)
            case = {"routine": "train_" + name, "script": script, "total_timesteps": total, "n_states": ns, "n_actions": na, "epsilon": 0.0}
            chk.case(("tab-greedy", str(case)))
            chk.count("tabular_greedy_runs")
            bad = None if res["raised"] else tabruns.check_greedy(res)
            if bad:
                chk.fail(f"C13:train_{name}:greedy-action", "tabular routine: " + bad[0], {"case": case, **bad[1]})
