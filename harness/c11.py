"""C11 — step budget, episode discipline and step accounting are exact."""
import numpy as np

import loopchecks as lc
import trainrun as tr
from stubs import ScriptEnv, StepAfterDone


def check_run(chk, r):
    name, res, case, cfg = r["name"], r["res"], lc.case_of(r), r["cfg"]
    if res is None:
        chk.fail(f"C11:train_{name}:raised", "training routine raised on a scripted environment", {"case": case, "traceback": r["exception"]})
        return
    if res["raised"]:
        chk.fail(f"C11:train_{name}:step-after-done", "the routine stepped an environment whose episode had ended without resetting it first",
                 {"case": case, "error": res["raised"]})
        return
    steps = tr.step_events(res)
    n = len(steps)
    start, total, limit = cfg["start"], cfg["total"], cfg["limit"] if name in lc.HAS_LIMIT else None
    budget = max(0, total - start) if name not in ("pets",) else total
    if n > budget:
        chk.fail(f"C11:train_{name}:budget", "more environment steps than the remaining step budget", {"case": case, "executed": n, "budget": budget})
    episodes = sum(1 for e in steps if e[5] or e[6])
    if limit is not None:
        if episodes > limit or (n < budget and episodes != limit):
            chk.fail(f"C11:train_{name}:episode-limit", "the routine did not stop exactly when the requested number of episodes had finished",
                     {"case": case, "episodes_finished": episodes, "executed": n, "budget": budget})
    elif n != budget:
        chk.fail(f"C11:train_{name}:budget-unused", "the routine stopped before its step budget was used although no episode limit was given",
                 {"case": case, "executed": n, "budget": budget})
    if res["has_counter"] and res["returned_step"] != start + n:
        chk.fail(f"C11:train_{name}:returned-count", "the reported step count differs from the starting count plus the steps executed",
                 {"case": case, "returned": res["returned_step"], "start": start, "executed": n})
    # parameter updates only when the documented warm-up condition holds
    gate = lc.gate_py(name, cfg["batch"], cfg["warm"], cfg["uf"])
    if name in lc.ONLINE:
        upd = [start + i for i in tr.changed_iterations(res, lc.ONLINE[name])]
        early = [u for u in upd if not gate(u)]
        if early:
            chk.fail(f"C11:train_{name}:update-before-warmup", "parameters changed in an iteration in which the documented warm-up / update condition does not hold",
                     {"case": case, "update_steps": upd, "not_allowed": early})
        # ... and that includes the target networks handed to the routine (here: networks whose weights differ from the online ones,
        # so that a copy or a soft update made during the warm-up is visible)
        tgate = lc.gate_py(name, cfg["batch"], cfg["warm"], 1)      # the warm-up part of the condition: target updates have their own cadence
        for tname in sorted(k for k in res["snaps"][0] if k.endswith("_target")) if res["snaps"] else []:
            tch = [start + i for i in tr.changed_iterations(res, tname)]
            tearly = [u for u in tch if not tgate(u)]
            if tearly:
                chk.fail(f"C11:train_{name}:target-update-before-warmup", f"the target network {tname} handed to the routine was overwritten in an iteration in which "
                         "the documented warm-up / update condition does not hold", {"case": case, "target": tname, "target_update_steps": tch, "not_allowed": tearly})
            chk.count("target_change_iterations_checked", len(tch))
        # correspondence with the skeleton
        m = r["model"]
        if (m["step"] if res["has_counter"] else None) != res["returned_step"] or sorted(m["updates"]) != upd or len(m["stored"]) != n:
            chk.disagree(f"train_{name}.accounting", {"case": case, "impl": {"returned": res["returned_step"], "updates": upd, "steps": n},
                                                      "model": {"step": m["step"], "updates": m["updates"], "steps": len(m["stored"])}})
        resets = sum(1 for e in res["log"] if e[0] == "reset")
        if resets != m["resets"]:
            chk.disagree(f"train_{name}.resets", {"case": case, "impl": resets, "model": m["resets"]})


def rollout_cases(chk, rng, n):
    from rl_blox.util.experiment_helper import generate_rollout
    for i in range(n):
        L, kind = int(rng.integers(1, 6)), ["term", "trunc"][i % 2]
        env = ScriptEnv([(L, kind)], discrete=2)
        case = {"helper": "generate_rollout", "episode_length": L, "end": kind}
        chk.case(("rollout", L, kind))
        chk.count("rollout_cases")
        try:
            obs, act, rew = generate_rollout(env, lambda observation, key: 0)
            n_steps = len(env.step_events())
            if n_steps != L or len(act) != L or len(obs) != L + 1:
                chk.fail("C11:generate_rollout:length", "rollout does not stop with the episode", {"case": case, "steps": n_steps})
        except StepAfterDone as e:
            chk.fail("C11:generate_rollout:step-after-done", "generate_rollout stepped a finished (truncated) episode without reset",
                     {"case": case, "error": str(e), "steps_executed": len(env.step_events())})


def selector_cases(chk, rng, n):
    from common import flit, llit, nlit
    from rl_blox.blox.mapb import DUCB
    from rl_blox.blox.multitask import DUCBGeneralized, RoundRobinSelector
    exprs, recs = [], []
    for i in range(n):
        K = int(rng.integers(1, 6))
        # task ids need not be 0..K-1: every second pair of cases uses a sorted subset of 0..19
        tasks = np.arange(K) if (i // 2) % 2 == 0 else np.sort(rng.choice(20, size=K, replace=False))
        kind = ["rr", "ducb"][i % 2]
        case = {"selector": kind, "n_tasks": K}
        chk.case(("selector", kind, K, i))
        chk.count("selector_cases")
        if kind == "rr":
            sel = RoundRobinSelector(tasks)
            seq = []
            for _ in range(3 * K + 1):
                t = int(sel.select())
                seq.append(t)
                try:
                    sel.select()
                    chk.fail("C11:RoundRobinSelector:alternation", "two selections in a row were accepted", {"case": case})
                except Exception:  # noqa: BLE001 - any exception rejects the call
                    pass
                sel.feedback(0.0)
                try:
                    sel.feedback(0.0)
                    chk.fail("C11:RoundRobinSelector:alternation", "two feedbacks in a row were accepted", {"case": case})
                except Exception:  # noqa: BLE001 - any exception rejects the call
                    pass
            ids = [int(x) for x in tasks]
            pos = [ids.index(t) if t in ids else -1 for t in seq]
            if any(p < 0 for p in pos) or any(pos[j + 1] != (pos[j] + 1) % K for j in range(len(pos) - 1)):
                chk.fail("C11:RoundRobinSelector:cycle", "round-robin selection is not a cycle over the valid task ids", {"case": {**case, "tasks": ids}, "sequence": seq})
            exprs.append(f"(sl sn (M.rr_run {nlit(0)} {nlit(K)} {nlit(len(seq))}))")
            recs.append(("RoundRobinSelector", {**case, "tasks": ids}, pos, None))
        else:
            gamma, zeta, ub = float(rng.choice([0.5, 0.9, 0.95])), float(rng.choice([0.002, 0.1])), float(rng.choice([1.0, 10.0]))
            # every fourth bandit case is a long history with a discount close to 1: the 250-round window of the discounted
            # counts and of the discounted rewards then matters (a count kept outside the window changes the decision)
            long_run = (i // 2) % 4 == 1
            if long_run:
                K, gamma = max(K, 2), float(rng.choice([0.99, 0.995]))
                tasks = np.arange(K)
                case = {"selector": kind, "n_tasks": K, "gamma": gamma, "rounds": 2 * K + 300}
            # (a) the bandit itself: initial round robin over 2K rewards, then arg-max of discounted mean + padding
            ducb = DUCB(K, ub, gamma, zeta)
            chosen, rewards = [], []
            for t in range(2 * K + (300 if long_run else 12)):
                a = int(ducb.choose_arm())
                if not 0 <= a < K:
                    chk.fail("C11:DUCB:valid-id", "chosen arm is out of range", {"case": case, "arm": a})
                    break
                if len(rewards) < 2 * K:
                    exp, margin = len(rewards) % K, 1.0
                else:
                    tt = len(chosen)
                    freq = np.zeros(K)
                    for s_ in range(max(0, tt - 250), tt):
                        freq[chosen[s_]] += gamma ** (tt - 1 - s_)
                    tot = freq.sum()
                    mean = np.array([sum(gamma ** (tt - 1 - s_) * rewards[s_] for s_ in range(max(0, tt - 250), tt) if chosen[s_] == k) / freq[k] for k in range(K)])
                    pad = 2 * ub * np.sqrt(zeta * np.log(tot) / freq)
                    score = mean + pad
                    exp = int(np.argmax(score))
                    srt = np.sort(score)
                    margin = srt[-1] - srt[-2] if K > 1 else 1.0
                if margin > 1e-6 and a != exp:
                    chk.fail("C11:DUCB:choice", "the discounted-UCB bandit did not play the expected arm (initial rounds: round robin; afterwards the arm "
                             "maximising discounted mean reward plus exploration bonus)", {"case": case, "round": t, "chosen": a, "expected": exp,
                                                                                           "history": list(zip(chosen, rewards))})
                    break
                if margin > 1e-6 and (not long_run or (t > 245 and t % 6 == 0)):
                    hist_l = llit(list(zip(chosen, rewards)), lambda e: f"({nlit(e[0])}, {flit(e[1])})")
                    exprs.append(f"(sn (M.ducb_choose float_ops {flit(ub)} {flit(gamma)} {flit(zeta)} {nlit(K)} {hist_l}))")
                    recs.append(("DUCB.choose_arm", case, a, list(zip(chosen, rewards))))
                rwd = float(rng.integers(-4, 5)) / 4
                chosen.append(a)
                rewards.append(rwd)
                ducb.reward(rwd)
            if len(chosen) >= 2 * K and len(set(chosen[: 2 * K])) != K:
                chk.fail("C11:DUCB:initial-rounds", "not every arm was played in the initial rounds", {"case": case, "chosen": chosen[: 2 * K]})
            # (b) the task selector built on it: valid ids, strict alternation, every task selected in the initial rounds
            sel = DUCBGeneralized(tasks, upper_bound=ub, ducb_gamma=gamma, zeta=zeta, baseline=["max", "last", None][i % 3], op=[None, "max-with-0", "neg"][i % 3])
            picked = []
            for t in range(4 * K + 6):
                a = int(sel.select())
                picked.append(a)
                if a not in [int(x) for x in tasks]:
                    chk.fail("C11:DUCBGeneralized:valid-id", "the selector returned an id that is not one of its tasks", {"case": {**case, "tasks": [int(x) for x in tasks]}, "task": a})
                    break
                try:
                    sel.select()
                    chk.fail("C11:DUCBGeneralized:alternation", "two selections in a row were accepted", {"case": case})
                except Exception:  # noqa: BLE001 - any exception rejects the call
                    pass
                sel.feedback(float(rng.integers(-4, 5)) / 4)
                try:
                    sel.feedback(0.0)
                    chk.fail("C11:DUCBGeneralized:alternation", "two feedbacks in a row were accepted", {"case": case})
                except Exception:  # noqa: BLE001 - any exception rejects the call
                    pass
            if len(set(picked[: 4 * K])) != K:
                chk.fail("C11:DUCBGeneralized:initial-rounds", "not every task was selected in the initial rounds", {"case": case, "selected": picked})
    # the accepted / rejected call sequences of the selector base class against the extracted state machine
    from rl_blox.blox.multitask import TaskSelector
    for ops in (["s", "f", "s", "f"], ["s", "s"], ["f"], ["s", "f", "f"], ["s", "f", "s"], []):
        sel, ok = TaskSelector(np.arange(2)), True
        try:
            for o in ops:
                sel.select() if o == "s" else sel.feedback(0.0)
        except Exception:  # noqa: BLE001 - any exception rejects the call
            ok = False
        exprs.append("(so sb (M.sel_run false " + llit(ops, lambda o: "M.OpSelect" if o == "s" else "M.OpFeedback") + "))")
        recs.append(("TaskSelector", {"ops": ops}, sel.waiting_for_reward if ok else None, None))
    for (what, case, impl, hist), m in zip(recs, chk.model_eval(exprs, per_file=100)):
        if m != impl:
            chk.disagree(what, {"case": case, "impl": impl, "model": m, "history": hist})


def onpolicy_cases(chk, rng, n):
    """REINFORCE / actor-critic / A2C: the step budget is the documented threshold (collection continues to the end of the episode,
    respectively of the rollout); the executed steps must equal what that rule gives for the scripted episode lengths, and a
    finished episode is never stepped without reset."""
    import gymnasium as gym
    import optax
    from flax import nnx
    from rl_blox.algorithm.a2c import train_a2c
    from rl_blox.algorithm.actor_critic import train_ac
    from rl_blox.algorithm.reinforce import train_reinforce
    from rl_blox.blox.function_approximator.mlp import MLP
    from rl_blox.blox.function_approximator.policy_head import SoftmaxPolicy
    from stubs import StepAfterDone
    for i in range(n):
        pol = SoftmaxPolicy(MLP(3, 2, [4], "relu", nnx.Rngs(i)))
        vf = MLP(3, 1, [4], "relu", nnx.Rngs(i + 50))
        po, vo = nnx.Optimizer(pol, optax.sgd(0.01), wrt=nnx.Param), nnx.Optimizer(vf, optax.sgd(0.01), wrt=nnx.Param)
        # episodes of at least two steps: a data set of a single sample is rejected loudly by mse_value_loss ((1,1).squeeze() vs (1,)),
        # which is the batch-size-1 reading of C12, not this property's subject
        script = [(int(rng.choice([2, 3, 5])), str(rng.choice(["term", "trunc"]))) for _ in range(3)]
        total, spu, tae = int(rng.choice([0, 1, 7, 15])), int(rng.choice([1, 4, 6])), bool(rng.integers(0, 2))
        which = ["reinforce", "actor_critic", "a2c"][i % 3]
        if i < 3:      # corner: episodes whose lengths add up to exactly steps_per_update (the collection must stop there)
            script, total, spu, tae = [(2, "trunc"), (2, "term"), (2, "trunc")], 7, 4, False
        if which != "a2c":
            env = ScriptEnv(script, discrete=2, reward_scale=0.25)
            case = {"routine": "train_" + which, "script": script, "total_timesteps": total, "steps_per_update": spu, "train_after_episode": tae}
            try:
                (train_reinforce if which == "reinforce" else train_ac)(env, pol, po, vf, vo, seed=i, total_timesteps=total, steps_per_update=spu,
                                                                        train_after_episode=tae, gamma=0.9, progress_bar=False)
                raised = None
            except StepAfterDone as e:
                raised = str(e)
            step, k = 0, 0
            while step < total:
                got = 0
                while True:
                    got += script[k % len(script)][0]
                    k += 1
                    if tae or got >= spu:
                        break
                step += got
            n_steps = len(env.step_events())
            n_resets = len([e for e in env.log if e[0] == "reset"])
            chk.case(("onpolicy", str(case)), nontrivial=total > 0)
            chk.count("onpolicy_runs_" + which)
            if raised:
                chk.fail(f"C11:train_{which}:step-after-done", "stepped a finished episode without reset", {"case": case, "raised": raised})
            elif n_steps != step or n_resets != k:
                chk.fail(f"C11:train_{which}:budget", "executed environment steps differ from the documented collection rule (whole episodes until at least "
                         "steps_per_update samples, repeated while the counter is below total_timesteps)", {"case": case, "steps": n_steps, "expected": step,
                                                                                                           "resets": n_resets, "expected_resets": k})
        else:
            N, T = int(rng.integers(1, 4)), int(rng.choice([1, 3, 5]))
            if N * T < 2:
                T = 3          # a rollout of a single sample is rejected loudly by mse_value_loss (batch-size-1 reading of C12)
            scripts = [[(int(rng.choice([1, 2, 3, 5])), str(rng.choice(["term", "trunc"]))) for _ in range(3)] for _ in range(N)]
            envs = gym.vector.SyncVectorEnv([(lambda s=scripts[j], j=j: ScriptEnv(s, env_id=j, discrete=2, reward_scale=0.25)) for j in range(N)])
            case = {"routine": "train_a2c", "scripts": scripts, "total_timesteps": total, "steps_per_update": T, "n_envs": N}
            try:
                train_a2c(envs, pol, po, vf, vo, seed=i, total_timesteps=total, steps_per_update=T, log_frequency=None, progress_bar=False)
                raised = None
            except StepAfterDone as e:
                raised = str(e)
            iters = -(-total // (T * N))
            chk.case(("onpolicy", str(case)), nontrivial=total > 0)
            chk.count("onpolicy_runs_a2c")
            if raised:
                chk.fail("C11:train_a2c:step-after-done", "stepped a finished episode without reset", {"case": case, "raised": raised})
                continue
            for j in range(N):
                lg = envs.envs[j].log
                calls = len([e for e in lg if e[0] == "step"]) + len([e for e in lg if e[0] == "reset"]) - 1      # the first reset opens the run
                if calls != iters * T:
                    chk.fail("C11:train_a2c:budget", "vector-environment steps differ from ceil(total_timesteps / (steps_per_update * n_envs)) rollouts of steps_per_update steps",
                             {"case": case, "env": j, "vector_steps": calls, "expected": iters * T})
                    break


def smt_cases(chk, rng, n):
    """train_smt with a contract-obeying stub routine: per-task totals are the steps executed on each task's environment (also for tasks
    that leave and re-enter the training pool) and their sum does not exceed b1 + b2"""
    from collections import namedtuple

    from rl_blox.algorithm.smt import train_smt
    from rl_blox.blox.replay_buffer import MultiTaskReplayBuffer, ReplayBuffer
    Res = namedtuple("Res", ["global_step"])
    for i in range(n):
        K_tasks = int(rng.integers(2, 5))
        K = int(rng.integers(1, K_tasks))
        b1, b2 = int(rng.integers(20, 60)), int(rng.integers(5, 20))
        kappa = float([0.1, 0.25, 0.8][i % 3])
        interval = int([1, 2][i % 2])
        envs = [ScriptEnv([(int(rng.integers(1, 5)), str(rng.choice(["term", "trunc"])))], env_id=k, discrete=2) for k in range(K_tasks)]

        class TS:
            def __len__(self):
                return K_tasks

            def get_task(self, k):
                return envs[int(k)]

        def train_st(env, total_timesteps, total_episodes=None, global_step=0, **kw):
            step, eps = global_step, 0
            env.reset()
            while step < total_timesteps:
                _, _, te, tr_, _ = env.step(0)
                step += 1
                if te or tr_:
                    eps += 1
                    if total_episodes is not None and eps >= total_episodes:
                        break
                    env.reset()
            return Res(step)
        case = {"scheduler": "train_smt", "n_tasks": K_tasks, "K": K, "b1": b1, "b2": b2, "kappa": kappa, "scheduling_interval": interval,
                "episode_lengths": [e.script[0][0] for e in envs]}
        chk.case(("smt", str(case)))
        chk.count("smt_cases")
        import contextlib
        import io
        with contextlib.redirect_stdout(io.StringIO()):
            ok, out = chk.impl_call("C11:train_smt:raised", case, train_smt, TS(), train_st, MultiTaskReplayBuffer(ReplayBuffer(10), K_tasks), b1=b1, b2=b2,
                                    solved_threshold=1e9, unsolvable_threshold=-1e9, scheduling_interval=interval, kappa=kappa, K=K, n_average=2,
                                    learning_starts=0, seed=i, progress_bar=False)
        if not ok:
            continue
        _, per_task, _ = out
        per_env = [len(e.step_events()) for e in envs]
        if sum(per_env) > b1 + b2 or [int(x) for x in per_task] != per_env:
            chk.fail("C11:train_smt:totals", "scheduled multi-task training: per-task step totals differ from the steps executed on the tasks' environments, or "
                     "the budget b1 + b2 was exceeded", {"case": case, "executed_per_task": per_env, "reported_per_task": [int(x) for x in per_task], "budget": b1 + b2})
        if any(v != per_env[0] for v in per_env) or True:
            chk.count("smt_steps_executed", sum(per_env))


def scheduler_cases(chk, rng, n):
    """train_uts / train_active_mt with a stub single-task routine that obeys the skeleton contract
    (executes steps on the task's scripted environment until its episode limit or the budget)."""
    from collections import namedtuple

    from common import llit, nlit
    from rl_blox.algorithm.active_mt import train_active_mt
    from rl_blox.algorithm.uniform_task_sampling import train_uts
    from rl_blox.blox.multitask import DiscreteTaskSet
    from rl_blox.blox.replay_buffer import MultiTaskReplayBuffer, ReplayBuffer
    Res = namedtuple("Res", ["global_step"])
    sched = []        # (model expression, case, [update steps, executed steps]) - the scheduler model of Model/Sched.v on the same call lengths
    for i in range(n):
        K = int(rng.integers(1, 4))
        budget = int(rng.integers(3, 30))
        envs = [ScriptEnv([(int(rng.integers(1, 5)), str(rng.choice(["term", "trunc"])))], env_id=k, discrete=2) for k in range(K)]
        executed = {"n": 0, "calls": [], "updates": []}
        warm = int([0, 4, 9, 2, 15, 6][i % 6])

        def train_st(env, total_timesteps, total_episodes=None, global_step=0, learning_starts=0, **kw):
            step = global_step
            obs, _ = env.reset()
            eps = 0
            while step < total_timesteps:
                if step >= learning_starts:       # the backbones' warm-up rule on the absolute step counter
                    executed["updates"].append(step)
                obs, r, te, tr_, _ = env.step(0)
                step += 1
                executed["n"] += 1
                if te or tr_:
                    eps += 1
                    if total_episodes is not None and eps >= total_episodes:
                        break
                    obs, _ = env.reset()
            executed["calls"].append((global_step, step))
            return Res(step)

        class TaskSet:
            def __len__(self):
                return K

            def get_task(self, k):
                return envs[int(k)]
        ts = TaskSet()
        case = {"scheduler": "train_uts", "n_tasks": K, "budget": budget, "episode_lengths": [e.script[0][0] for e in envs], "exploring_starts": warm}
        chk.case(("uts", K, budget, i))
        chk.count("scheduler_cases")
        ok, out = chk.impl_call("C11:train_uts:raised", case, train_uts, ts, train_st, total_timesteps=budget, episodes_per_task=int([1, 2, 3][i % 3]), seed=i,
                                exploring_starts=warm, progress_bar=False)
        if ok:
            total_env = sum(len(e.step_events()) for e in envs)
            lens = [b - a for a, b in executed["calls"]]
            sched.append((f"(sp (sl sn) sn (M.sched_run M.PassThrough {nlit(warm)} {nlit(budget)} {llit(lens, nlit)} {nlit(0)}))", case, [executed["updates"], total_env]))
            if executed["updates"] != list(range(warm, total_env)):
                chk.fail("C11:train_uts:update-before-warmup", "the backbone (which updates once its step counter has reached the learning_starts it is given) "
                         "updated before the scheduler's exploring_starts steps had been executed, or not from then on",
                         {"case": case, "update_steps": executed["updates"], "expected": [warm, total_env]})
            if total_env > budget or int(out.global_step) != total_env:
                chk.fail("C11:train_uts:totals", "uniform task sampling executed more steps than the budget or its final counter differs from the steps executed",
                         {"case": case, "executed": total_env, "reported": int(out.global_step)})
        # active multi-task
        envs2 = [ScriptEnv([(int(rng.integers(1, 5)), str(rng.choice(["term", "trunc"])))], env_id=k, discrete=2) for k in range(K)]

        class TaskSet2(TaskSet):
            def get_task(self, k):
                return envs2[int(k)]
        rb = MultiTaskReplayBuffer(ReplayBuffer(10), K)

        updates2, calls2 = [], []

        def train_st2(env, total_timesteps, total_episodes=None, global_step=0, learning_starts=0, **kw):
            step, eps = global_step, 0
            env.reset()
            while step < total_timesteps:
                if step >= learning_starts:
                    updates2.append(step)
                _, _, te, tr_, _ = env.step(0)
                step += 1
                if te or tr_:
                    eps += 1
                    if total_episodes is not None and eps >= total_episodes:
                        break
                    env.reset()
            calls2.append((global_step, step))
            return Res(step)
        interval = int([1, 2, 3, 4][i % 4])     # the budget may run out after some, but not all, episodes of a scheduling interval
        case2 = {"scheduler": "train_active_mt", "n_tasks": K, "budget": budget, "episode_lengths": [e.script[0][0] for e in envs2], "scheduling_interval": interval,
                 "learning_starts": warm}
        ok, out = chk.impl_call("C11:train_active_mt:raised", case2, train_active_mt, TaskSet2(), train_st2, rb, 1.0, task_selector="Round Robin",
                                total_timesteps=budget, scheduling_interval=interval, learning_starts=warm, seed=i, progress_bar=False)
        if ok:
            _, per_task = out
            total_env = sum(len(e.step_events()) for e in envs2)
            sched.append((f"(sp (sl sn) sn (M.sched_run M.PassThrough {nlit(warm)} {nlit(budget)} {llit([b - a for a, b in calls2], nlit)} {nlit(0)}))", case2, [updates2, total_env]))
            if updates2 != list(range(warm, total_env)):
                chk.fail("C11:train_active_mt:update-before-warmup", "the backbone updated before the scheduler's learning_starts steps had been executed, or not from then on",
                         {"case": case2, "update_steps": updates2, "expected": [warm, total_env]})
            per_env = [len(e.step_events()) for e in envs2]
            if total_env > budget or int(np.sum(per_task)) != total_env or list(map(int, per_task)) != per_env:
                chk.fail("C11:train_active_mt:totals", "per-task step totals do not sum to the steps actually executed (or exceed the budget)",
                         {"case": case2, "per_task_reported": list(map(int, per_task)), "per_task_executed": per_env, "budget": budget})
    for (_, case, impl), m in zip(sched, chk.model_eval([e for e, _, _ in sched], per_file=60)):
        if m != impl:
            chk.disagree("scheduler-warmup", {"case": case, "impl": impl, "model": m})
    chk.count("scheduler_model_cases", len(sched))


def main(chk):
    chk.proof_step()
    rng = np.random.default_rng(chk.seed)
    q = chk.tier == "quick"
    recs = lc.collect(chk, rng, tr.ALL, 3 if q else 30, quick=False, extra={"distinct_targets": True})
    for r in recs:
        check_run(chk, r)
    for r in lc.tab_collect(chk, rng, 2 if q else 20):
        res, case, m = r["res"], r["case"], r["model"]
        n = len([e for e in res["log"] if e[0] == "step"])
        resets = len([e for e in res["log"] if e[0] == "reset"])
        if res["raised"]:
            chk.fail(f"C11:train_{r['name']}:step-after-done", "a tabular routine stepped a finished episode without reset", {"case": case, "raised": res["raised"]})
        elif n > case["total_timesteps"]:
            chk.fail(f"C11:train_{r['name']}:budget", "a tabular routine executed more environment steps than its budget", {"case": case, "steps": n})
        elif n != m["step"] or resets != m["resets"]:
            chk.disagree("tabular-loop-skeleton", {"case": case, "impl": {"steps": n, "resets": resets}, "model": {"steps": m["step"], "resets": m["resets"]}})
    import c06
    c06.td7_checkpoint_mode(chk, rng, q, prefix="C11", check_warmup=True)      # TD7's deferred-training mode: no released epoch before the warm-up ends
    rollout_cases(chk, rng, 6 if q else 40)
    onpolicy_cases(chk, rng, 6 if q else 60)
    selector_cases(chk, rng, 12 if q else 200)
    scheduler_cases(chk, rng, 24 if q else 150)
    smt_cases(chk, rng, 9 if q else 120)
    r0 = recs[0]
    chk.sample({"case": lc.case_of(r0), "model": {k: r0["model"][k] for k in ("step", "stop", "episodes", "updates", "resets")}})
    return chk.finish(
        rule="every off-policy routine on scripted environments that raise on a step after episode end (budgets 0-14, start counts 0 / 3 / = budget / "
             "> budget, episode limits 1-3, warm-up 0 / 4 / 6 / > budget, update frequencies 1-2): executed steps vs budget, stop at the episode "
             "limit, returned counter, iterations in which the online parameters changed vs the documented gate, and all of these vs the extracted "
             "loop skeleton; generate_rollout on terminated and truncated episodes; round-robin and discounted-UCB selectors against an "
             "independent float64 decision rule; train_uts / train_active_mt with a contract-obeying stub routine; the five tabular routines on a "
             "scripted discrete environment (steps vs budget, no step after episode end, steps and resets vs the skeleton)",
        assumptions=["parameter updates are observed as changes of the online critic's parameters between consecutive env.step calls",
                     "the discounted-UCB decision is compared only when the arg-max margin exceeds 1e-6", "the scheduler stubs obey the single-task contract checked for the real routines above",
                     "reading for on-policy routines (REINFORCE, actor-critic, A2C): total_timesteps is the documented threshold - collection runs to the end of the "
                     "episode / rollout - so the executed steps are compared with that rule, not with total_timesteps itself"])
