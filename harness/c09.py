"""C09 — training is a deterministic function of seed, initial state and environment (PARTIAL).

1. Regenerate the model: harness/c09_translate.py -> coq/Gen/Graph.v (abort -> broken obligation).
2. Proof step: general theorems + the per-run obligation `C09_graph_ok` (vm_compute on the regenerated
   graph).  A reachable ambient source makes it fail to compile; then the offending paths are found by a
   Python BFS and a concrete failing input is searched for by twin runs of the routines concerned.
3. Validation of the translator's table (the dynamic half of the tie): twin runs of the training
   routines in two fresh processes with equal seeds, identically constructed networks / environments, but
   different ambient conditions (PYTHONHASHSEED, global numpy / random state, shifted time.time, XLA
   intra-op thread count, content of uninitialised np.empty memory, and - variant B - an earlier call of the same routine in
   the same process); digests of parameters, buffers, counters and logged statistics (minus the
   time field) must be bit-identical; a third run with another training seed must differ in the parameters.
"""
import concurrent.futures as cf
import json
import os
import subprocess
import time

import common

ROUTINES = [
    "train_q_learning", "train_sarsa", "train_double_q_learning", "train_monte_carlo", "train_dynaq",
    "train_dqn", "train_nature_dqn", "train_ddqn", "train_ddqn_per", "train_ddpg", "train_td3", "train_td3_lap",
    "train_sac", "train_td7", "train_mrq", "train_pets", "train_reinforce", "train_ac", "train_a2c", "train_ppo",
    "train_cmaes", "train_uts", "train_smt", "train_active_mt",
]
# routines whose configuration must show logged loss records (updates really happened)
NO_LOSS_LOG = {"train_q_learning", "train_sarsa", "train_double_q_learning", "train_monte_carlo", "train_dynaq", "train_cmaes"}
# the only users of MultiTaskReplayBuffer / the task selectors (containers of objects): always part of the quick tier
ALWAYS = ["train_smt", "train_active_mt"]
XLA1 = "--xla_cpu_multi_thread_eigen=false intra_op_parallelism_threads=1"
XLA2 = "--xla_cpu_multi_thread_eigen=false intra_op_parallelism_threads=2"
#            name  PYTHONHASHSEED ambient-id XLA_FLAGS
VARIANTS = {"A": ("1", 1, XLA1), "B": ("4242", 7, XLA2), "C": ("1", 1, XLA1)}
CHILD = os.path.join(os.path.dirname(os.path.abspath(__file__)), "c09_child.py")


def child_cmd(routine, seed, variant, out, init_seed):
    hs, amb, xla = VARIANTS[variant]
    env = {
        "PATH": os.environ.get("PATH", "/usr/bin:/bin"), "HOME": os.environ.get("HOME", "/root"),
        "PYTHONPATH": common.REPO, "PYTHONHASHSEED": hs, "JAX_PLATFORMS": "cpu", "XLA_FLAGS": xla,
        "OMP_NUM_THREADS": "1", "OPENBLAS_NUM_THREADS": "1", "MKL_NUM_THREADS": "1",
        "TF_CPP_MIN_LOG_LEVEL": "3", "PYTHONDONTWRITEBYTECODE": "1", "MUJOCO_GL": "egl",
        # variant B additionally has a history inside its process: the same routine is first run once with another seed
        # (result discarded); state kept across calls (mutable defaults, module globals, caches) then shows as a difference
        "C09_PRIOR_RUN": "1" if variant == "B" else "0",
    }
    cmd = ["/venv/bin/python", CHILD, routine, str(seed), str(amb), out, str(init_seed)]
    return cmd, env


def run_child(job):
    routine, seed, variant, out, init_seed = job
    cmd, env = child_cmd(routine, seed, variant, out, init_seed)
    t = time.time()
    try:
        p = subprocess.run(["timeout", "420"] + cmd, env=env, capture_output=True, text=True)
        rc, err = p.returncode, (p.stderr or "")[-1500:]
    except Exception as e:  # noqa: BLE001
        rc, err = -1, repr(e)
    res = None
    if rc == 0 and os.path.exists(out):
        res = json.load(open(out))
    shell = " ".join(f"{k}={v!r}" for k, v in env.items() if k in ("PYTHONPATH", "PYTHONHASHSEED", "XLA_FLAGS", "JAX_PLATFORMS", "C09_PRIOR_RUN")) \
        + " " + " ".join(cmd[:5] + [f"/tmp/C09-{routine}-{variant}.json"] + cmd[6:])
    return {"routine": routine, "variant": variant, "seed": seed, "rc": rc, "stderr": err, "result": res,
            "wall": round(time.time() - t, 1), "cmd": shell}


def diff_keys(a, b):
    ks = sorted(set(a) | set(b))
    return [k for k in ks if a.get(k) != b.get(k)]


def main(chk):
    import c09_translate as T

    # ---- 1. regenerate the model -------------------------------------------------------------------
    chk.trusted += [
        "C09 translator harness/c09_translate.py (Python ast -> coq/Gen/Graph.v), its ambient table and allowed-library list "
        "(not verified; validated dynamically by the twin runs of harness/c09.py + c09_child.py)",
        "C09_graph_ok: vm_compute decides the boolean ambient_free on the regenerated finite graph (kernel-checked "
        "reflection, lifted by ambient_free_sound); the only vm_compute that decides an obligation",
    ]
    t0 = time.time()
    g = T.translate(common.REPO)
    T.write_outputs(g, common.V)
    st = g["stats"]
    chk.coverage["translator"] = {k: v for k, v in st.items() if k not in ("given_forms_examples", "allowed_libraries")}
    chk.coverage["translator_wall_s"] = round(time.time() - t0, 2)
    chk.coverage["repo"] = common.REPO
    if g.get("abort"):
        chk.broken.append(("translator:abort", "the translator could not classify a construct (fail-closed): " + g["abort"]))

    # translator self-test: every row of the ambient table / every resolution rule on a synthetic package
    import c09_selftest
    problems, n_assert = c09_selftest.run(chk.rundir)
    chk.count("translator_selftest_assertions", n_assert)
    if problems:
        chk.broken.append(("translator:self-test", problems[:20]))

    # ---- 2. proof step ------------------------------------------------------------------------------
    chk.proof_step()
    paths = [] if g.get("abort") else T.find_paths(g, limit=0)
    nodes = {n["id"]: n for n in g["nodes"]}
    if paths:
        chk.broken.append(("graph:ambient-source-reachable", {
            "note": "C09_graph_ok does not hold on the regenerated graph: an Ambient node is reachable from an entry point",
            "paths_root_to_ambient_node": paths[:12], "n_paths": len(paths)}))
        chk.coverage["ambient_paths"] = paths[:12]
    chk.count("graph_nodes", len(g["nodes"]))
    chk.count("graph_roots", len(g["roots"]))

    # ---- 3. twin runs ---------------------------------------------------------------------------------
    suspects = []
    if paths:
        amb_quals = {p["ambient_node"] for p in paths}
        reach_roots = set(T.roots_reaching(g, amb_quals))
        for r in ROUTINES:
            if any(q.split(".")[-1] == r for q in reach_roots):
                suspects.append(r)
    rot = [r for i, r in enumerate(ROUTINES) if (i + chk.seed) % 3 == 0]
    rot += [r for r in ALWAYS if r not in rot]
    if chk.tier == "quick":
        full = list(dict.fromkeys(suspects + rot))  # twin + third run
        twins_only = [r for r in ROUTINES if r not in full]      # every routine has its twin pair on every run; the third run rotates
    else:
        full, twins_only = list(ROUTINES), []
    seed = 1000 * (chk.seed % 1000) + 17
    init_seed = 5 + chk.seed % 7
    jobs = []
    for r in full + twins_only:
        for v in ("A", "B") + (("C",) if r in full else ()):
            s = seed + 1 if v == "C" else seed
            jobs.append((r, s, v, f"{chk.rundir}/{r}-{v}.json", init_seed))
    t1 = time.time()
    with cf.ThreadPoolExecutor(max_workers=int(os.environ.get("VERIF_JOBS", "16"))) as ex:
        results = list(ex.map(run_child, jobs))
    chk.coverage["twin_wall_s"] = round(time.time() - t1, 1)
    by = {}
    for r in results:
        by.setdefault(r["routine"], {})[r["variant"]] = r

    summary = {}
    for routine in full + twins_only:
        rs = by[routine]
        bad = [v for v, r in rs.items() if r["result"] is None]
        if bad:
            # a crash of the routine on a valid small configuration: not this property's subject, but the tie is broken
            chk.broken.append((f"twin-run:{routine}:child-failed",
                               {v: {"rc": rs[v]["rc"], "stderr": rs[v]["stderr"], "cmd": rs[v]["cmd"]} for v in bad}))
            summary[routine] = "child-failed"
            continue
        a, b = rs["A"]["result"], rs["B"]["result"]
        da, db = a["digest"], b["digest"]
        chk.case((routine, seed), nontrivial=True)
        chk.count("twin_comparisons")
        chk.count("digest_leaves_compared", len(da))
        probes_differ = a["meta"]["np_global_probe"] != b["meta"]["np_global_probe"] and \
            abs(a["meta"]["time_probe"] - b["meta"]["time_probe"]) > 1000 and a["meta"]["hashseed"] != b["meta"]["hashseed"]
        if not probes_differ:
            chk.broken.append((f"twin-run:{routine}:ambient-not-varied", {"A": a["meta"], "B": b["meta"]}))
        dk = diff_keys(da, db)
        if dk:
            cats = sorted({k.split("/")[0] for k in dk})
            replay = {
                "routine": routine, "seed": seed, "init_seed": init_seed,
                "differing_keys": dk[:60], "n_differing": len(dk), "categories": cats,
                "values_A": {k: da.get(k) for k in dk[:20]}, "values_B": {k: db.get(k) for k in dk[:20]},
                "run_A": rs["A"]["cmd"], "run_B": rs["B"]["cmd"],
                "ambient_A": {"PYTHONHASHSEED": VARIANTS["A"][0], "global numpy/random seed and time shift id": VARIANTS["A"][1], "XLA_FLAGS": VARIANTS["A"][2]},
                "ambient_B": {"PYTHONHASHSEED": VARIANTS["B"][0], "global numpy/random seed and time shift id": VARIANTS["B"][1], "XLA_FLAGS": VARIANTS["B"][2],
                              "C09_PRIOR_RUN": "1 (the routine was called once before, with seed+7, in the same process)"},
                "how_to_replay": "run both commands (fresh processes) and compare the 'digest' objects of the two JSON files",
            }
            if paths:
                root_q = next((n["qual"] for n in g["nodes"] if n["root"] and n["qual"].split(".")[-1] == routine), None)
                own = T.path_between(g, root_q, {p["ambient_node"] for p in paths}) if root_q else None
                replay["graph_path_from_this_routine"] = own or "none in the graph (the routine reaches the node through a Given call, e.g. train_st / replay_buffer passed in)"
                replay["graph_paths_root_to_ambient"] = paths[:6]
                chk.fail(f"C09:{routine}:ambient-source-reachable",
                         f"{routine}: two runs with equal seeds, identical networks and identically seeded environment differ in "
                         f"{cats} under different ambient conditions; the call graph shows a reachable ambient source", replay)
            else:
                chk.fail(f"C09:{routine}:twin-run-differs",
                         f"{routine}: two runs with equal seeds, identical networks and identically seeded environment differ in "
                         f"{cats} although no ambient source is visible in the call graph (the model misrepresents the code, or a "
                         f"library / container-order effect)", replay)
            summary[routine] = f"DIFFERS in {len(dk)} leaves {cats}"
        else:
            summary[routine] = f"identical ({len(da)} leaves)"
        if routine not in NO_LOSS_LOG and a["meta"]["loss_records"] == 0:
            chk.broken.append((f"twin-run:{routine}:no-updates", "the configuration did not exercise learning (no loss recorded)"))
        if a["meta"].get("nonfinite_leaves", 0):
            chk.broken.append((f"twin-run:{routine}:non-finite", f"{a['meta']['nonfinite_leaves']} digested arrays contain NaN/inf: "
                               "the configuration is degenerate, bitwise equality would be uninformative"))
        if "C" in rs:
            dc = rs["C"]["result"]["digest"]
            pk = [k for k in diff_keys(da, dc) if k.startswith("param/")]
            chk.count("third_run_comparisons")
            if not pk:
                chk.broken.append((f"twin-run:{routine}:vacuous",
                                   "a third run with another training seed produced identical parameters: the comparison would not notice anything"))
                summary[routine] += "; third run NOT different"
            else:
                n_param = sum(1 for k in da if k.startswith("param/"))
                summary[routine] += f"; third run (seed+1) differs in {len(pk)}/{n_param} parameter leaves"
        chk.sample({"routine": routine, "seed": seed, "leaves": len(da), "loss_records": a["meta"]["loss_records"],
                    "wall_A_s": a["meta"]["wall_s"], "verdict": summary[routine]})
    chk.coverage["twin_runs"] = summary
    chk.coverage["twin_run_children"] = len(jobs)
    print(f"[C09] translator: {st.get('functions', '?')} functions, {st.get('nodes', '?')} nodes, {st.get('edges', '?')} edges, "
          f"labels {st.get('labels')}; ambient paths: {len(paths)}; twin runs: {json.dumps(summary)}")

    return chk.finish(
        rule=(f"graph: every .py under rl_blox translated ({st.get('functions', '?')} functions, {st.get('roots', '?')} entry points), "
              f"ambient_free decided by vm_compute on the regenerated graph; twin runs: "
              f"{'every routine' if chk.tier != 'quick' else 'every routine as a twin pair; the third run for a seed-rotated third of the 24 routines plus the two multi-task routines'}"
              f" x (2 ambient conditions, one of them after an earlier in-process call of the same routine, + 1 other training seed), small "
              f"configurations with updates; distinct = routines compared"),
        assumptions=[
            "PARTIAL: proved = no syntactically visible ambient source is reachable from any entry point (all seeds, all configurations)",
            "trusted: the translator harness/c09_translate.py, its ambient table and allowed-library list (validated by the twin runs only)",
            "observed only (twin runs): determinism of XLA CPU kernels, Gymnasium / MuJoCo, dict / set iteration over keys whose type is not visible",
            "calls on parameters / locals (env.step, rng.integers, q(...), train_st(...)) are Given: their determinism is the premise",
            "the environment is seeded by the caller (env.reset(seed), action_space.seed); q_learning / sarsa / double_q / monte_carlo / "
            "reinforce / actor-critic never seed the environment themselves",
        ],
        extra={"level_label": "partial"},
    )


def replay(case, key=None):
    """bin/replay: re-run the recorded twin pair in fresh processes and compare the digests."""
    import tempfile
    d = tempfile.mkdtemp(prefix="c09-replay-")  # small JSON files; left for inspection
    jobs = [(case["routine"], case["seed"], v, f"{d}/{case['routine']}-{v}.json", case.get("init_seed", 5)) for v in ("A", "B")]
    with cf.ThreadPoolExecutor(max_workers=2) as ex:
        ra, rb = list(ex.map(run_child, jobs))
    for r in (ra, rb):
        print("ran:", r["cmd"], "rc =", r["rc"])
        if r["result"] is None:
            print(r["stderr"])
            return 2
    dk = diff_keys(ra["result"]["digest"], rb["result"]["digest"])
    print(f"{case['routine']} seed={case['seed']}: {len(dk)} of {len(ra['result']['digest'])} digest leaves differ between the twins")
    for k in dk[:30]:
        print("  ", k, ra["result"]["digest"].get(k), "!=", rb["result"]["digest"].get(k))
    if case.get("graph_paths_root_to_ambient"):
        print("call-graph paths root -> ambient node recorded with the finding:")
        for p in case["graph_paths_root_to_ambient"][:6]:
            print("   ", " -> ".join(p["path"]), p["reads"])
    return 1 if dk else 0
