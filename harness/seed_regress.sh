#!/bin/bash
# usage: regress.sh <lane> <ID/m ...> : each change applied in its own worktree, the property's quick check run with VERIF_REPO
cd /verif
LANE=$1; shift
WT=/tmp/rw-$LANE
for x in "$@"; do
  ID=${x%%/*}
  git -C /repo worktree remove --force $WT >/dev/null 2>&1
  git -C /repo worktree add --detach $WT HEAD >/dev/null 2>&1
  git -C $WT apply /verif/seeded/$x/patch.diff || { echo "$x APPLY-FAILED" >> build/regress.txt; continue; }
  VERIF_REPO=$WT VERIF_EVIDENCE_DIR=/verif/build/seeded-evidence/rw-$LANE bin/check $ID quick > build/rw-$LANE.log 2>&1
  rc=$?
  echo "$x rc=$rc $(grep '^VIOLATION' build/rw-$LANE.log | head -2 | sed 's#.*/replays/##' | tr '\n' ' ')" >> build/regress.txt
done
git -C /repo worktree remove --force $WT >/dev/null 2>&1
echo "LANE-$LANE-DONE" >> build/regress.txt
