"""C10 — actions sent to the environment respect the action-space bounds."""
import numpy as np

import trainrun as tr
from common import flit, llit, parse_f

ULPS = 4      # "up to floating-point rounding of the bound itself": at most 4 float32 ulp of the larger bound magnitude


def ulp_tol(low, high):
    m = np.maximum(np.abs(low), np.abs(high)).astype(np.float32)
    return ULPS * np.spacing(m).astype(np.float64)


def draw_bounds(rng, d):
    kind = str(rng.choice(["symmetric", "asymmetric", "tiny", "large", "mixed", "offset-tiny"]))
    if kind == "symmetric":
        h = rng.uniform(0.5, 3.0, size=d); low, high = -h, h
    elif kind == "asymmetric":
        low = rng.uniform(-4, 4, size=d); high = low + rng.uniform(0.1, 5, size=d)
    elif kind == "tiny":
        low = rng.uniform(-1, 1, size=d); high = low + rng.uniform(1e-4, 1e-3, size=d)
    elif kind == "large":
        low = -rng.uniform(1e3, 1e5, size=d); high = rng.uniform(1e3, 1e5, size=d)
    elif kind == "offset-tiny":
        low = rng.uniform(100, 1000, size=d); high = low + rng.uniform(1e-2, 1e-1, size=d)
    else:
        low = np.where(rng.random(d) < 0.5, -rng.uniform(1e-3, 1e-2, size=d), -rng.uniform(10, 1e3, size=d)); high = low + rng.uniform(1e-3, 50, size=d)
    low, high = low.astype(np.float32), high.astype(np.float32)
    assert np.all(low < high)
    return kind, low, high


def box(low, high):
    import gymnasium as gym
    return gym.spaces.Box(low, high, dtype=np.float32)


def obs_policy():
    from flax import nnx

    class ObsPolicy(nnx.Module):      # pi(o) = o: the harness chooses the policy's action through the observation
        def __call__(self, obs):
            return obs
    return ObsPolicy()


def close(a, b, scale):
    return abs(a - b) <= 2e-5 * max(abs(a), abs(b), scale) + 1e-30


def sampler_cases(chk, rng, n):
    import jax
    import jax.numpy as jnp
    from rl_blox.algorithm.ddpg import make_sample_actions
    from rl_blox.algorithm.td3 import make_sample_target_actions
    pol = obs_policy()
    exprs, recs = [], []
    for i in range(n):
        d = int(rng.choice([1, 2, 4]))
        kind, low, high = draw_bounds(rng, d)
        scale = 0.5 * (high.astype(np.float64) - low)
        noise = float(rng.choice([0.0, 0.1, 0.2, 1.0, 7.5]))
        clipc = float(rng.choice([0.0, 0.1, 0.5, 2.0]))
        key = jax.random.key(int(rng.integers(0, 2 ** 31)))
        where = str(rng.choice(["inside", "at-bounds", "outside"]))
        u = rng.random(d)
        pi = {"inside": low + u * (high - low), "at-bounds": np.where(u < 0.5, low, high), "outside": low + (3 * u - 1) * (high - low)}[where].astype(np.float32)
        case = {"bounds": kind, "low": low.tolist(), "high": high.tolist(), "exploration_noise": noise, "noise_clip": clipc, "policy_action": pi.tolist(), "policy_action_is": where}
        chk.case(("sampler", i, kind, where, noise, clipc))
        chk.count("sampler_bounds_" + kind)
        space = box(low, high)
        # exploration sampler (one observation)
        a = np.asarray(make_sample_actions(space, noise)(pol, jnp.asarray(pi), key))
        z = np.asarray(jax.random.normal(key, (d,)), dtype=np.float64)
        pre = pi.astype(np.float64) + noise * scale * z
        if not (np.all(a >= low) and np.all(a <= high)):
            chk.fail("C10:ddpg.sample_actions:bounds", "an exploration action lies outside the action-space bounds", {"case": case, "action": a.tolist()})
        for j in range(d):
            inside = low[j] < a[j] < high[j]
            ok = close(float(a[j]), pre[j], scale[j]) if inside else (pre[j] >= high[j] - 2e-5 * max(abs(high[j]), scale[j]) if a[j] == high[j]
                                                                       else pre[j] <= low[j] + 2e-5 * max(abs(low[j]), scale[j]))
            if not ok:
                chk.fail("C10:ddpg.sample_actions:pre-clip-form", "the exploration action is not clip(policy action + noise level * half range * N(0,1)(key))",
                         {"case": case, "dimension": j, "action": float(a[j]), "expected_before_clipping": float(pre[j])})
                break
        chk.count("explore_clipped" if np.any((a == low) | (a == high)) else "explore_unclipped")
        exprs.append("(sl sf [" + "; ".join(f"M.sample_action float_ops {flit(float(pi[j]))} {flit(noise)} {flit(float(low[j]))} {flit(float(high[j]))} {flit(float(z[j]))}"
                                            for j in range(d)) + "])")
        recs.append(("ddpg.sample_actions", case, a.astype(np.float64), scale))
        # target sampler (batch of observations)
        B = 3
        pib = np.stack([pi, low, high]).astype(np.float32) if where == "inside" else np.stack([pi] * B)
        pib = np.clip(pib, low, high)      # target policies are tanh-scaled: their actions lie inside the box
        at = np.asarray(make_sample_target_actions(space, noise, clipc)(pol, jnp.asarray(pib), key))
        zb = np.asarray(jax.random.normal(key, (B, d)), dtype=np.float64)
        if not (np.all(at >= low) and np.all(at <= high)):
            chk.fail("C10:td3.sample_target_actions:bounds", "a smoothed target action lies outside the action-space bounds", {"case": case, "action": at.tolist()})
        lim = clipc * scale
        diff = np.abs(at.astype(np.float64) - pib)
        slack = 2 * np.spacing(np.maximum(np.abs(at), np.abs(pib)).astype(np.float32)).astype(np.float64) + 1e-6 * lim
        if np.any(diff > lim + slack):
            chk.fail("C10:td3.sample_target_actions:noise-clip", "target-smoothing noise exceeds noise_clip times half the action range",
                     {"case": case, "policy_actions": pib.tolist(), "target_actions": at.tolist(), "limit": lim.tolist()})
        chk.count("target_noise_clipped" if np.any(np.abs(noise * scale * zb) > lim) else "target_noise_unclipped")
        exprs.append("(sl sf [" + "; ".join(
            f"M.sample_target_action float_ops {flit(float(pib[b][j]))} {flit(noise)} {flit(clipc)} {flit(float(low[j]))} {flit(float(high[j]))} {flit(float(zb[b][j]))}"
            for b in range(B) for j in range(d)) + "])")
        recs.append(("td3.sample_target_actions", case, at.astype(np.float64).reshape(-1), np.tile(scale, B)))
    res = chk.model_eval(exprs, per_file=60)
    for (what, case, impl, scale), mr in zip(recs, res):
        m = [parse_f(x) for x in mr]
        if len(m) != len(impl) or not all(close(a, b, s) for a, b, s in zip(impl, m, scale)):
            chk.disagree(what, {"case": case, "impl": impl.tolist(), "model": m})


def tanh_cases(chk, rng, n):
    import jax.numpy as jnp
    from flax import nnx
    from rl_blox.blox.function_approximator.policy_head import DeterministicTanhPolicy

    class Net(nnx.Module):
        def __call__(self, x):
            return x
    for i in range(n):
        d = int(rng.choice([1, 3]))
        kind, low, high = draw_bounds(rng, d)
        pol = DeterministicTanhPolicy(Net(), box(low, high))
        mag = float(rng.choice([1e-3, 1.0, 20.0, 1e4, 1e30, np.inf]))
        y = (rng.normal(size=(5, d)) * (1.0 if np.isinf(mag) else mag)).astype(np.float32)
        if np.isinf(mag):
            y = np.where(y > 0, np.inf, -np.inf).astype(np.float32)
        a = np.asarray(pol(jnp.asarray(y)), dtype=np.float64)
        tol = ulp_tol(low, high)
        chk.case(("tanh", i, kind, mag))
        chk.count("tanh_" + kind)
        if not (np.all(a >= low - tol) and np.all(a <= high + tol)) or np.any(np.isnan(a)):
            chk.fail("C10:DeterministicTanhPolicy:bounds", "a tanh-scaled policy output lies outside the bounds by more than rounding of the bound",
                     {"bounds": kind, "low": low.tolist(), "high": high.tolist(), "network_output": y.tolist(), "action": a.tolist()})
        if np.any(a > high) or np.any(a < low):
            chk.count("tanh_outputs_off_by_rounding")
        ref = np.tanh(y.astype(np.float64)) * (0.5 * (high.astype(np.float64) - low)) + 0.5 * (high.astype(np.float64) + low)
        if not np.allclose(a, ref, rtol=1e-5, atol=float(np.max(tol))):
            chk.fail("C10:DeterministicTanhPolicy:form", "the policy output is not tanh(y) * half range + centre", {"bounds": kind, "low": low.tolist(), "high": high.tolist()})


def cem_cases(chk, rng, n):
    import jax
    import jax.numpy as jnp
    from rl_blox.blox.cross_entropy_method import cem_sample
    exprs, recs = [], []
    for i in range(n):
        d = int(rng.choice([1, 2, 5]))
        kind, low, high = draw_bounds(rng, d)
        u = rng.random(d)
        pos = str(rng.choice(["interior", "near-bound", "on-bound"]))
        frac = {"interior": u, "near-bound": np.where(u < 0.5, 1e-4 * u, 1 - 1e-4 * u), "on-bound": np.where(u < 0.5, 0.0, 1.0)}[pos]
        mean = (low + frac * (high.astype(np.float64) - low)).astype(np.float32)
        mean = np.clip(mean, low, high)
        var = (rng.choice([1e-8, 1e-2, 1.0, 1e6]) * rng.random(d) * (high - low) ** 2).astype(np.float32)
        key = jax.random.key(int(rng.integers(0, 2 ** 31)))
        npop = 6
        s = np.asarray(cem_sample(jnp.asarray(mean), jnp.asarray(var), key, npop, jnp.asarray(low), jnp.asarray(high)), dtype=np.float64)
        z = np.asarray(jax.random.truncated_normal(key, -2.0, 2.0, shape=(npop, d)), dtype=np.float64)
        case = {"bounds": kind, "low": low.tolist(), "high": high.tolist(), "mean": mean.tolist(), "var": var.tolist(), "mean_is": pos}
        chk.case(("cem", i, kind, pos))
        chk.count("cem_" + pos)
        tol = ulp_tol(low, high)
        if not (np.all(s >= low - tol) and np.all(s <= high + tol)):
            chk.fail("C10:cem_sample:bounds", "a planner candidate lies outside the bounds", {"case": case, "samples": s.tolist()})
        elif np.any(s < low) or np.any(s > high):
            chk.count("cem_candidates_off_by_rounding")
        if np.any(np.abs(z) > 2.0):
            chk.fail("C10:cem_sample:truncation", "the truncated normal variate leaves [-2, 2]", {"case": case})
        exprs.append("(sl sf [" + "; ".join(
            f"M.cem_candidate float_ops {flit(float(mean[j]))} {flit(float(var[j]))} {flit(float(low[j]))} {flit(float(high[j]))} {flit(float(z[p][j]))}"
            for p in range(npop) for j in range(d)) + "])")
        recs.append((case, s.reshape(-1), np.tile(0.5 * (high.astype(np.float64) - low), npop), np.tile(np.maximum(np.abs(low), np.abs(high)), npop)))
    res = chk.model_eval(exprs, per_file=60)
    for (case, impl, scale, mag), mr in zip(recs, res):
        m = [parse_f(x) for x in mr]
        if len(m) != len(impl) or not all(abs(a - b) <= 2e-5 * s + 4e-7 * g for a, b, s, g in zip(impl, m, scale, mag)):
            chk.disagree("cem_sample", {"case": case, "impl": impl.tolist(), "model": m})


def planner_cases(chk, rng, n):
    """the sampler PETS builds for its planner: every candidate action of every plan step inside the box of its own dimension"""
    import jax
    import jax.numpy as jnp
    from rl_blox.algorithm.pets import _init_mpc_optimizer_cem
    for i in range(n):
        d, H = int(rng.choice([1, 2, 3])), int(rng.choice([1, 2, 4]))
        kind, low, high = draw_bounds(rng, d)
        sample, _ = _init_mpc_optimizer_cem(box(low, high), H, 16)
        frac_ = rng.random((H, d))
        mean = (low + frac_ * (high.astype(np.float64) - low)).astype(np.float32)
        var = (rng.choice([1e-2, 1.0, 1e3]) * np.ones((H, d)) * (high - low) ** 2).astype(np.float32)
        c = np.asarray(sample(jnp.asarray(mean), jnp.asarray(var), jax.random.key(i)), dtype=np.float64)
        tol = ulp_tol(low, high)
        case = {"bounds": kind, "low": low.tolist(), "high": high.tolist(), "plan_horizon": H, "mean": mean.tolist()}
        chk.case(("planner", i, kind, d, H))
        chk.count("planner_cases")
        if c.shape != (16, H, d) or not (np.all(c >= low - tol) and np.all(c <= high + tol)):
            chk.fail("C10:pets._init_mpc_optimizer_cem:bounds", "a planner candidate action lies outside the bounds of its action dimension",
                     {"case": case, "shape": list(c.shape), "min_per_dim": c.reshape(-1, d).min(axis=0).tolist() if c.ndim == 3 else None,
                      "max_per_dim": c.reshape(-1, d).max(axis=0).tolist() if c.ndim == 3 else None})


ROUTINES = ["ddpg", "td3", "td3_lap", "td7", "mrq", "pets"]


def training_runs(chk, rng, per):
    import jax
    import rl_blox.algorithm.td3 as td3m
    for name in ROUTINES:
        for _ in range(per):
            d = int(rng.choice([1, 2])) if name != "pets" else 2        # the planner's bounds are laid out per plan step and dimension
            kind, low, high = draw_bounds(rng, d)
            noise = float(rng.choice([0.1, 1.0, 5.0]))
            tnoise, clipc = float(rng.choice([0.2, 3.0])), float(rng.choice([0.1, 0.5]))
            kw = {"exploration_noise": noise}
            if name == "td3":       # train_td3 uses exploration_noise for the target smoothing as well
                kw.update({"noise_clip": clipc})
            elif name in ("td3_lap", "td7", "mrq"):
                kw.update({"target_policy_noise": tnoise, "noise_clip": clipc})
            if name == "pets":
                kw = {}
            script = [(int(rng.choice([2, 3, 5])), str(rng.choice(["term", "trunc"]))) for _ in range(3)]
            total, warm = int(rng.choice([8, 12])), int(rng.choice([0, 3])) if name != "pets" else 3
            case = {"routine": name, "bounds": kind, "low": low.tolist(), "high": high.tolist(), "script": script, "total_timesteps": total,
                    "learning_starts": warm, **kw}
            rec = []
            orig = td3m.sample_target_actions

            levels = {"explore": set(), "target": set()}     # the noise levels the routine hands to its two samplers (static arguments)

            def wrapped(action_low, action_high, action_scale, exploration_noise, noise_clip, policy, obs, key, _o=orig, _rec=rec):
                levels["target"].add((float(exploration_noise), float(noise_clip)))
                out = _o(action_low, action_high, action_scale, exploration_noise, noise_clip, policy, obs, key)
                jax.debug.callback(lambda p, o: _rec.append((np.array(p), np.array(o))), policy(obs), out)
                return out
            td3m.sample_target_actions = wrapped
            import rl_blox.algorithm.ddpg as ddpgm
            orig_sa, rec_sa = ddpgm.sample_actions, []

            def wrapped_sa(action_low, action_high, action_scale, exploration_noise, policy, obs, key, _o=orig_sa):
                levels["explore"].add(float(exploration_noise))
                out = _o(action_low, action_high, action_scale, exploration_noise, policy, obs, key)
                jax.debug.callback(lambda p, o, kd: rec_sa.append((np.array(p), np.array(o), np.array(kd))), policy(obs), out, jax.random.key_data(key))
                return out
            ddpgm.sample_actions = wrapped_sa
            try:
                res = tr.run(name, script, total, warm=warm, seed=int(rng.integers(0, 1000)), low=tuple(float(x) for x in low), high=tuple(float(x) for x in high),
                             extra={"kw": kw, "pd": 1})
                jax.effects_barrier()
            finally:
                td3m.sample_target_actions = orig
                ddpgm.sample_actions = orig_sa
            # the configured noise levels reach the right sampler, and every exploration action is clip(pi(o) + level * half range * N(0,1)(key))
            if name != "pets":
                exp_target = {"td3": (noise, clipc), "ddpg": None}.get(name, (tnoise, clipc))
                if levels["explore"] - {noise} or (exp_target is not None and levels["target"] - {exp_target}):
                    chk.fail(f"C10:train_{name}:noise-level", "the routine builds a sampler with a noise level other than the configured one",
                             {"case": case, "exploration_sampler_levels": sorted(levels["explore"]), "target_sampler_levels": sorted(levels["target"]),
                              "configured": {"exploration_noise": noise, "target": exp_target}})
                half = 0.5 * (high.astype(np.float64) - low)
                for p_, o_, kd in rec_sa:
                    z = np.asarray(jax.random.normal(jax.random.wrap_key_data(kd), p_.shape), dtype=np.float64)
                    pre = np.clip(p_.astype(np.float64) + noise * half * z, low, high)
                    chk.count("exploration_actions_recomputed")
                    if not np.allclose(o_, pre, rtol=2e-5, atol=2e-5 * float(np.max(np.abs(half)) + np.max(np.abs(low)) + np.max(np.abs(high)))):
                        chk.fail(f"C10:train_{name}:pre-clip-form", "an exploration action computed during training is not clip(policy action + configured noise level * half "
                                 "range * N(0,1)(key))", {"case": case, "policy_action": p_.tolist(), "action": o_.tolist(), "expected": pre.tolist()})
                        break
            # the policy heads after training still map any network output into the box
            import jax.numpy as jnp
            from flax import nnx
            from rl_blox.blox.function_approximator.policy_head import DeterministicTanhPolicy
            for mname, mod in res["mods"].items():
                mod = tr.resolve(mod)
                if mod is None or isinstance(mod, nnx.Optimizer):
                    continue
                heads = [v for _, v in nnx.iter_graph(mod) if isinstance(v, DeterministicTanhPolicy)]
                for hd in heads:
                    for sgn in (1.0, -1.0):
                        y = np.asarray(hd.scale_output(jnp.full((d,), sgn * 1e6, dtype=jnp.float32)), dtype=np.float64)
                        if not (np.all(y >= low - ulp_tol(low, high)) and np.all(y <= high + ulp_tol(low, high))):
                            chk.fail(f"C10:train_{name}:trained-head-bounds", "after training, a tanh-scaled policy head maps a large network output outside the action bounds "
                                     "(its scale / offset are no longer those of the action space)", {"case": case, "module": mname, "output": y.tolist()})
                    chk.count("trained_heads_checked")
            chk.case(("run", str(case)))
            chk.count("runs_" + name)
            tol = ulp_tol(low, high) if name == "pets" else 0.0
            for k, e in enumerate(tr.step_events(res)):
                a = np.asarray(e[2], dtype=np.float64).reshape(-1)
                chk.count("env_actions_checked")
                if a.shape != low.shape or np.any(np.isnan(a)) or not (np.all(a >= low - tol) and np.all(a <= high + tol)):
                    chk.fail(f"C10:train_{name}:env-action-bounds", "an action passed to env.step lies outside the action-space bounds",
                             {"case": case, "step": k, "action": a.tolist()})
                    break
                if np.any(a < low) or np.any(a > high):
                    chk.count("env_actions_off_by_rounding")
                if k >= warm and np.any((a == low) | (a == high)):
                    chk.count("env_actions_on_a_bound")
            scale = 0.5 * (high.astype(np.float64) - low)
            for p, o in rec:
                p, o = p.reshape(-1, d).astype(np.float64), o.reshape(-1, d).astype(np.float64)
                chk.count("target_actions_checked", len(o))
                if not (np.all(o >= low) and np.all(o <= high)):
                    chk.fail(f"C10:train_{name}:target-action-bounds", "a smoothed target action used in training lies outside the bounds", {"case": case, "actions": o.tolist()})
                    break
                pc = np.clip(p, low, high)
                slack = 4 * np.spacing(np.maximum(np.abs(o), np.abs(p)).astype(np.float32)).astype(np.float64) + 1e-6 * clipc * scale
                if np.any(np.abs(o - pc) > clipc * scale + slack):
                    chk.fail(f"C10:train_{name}:target-noise-clip", "target-smoothing noise used in training exceeds noise_clip times half the action range",
                             {"case": case, "policy_actions": p.tolist(), "target_actions": o.tolist()})
                    break


def main(chk):
    chk.proof_step()
    rng = np.random.default_rng(chk.seed)
    q = chk.tier == "quick"
    sampler_cases(chk, rng, 60 if q else 1500)
    tanh_cases(chk, rng, 40 if q else 800)
    cem_cases(chk, rng, 40 if q else 800)
    planner_cases(chk, rng, 24 if q else 400)
    training_runs(chk, rng, 2 if q else 20)
    chk.sample({"note": "bounds kinds: symmetric, asymmetric, tiny range, large range, per-dimension mixed, tiny range far from 0; policy actions inside / on / "
                        "outside the box; exploration noise 0..7.5 so that the clip is active; network outputs up to 1e30 and +-inf"})
    return chk.finish(
        rule="make_sample_actions / make_sample_target_actions outputs within [low, high] exactly, equal to the extracted Coq sample_action / "
             "sample_target_action on the key's recomputed N(0,1) variates, pre-clip form policy action + noise*half range*z, smoothing noise <= "
             "noise_clip*half range; DeterministicTanhPolicy outputs for |y| up to 1e30 and +-inf within the bounds up to 4 float32 ulp of the bound; "
             "cem_sample candidates inside [lb, ub] (<= 4 ulp) and equal to the Coq cem_candidate on recomputed truncated-normal variates; the sampler "
             "PETS builds for its planner (plan horizons 1-4, 1-3 action dimensions with different bounds) keeps every plan step inside its dimension's box; every action "
             "received by the recording environment in ddpg / td3 / td3_lap / td7 / mrq / pets runs with random bounds inside the box; every smoothed "
             "target action computed during those runs inside the box and within the noise clip",
        assumptions=["jax.random.normal / truncated_normal are recomputed from the same key (their distribution is not checked here)",
                     "float32: bounds excursions of at most 4 ulp of the larger bound magnitude are counted as rounding (tanh policy, CEM candidates, PETS actions); "
                     "clipped samplers are required to respect the bounds exactly"])
