"""C18 — numeric building blocks: two-hot coding, robust losses, norms, schedules."""
import fractions

import numpy as np

from common import flit, frac, llit, nlit, parse_f, parse_q, qlit

F = fractions.Fraction


def fl(x):
    return flit(x)


def fll(xs):
    return llit(xs, fl)


def two_hot_cases(chk, rng, n):
    import jax.numpy as jnp
    from rl_blox.blox import preprocessing as pp
    exprs, recs = [], []
    # the library's own bins for symmetric, one-sided and asymmetric exponent ranges (strictly increasing edges are part of the contract)
    ranges = [(-3.0, 3.0, 13), (0.0, 5.0, 9), (-1.0, 6.0, 12), (-6.0, 2.0, 11), (-10.0, 10.0, 101), (-2.0, 2.0, 2)]
    real = [np.asarray(pp.make_two_hot_bins(lo, hi, nb), dtype=np.float32) for lo, hi, nb in ranges]
    for (lo, hi, nb), rb in zip(ranges, real):
        chk.case(("bins", lo, hi, nb))
        chk.count("make_two_hot_bins_cases")
        if len(rb) != nb or not np.all(np.diff(rb.astype(np.float64)) > 0):
            chk.fail("C18:make_two_hot_bins:increasing", "the bin edges are not strictly increasing", {"lower_exponent": lo, "upper_exponent": hi, "n_bin_edges": nb,
                                                                                                  "bins": rb.tolist()})
        exprs.append(f"(sl sf (M.make_two_hot_bins float_ops {flit(lo)} {flit(hi)} {nlit(nb)}))")
        recs.append(("bins", (lo, hi, nb), rb))
    for i in range(n):
        if i % 3 == 0:
            bins = real[(i // 3) % len(real)]
        else:
            m = int(rng.integers(2, 9))
            gaps = rng.choice([0.25, 0.5, 1.0, 2.0, 0.75], size=m - 1)
            bins = (float(rng.integers(-8, 3)) + np.concatenate([[0.0], np.cumsum(gaps)])).astype(np.float32)
        k = int(rng.integers(1, 7))
        xs = []
        for _ in range(k):
            r = rng.random()
            if r < 0.35:
                xs.append(float(bins[int(rng.integers(0, len(bins)))]))      # exactly on an edge
            elif r < 0.45:
                xs.append(float(bins[0]))
            elif r < 0.55:
                xs.append(float(bins[-1]))
            else:
                xs.append(float(np.float32(rng.uniform(bins[0], bins[-1]))))
        if bins[0] <= 0.0 <= bins[-1]:
            xs.append(0.0)
        xs = np.array(xs, dtype=np.float32)
        enc = np.asarray(pp.two_hot_encoding(jnp.asarray(bins), jnp.asarray(xs)), dtype=float)
        dec = np.asarray(pp.two_hot_decoding(jnp.asarray(bins), jnp.asarray(enc, dtype=jnp.float32)), dtype=float)
        logits = rng.normal(0, 2, size=(len(xs), len(bins))).astype(np.float32)
        ce = np.asarray(pp.two_hot_cross_entropy_loss(jnp.asarray(bins), jnp.asarray(logits), jnp.asarray(xs)), dtype=float)
        exprs.append(
            f'(let bins = {fll(bins)} in let xs = {fll(xs)} in let enc = M.two_hot_encoding float_ops bins xs in '
            f'"[" ^ sl (sl sf) enc ^ "," ^ sl sf (M.two_hot_decoding float_ops bins enc) ^ "," ^ '
            f'sl sf (List.map2 (fun lg x -> M.two_hot_ce_row float_ops bins lg x) {llit(logits, fll)} xs) ^ "]")')
        recs.append((bins, xs, enc, dec, logits, ce))
    res = chk.model_eval(exprs, per_file=40)
    nb_ = len(ranges)
    for (_, rng_, rb), mb in zip(recs[:nb_], res[:nb_]):
        mb = np.array([parse_f(v) for v in mb])
        if len(mb) != len(rb) or not np.allclose(rb, mb, rtol=2e-6, atol=2e-6 * max(1.0, float(np.abs(mb).max()))):
            chk.disagree("make_two_hot_bins", {"lower, upper, n": list(rng_), "impl": rb.tolist(), "model": mb.tolist()})
    recs, res = recs[nb_:], res[nb_:]
    for (bins, xs, enc, dec, logits, ce), (menc, mdec, mce) in zip(recs, res):
        chk.case(("two_hot", tuple(bins.tolist()), tuple(xs.tolist())), nontrivial=True)
        chk.count("two_hot_values", len(xs))
        chk.count("two_hot_on_edge", int(sum(1 for x in xs if x in bins)))
        case = {"bins": bins.tolist(), "x": xs.tolist()}
        menc = np.array([[parse_f(v) for v in r] for r in menc])
        if not np.allclose(enc, menc, atol=2e-6, rtol=1e-5):
            chk.disagree("two_hot_encoding", {"case": case, "impl": enc.tolist(), "model": menc.tolist()})
        if not np.allclose(dec, [parse_f(v) for v in mdec], atol=1e-4, rtol=1e-5):
            chk.disagree("two_hot_decoding", {"case": case, "impl": dec.tolist(), "model": mdec})
        if not np.allclose(ce, [parse_f(v) for v in mce], atol=1e-4, rtol=1e-4):
            chk.disagree("two_hot_cross_entropy_loss", {"case": case, "logits": logits.tolist(), "impl": ce.tolist(), "model": mce})
        # spec on the implementation's own output
        for x, row, d in zip(xs, enc, dec):
            nz = np.nonzero(np.abs(row) > 1e-7)[0]
            ok = (row >= -1e-6).all() and abs(row.sum() - 1) < 1e-5 and len(nz) <= 2 and (len(nz) < 2 or nz[1] == nz[0] + 1) \
                and abs(d - x) <= 1e-4 * (1 + abs(x))
            if not ok:
                chk.fail("C18:two_hot_encoding:row", "two-hot row is not non-negative / sum one / two adjacent entries / decoding to the value",
                         {"case": case, "x": float(x), "row": row.tolist(), "decoded": float(d)})
        lsm = logits - logits.max(axis=1, keepdims=True)
        lsm = lsm - np.log(np.exp(lsm).sum(axis=1, keepdims=True))
        ref = -(enc * lsm).sum(axis=1)
        if not np.allclose(ce, ref, atol=1e-4, rtol=1e-4):
            chk.fail("C18:two_hot_cross_entropy_loss:value", "cross-entropy is not -sum(target * log softmax(logits))",
                     {"case": case, "impl": ce.tolist(), "reference": ref.tolist()})


def huber_cases(chk, rng, n):
    import jax.numpy as jnp
    from rl_blox.blox.losses import huber_loss
    exprs, recs = [], []
    for _ in range(n):
        delta = F(int(rng.integers(1, 9)), 4)
        es = []
        for _ in range(6):
            r = rng.random()
            if r < 0.3:
                es.append(delta)
            elif r < 0.5:
                es.append(delta + F(1, 1024) * int(rng.choice([-1, 1])))
            elif r < 0.6:
                es.append(F(0))
            else:
                es.append(F(int(rng.integers(0, 64)), 8))
        out = np.asarray(huber_loss(jnp.asarray([float(e) for e in es], dtype=jnp.float32), float(delta)), dtype=float)
        exprs.append(f'(sl sq (List.map (fun e -> M.huber q_ops e {qlit(delta)}) {llit(es, qlit)}))')
        recs.append((delta, es, out))
    res = chk.model_eval(exprs)
    for (delta, es, out), mr in zip(recs, res):
        chk.case(("huber", delta, tuple(es)))
        chk.count("huber_values", len(es))
        case = {"delta": str(delta), "abs_errors": [str(e) for e in es]}
        got = [frac(v) for v in out]
        if got != [parse_q(v) for v in mr]:
            chk.disagree("huber_loss", {"case": case, "impl": [str(g) for g in got], "model": mr})
        spec = [F(1, 2) * e * e if e <= delta else delta * (e - F(1, 2) * delta) for e in es]
        if got != spec:
            chk.fail("C18:huber_loss:piecewise", "Huber loss is not 0.5 e^2 within delta and delta(|e| - 0.5 delta) beyond",
                     {"case": case, "impl": [str(g) for g in got], "expected": [str(s) for s in spec]})


def masked_cases(chk, rng, n):
    import jax.numpy as jnp
    from rl_blox.blox.losses import masked_mse_loss
    exprs, recs = [], []
    for i in range(n):
        N, D = int(rng.choice([1, 2, 4, 8])), int(rng.choice([1, 2, 4]))
        P = [[F(int(rng.integers(-8, 9)), 4) for _ in range(D)] for _ in range(N)]
        T = [[F(int(rng.integers(-8, 9)), 4) for _ in range(D)] for _ in range(N)]
        kind = i % 4
        mask = [1] * N if kind == 0 else [0] * N if kind == 1 else [int(rng.integers(0, 2)) for _ in range(N)]
        Pj = jnp.asarray(np.array(P, dtype=np.float32).reshape(N, D))
        Tj = jnp.asarray(np.array(T, dtype=np.float32).reshape(N, D))
        mj = jnp.asarray(np.array(mask, dtype=np.float32))
        out = frac(masked_mse_loss(Pj, Tj, mj))
        # metamorphic: perturb the masked rows
        P2 = [[v + (7 if mask[r] == 0 else 0) for v in row] for r, row in enumerate(P)]
        out2 = frac(masked_mse_loss(jnp.asarray(np.array(P2, dtype=np.float32).reshape(N, D)), Tj, mj))
        mat = lambda M: llit(M, lambda row: llit(row, qlit))
        exprs.append(f'(sr sq (M.masked_mse_loss q_ops (M.T2 {mat(P)}) (M.T2 {mat(T)}) {llit(mask, lambda m: qlit(F(m)))}))')
        recs.append((P, T, mask, out, out2))
        if D == 1 and N > 1:
            # the same rows as 1-D predictions of shape (N,)
            p1, t1_ = [r[0] for r in P], [r[0] for r in T]
            o1 = frac(masked_mse_loss(jnp.asarray(np.array(p1, dtype=np.float32)), jnp.asarray(np.array(t1_, dtype=np.float32)), mj))
            chk.count("masked_1d_cases")
            if o1 != out:
                chk.fail("C18:masked_mse_loss:row-weight-1d", "1-D predictions are not masked per sample",
                         {"predictions": [str(v) for v in p1], "targets": [str(v) for v in t1_], "mask": mask, "impl": str(o1), "expected": str(out)})
            exprs.append(f'(sr sq (M.masked_mse_loss q_ops (M.T1 {llit(p1, qlit)}) (M.T1 {llit(t1_, qlit)}) {llit(mask, lambda m: qlit(F(m)))}))')
            recs.append(([[v] for v in p1], [[v] for v in t1_], mask, o1, o1))
    res = chk.model_eval(exprs)
    for (P, T, mask, out, out2), mr in zip(recs, res):
        N, D = len(P), len(P[0])
        chk.case(("masked", str(P), str(T), tuple(mask)), nontrivial=N > 1)
        chk.count("masked_cases")
        case = {"predictions": [[str(v) for v in r] for r in P], "targets": [[str(v) for v in r] for r in T], "mask": mask}
        if mr == "Err" or out != parse_q(mr):
            chk.disagree("masked_mse_loss", {"case": case, "impl": str(out), "model": mr})
        spec = sum(m * sum((a - b) ** 2 for a, b in zip(p, t)) for p, t, m in zip(P, T, mask)) / (N * D)
        if out != spec or out2 != out:
            chk.fail("C18:masked_mse_loss:row-weight", "masked rows do not have zero weight / unmasked rows do not have weight one",
                     {"case": case, "impl": str(out), "expected": str(spec), "after_perturbing_masked_rows": str(out2)})


def norm_cases(chk, rng, n):
    import jax.numpy as jnp
    from rl_blox.blox.function_approximator.norm import avg_l1_norm
    exprs, recs = [], []
    for i in range(n):
        d = int(rng.integers(1, 7))
        scale = [1.0, 1e-3, 1e3, 1e-12, 0.0][i % 5]
        x = (rng.normal(0, 1, size=d) * scale).astype(np.float32)
        out = np.asarray(avg_l1_norm(jnp.asarray(x)), dtype=float)
        exprs.append(f'(sl sf (M.avg_l1_norm float_ops {fll(x)} 1e-8))')
        recs.append((x, out))
    res = chk.model_eval(exprs)
    for (x, out), mr in zip(recs, res):
        chk.case(("avg_l1", tuple(x.tolist())))
        chk.count("avg_l1_cases")
        case = {"x": x.tolist()}
        m = np.array([parse_f(v) for v in mr])
        if not np.allclose(out, m, rtol=1e-5, atol=1e-30):
            chk.disagree("avg_l1_norm", {"case": case, "impl": out.tolist(), "model": m.tolist()})
        if not np.all(np.isfinite(out)):
            chk.fail("C18:avg_l1_norm:finite", "non-finite output", {"case": case, "impl": out.tolist()})
        elif np.mean(np.abs(x.astype(float))) >= 1e-6 and abs(np.mean(np.abs(out)) - 1) > 1e-5:
            chk.fail("C18:avg_l1_norm:mean-abs-one", "mean absolute value of the normalised vector is not one", {"case": case, "impl": out.tolist()})


def schedule_cases(chk, rng, n):
    from rl_blox.blox.schedules import linear_schedule
    exprs, recs = [], []
    fr_pool = [F(1, 2), F(1, 4), F(1, 8), F(3, 4), F(1), F(1, 16), F(1, 10), F(3, 10), F(7, 10), F(29, 100), F(1, 3)]
    for _ in range(n):
        T = int(rng.integers(1, 201))
        f = fr_pool[int(rng.integers(0, len(fr_pool)))]
        ff = F(float(f))
        prod = T * ff
        if abs(prod - round(prod)) < F(1, 10**9) and prod != int(prod):
            continue  # float product could round across an integer; not part of the exact regime
        start, end = (F(1), F(1, 8)) if rng.random() < 0.7 else (F(int(rng.integers(-4, 5)), 2), F(int(rng.integers(-4, 5)), 2))
        out = np.asarray(linear_schedule(T, start=float(start), end=float(end), fraction=float(f)), dtype=float)
        exprs.append(f'(sl sf (M.linear_schedule_k float_ops {nlit(T)} {fl(start)} {fl(end)} (M.transition_steps {nlit(T)} {qlit(ff)})))')
        recs.append((T, f, start, end, out))
    res = chk.model_eval(exprs, per_file=60)
    for (T, f, start, end, out), mr in zip(recs, res):
        chk.case(("schedule", T, f, start, end))
        chk.count("schedule_cases")
        case = {"total": T, "fraction": str(f), "start": str(start), "end": str(end)}
        m = np.array([parse_f(v) for v in mr])
        if len(out) != len(m) or not np.allclose(out, m, atol=2e-6, rtol=1e-6):
            chk.disagree("linear_schedule", {"case": case, "impl": out.tolist()[:12], "model": m.tolist()[:12]})
        k = int(T * float(f))
        d = np.diff(out)
        mono = (d <= 1e-6).all() if start >= end else (d >= -1e-6).all()
        ok = len(out) == T and mono and (k < 1 or abs(out[0] - float(start)) < 1e-6) and np.allclose(out[k:], float(end), atol=1e-6)
        if not ok:
            chk.fail("C18:linear_schedule:shape", "schedule length / monotonicity / start value / constant tail violated",
                     {"case": case, "impl_head": out.tolist()[:12], "transition_steps": k})


def main(chk):
    chk.proof_step()
    rng = np.random.default_rng(chk.seed)
    q = chk.tier == "quick"
    two_hot_cases(chk, rng, 60 if q else 2000)
    huber_cases(chk, rng, 60 if q else 2000)
    masked_cases(chk, rng, 80 if q else 3000)
    norm_cases(chk, rng, 50 if q else 2000)
    schedule_cases(chk, rng, 120 if q else 4000)
    chk.sample({"kind": "two-hot", "note": "bins: the library's make_two_hot_bins for symmetric / one-sided / asymmetric exponent ranges (vs the model, strictly increasing) and random dyadic bins; x on every kind of position (edge, first, last, zero, interior)"})
    return chk.finish(
        rule="two-hot encode/decode/cross-entropy on real symexp bins and dyadic bins with values exactly on edges, at both range ends, "
             "at zero and inside (float32 vs float64 model, atol 2e-6); Huber at |e| = delta and delta +- 2^-10 (exact rational "
             "comparison); masked MSE on dyadic (N,D) batches with all/none/mixed masks plus perturbation of masked rows (exact); "
             "avg-L1 norm on scales 1, 1e-3, 1e3, 1e-12, 0; linear schedules for T in 1..200 and dyadic / non-dyadic fractions",
        assumptions=["jnp.argmin / .at[].set / linspace trusted as executed", "float32 vs float64 tolerance as stated",
                     "schedule cases where float(T*fraction) may round across an integer are skipped"])
