"""C03 (second part) / C07 (learning signals): TD7 critic target, MR.Q critic loss and the
model-based encoder loss on small real modules. Networks are oracles: the harness evaluates
them itself on the documented inputs and checks the loss arithmetic built on top."""
from collections import namedtuple

import numpy as np

from c03 import PAIR, SG, close, dy, fl, mat, t1, t2, term_pattern
from common import flit, llit, parse_f
from stubs import ScriptEnv


def _env():
    return ScriptEnv([(5, "term")], low=(-1.0,), high=(1.0,))


def td7_cases(chk, rng, n):
    import jax.numpy as jnp
    import optax
    from flax import nnx
    from rl_blox.algorithm import td7
    st = td7.create_td7_state(_env(), n_embedding_dimensions=4, state_embedding_hidden_nodes=(4,), state_action_embedding_hidden_nodes=(4,),
                              policy_sa_encoding_nodes=4, policy_hidden_nodes=(4,), q_sa_encoding_nodes=4, q_hidden_nodes=(4,), seed=1)
    emb_t = nnx.clone(st.embedding)
    crit_t = nnx.clone(st.critic)
    # make targets differ from the online copies
    for m in (emb_t, crit_t):
        state = nnx.state(m)
        import jax
        state = jax.tree_util.tree_map(lambda x: x * 0.5 + 0.1, state)
        nnx.update(m, state)
    opt = nnx.Optimizer(st.critic, optax.sgd(0.0), wrt=nnx.Param)
    exprs, recs = [], []
    for i in range(n):
        N = int(rng.choice([2, 4, 8]))
        g = float(rng.choice([0.5, 0.99]))
        obs, act, nobs, nact = dy(rng, (N, 3)), dy(rng, (N, 1)), dy(rng, (N, 3)), dy(rng, (N, 1))
        rew, term = dy(rng, (N,)), term_pattern(rng, N, i % 3)
        mp = float(rng.choice([1.0, 0.5]))
        qmin, qmax = (-1e8, 1e8) if i % 2 == 0 else (-0.05, 0.05)
        o, a, no, na = (jnp.asarray(x) for x in (obs, act, nobs, nact))
        loss, maxtd, ytgt = td7.td7_update_critic(st.embedding, emb_t, st.critic, crit_t, opt, g, o, a, no, na,
                                                   jnp.asarray(rew), jnp.asarray(term), mp, qmin, qmax)
        impl = [float(loss)] + np.asarray(maxtd, dtype=float).tolist() + np.asarray(ytgt, dtype=float).tolist()
        # documented wiring
        zsa, zs = st.embedding(o, a)
        nzsa, nzs = emb_t(no, na)
        oa, noa = jnp.concatenate((o, a), -1), jnp.concatenate((no, na), -1)
        q1o = np.asarray(st.critic.q1(oa, zsa=zsa, zs=zs), dtype=float)
        q2o = np.asarray(st.critic.q2(oa, zsa=zsa, zs=zs), dtype=float)
        qto = np.asarray(crit_t(noa, zsa=nzsa, zs=nzs), dtype=float)
        ys = rew + (1 - term) * g * np.clip(qto.reshape(-1), qmin, qmax)
        e1, e2 = np.abs(q1o.reshape(-1) - ys), np.abs(q2o.reshape(-1) - ys)
        hub = lambda x: np.where(x <= mp, 0.5 * x * x, mp * (x - 0.5 * mp))
        spec = [float(hub(e1).mean() + hub(e2).mean())] + np.maximum(e1, e2).tolist() + ys.tolist()
        case = {"N": N, "gamma": g, "reward": rew.tolist(), "terminated": term.tolist(), "q_min": qmin, "q_max": qmax, "min_priority": mp}
        chk.case(("td7", N, g, obs.tobytes(), term.tobytes()))
        chk.count("loss_td7_critic")
        if not close(impl, spec, rtol=1e-4, atol=1e-5):
            chk.fail("C03:td7_update_critic:value", "TD7 critic loss / TD errors / target differ from the documented value-clipped target",
                     {"case": case, "impl": impl[:6], "documented": spec[:6]})
        exprs.append(f'(match M.td7_target float_ops {t2(qto)} {t1(rew)} {t1(term)} {flit(g)} {flit(qmin)} {flit(qmax)} with M.Err -> "\\"Err\\"" '
                     f'| M.Ok y -> (match M.td7_critic_loss float_ops {t2(q1o)} {t2(q2o)} y {flit(mp)} with M.Err -> "\\"Err\\"" '
                     f'| M.Ok (l, mx) -> "[" ^ sf l ^ "," ^ stensor sf mx ^ "," ^ stensor sf y ^ "]"))')
        recs.append((case, impl))
        # terminated rows: successor must not matter
        if term.any():
            no2 = nobs.copy()
            no2[term == 1] += 2.0
            l2, _, _ = td7.td7_update_critic(st.embedding, emb_t, st.critic, crit_t, opt, g, o, a, jnp.asarray(no2), na,
                                             jnp.asarray(rew), jnp.asarray(term), mp, qmin, qmax)
            if float(l2) != float(loss):
                chk.fail("C03:td7_update_critic:terminated-bootstrap", "a terminated transition's successor observation changed the TD7 critic loss", {"case": case})
    res = chk.model_eval(exprs)
    for (case, impl), mr in zip(recs, res):
        if mr == "Err":
            chk.disagree("td7_update_critic", {"case": case, "model": "Err"})
            continue
        flat = [parse_f(mr[0])] + [parse_f(x) for x in mr[1]["t1"]] + [parse_f(x) for x in mr[2]["t1"]]
        if not close(impl, flat, rtol=1e-4, atol=1e-5):
            chk.disagree("td7_update_critic", {"case": case, "impl": impl[:6], "model": flat[:6]})


def mrq_cases(chk, rng, n):
    import jax
    import jax.numpy as jnp
    from flax import nnx
    from rl_blox.algorithm import mrq
    st = mrq.create_mrq_state(_env(), policy_hidden_nodes=(4,), q_hidden_nodes=(4,), encoder_n_bins=7, encoder_zs_dim=4, encoder_za_dim=3,
                              encoder_zsa_dim=4, encoder_hidden_nodes=(4,), seed=2)
    enc = st.policy_with_encoder.encoder
    enc_t = nnx.clone(enc)
    q_t = nnx.clone(st.q)
    for m in (enc_t, q_t):
        nnx.update(m, jax.tree_util.tree_map(lambda x: x * 0.7 + 0.05, nnx.state(m)))
    Batch = namedtuple("Batch", ["observation", "action", "reward", "next_observation", "terminated", "truncated"])
    exprs, recs = [], []
    for i in range(n):
        N, H = int(rng.choice([2, 4, 8])), int(rng.choice([1, 2, 3]))
        g = float(rng.choice([0.5, 0.99]))
        obs, act, nobs, nact = dy(rng, (N, 3)), dy(rng, (N, 1)), dy(rng, (N, 3)), dy(rng, (N, 1))
        rew = dy(rng, (N, H))
        term = np.stack([term_pattern(rng, H, 2) for _ in range(N)]) if i % 3 else np.zeros((N, H), dtype=np.float32)
        rs, trs = float(rng.choice([1.0, 2.0, 0.5])), float(rng.choice([1.0, 0.25]))
        batch = Batch(*(jnp.asarray(x) for x in (obs, act, rew, nobs, term, np.zeros((N, H), dtype=np.float32))))
        loss, (zs, qmean, maxtd) = mrq.mrq_loss(st.q, q_t, enc, enc_t, jnp.asarray(nact), batch, g, rs, trs)
        impl = [float(loss), float(qmean)] + np.asarray(maxtd, dtype=float).tolist()
        # documented wiring
        nzs = enc_t.encode_zs(batch.next_observation)
        qto = np.asarray(q_t(enc_t.encode_zsa(nzs, jnp.asarray(nact))), dtype=float)
        zsa = enc.encode_zsa(enc.encode_zs(batch.observation), batch.action)
        q1o, q2o = np.asarray(st.q.q1(zsa), dtype=float), np.asarray(st.q.q2(zsa), dtype=float)
        ret, disc = np.zeros(N), np.ones(N)
        for t in range(H):
            ret += disc * rew[:, t]
            disc *= g * (1 - term[:, t])
        ys = (ret + disc * qto.reshape(-1) * trs) / rs
        e1, e2 = np.abs(q1o.reshape(-1) - ys), np.abs(q2o.reshape(-1) - ys)
        hub = lambda x: np.where(x <= 1.0, 0.5 * x * x, x - 0.5)
        spec = [float(hub(e1).mean() + hub(e2).mean()), float(np.minimum(q1o, q2o).mean())] + np.maximum(e1, e2).tolist()
        case = {"N": N, "H": H, "gamma": g, "reward": rew.tolist(), "terminated": term.tolist(), "reward_scale": rs, "target_reward_scale": trs}
        chk.case(("mrq", N, H, g, rew.tobytes(), term.tobytes()))
        chk.count("loss_mrq")
        if not close(impl, spec, rtol=1e-4, atol=1e-5):
            chk.fail("C03:mrq_loss:value", "MR.Q critic loss differs from the documented n-step scaled target", {"case": case, "impl": impl[:5], "documented": spec[:5]})
        # C07: everything after the first terminated step of a subtrajectory is ignored
        rew2, term2 = rew.copy(), term.copy()
        changed = False
        for b in range(N):
            first = next((t for t in range(H) if term[b, t]), None)
            if first is not None and first + 1 < H:
                rew2[b, first + 1:] += 5.0
                term2[b, first + 1:] = 1 - term2[b, first + 1:]
                changed = True
        if changed:
            b2 = batch._replace(reward=jnp.asarray(rew2), terminated=jnp.asarray(term2))
            l2, _ = mrq.mrq_loss(st.q, q_t, enc, enc_t, jnp.asarray(nact), b2, g, rs, trs)
            chk.count("mrq_post_terminal_perturbations")
            if float(l2) != float(loss):
                chk.fail("C07:mrq_loss:post-terminal", "MR.Q critic target depends on data after the first terminated step", {"case": case})
        exprs.append(f'(sr (fun (l, (m, t)) -> "[" ^ sf l ^ "," ^ sf m ^ "," ^ stensor sf t ^ "]") (M.mrq_loss float_ops {SG} {t2(q1o)} {t2(q2o)} '
                     f'{t2(qto)} {mat(rew)} {mat(term)} {flit(g)} {flit(rs)} {flit(trs)}))')
        recs.append((case, impl))
    res = chk.model_eval(exprs)
    for (case, impl), mr in zip(recs, res):
        if mr == "Err":
            chk.disagree("mrq_loss", {"case": case, "model": "Err"})
            continue
        flat = [parse_f(mr[0]), parse_f(mr[1])] + [parse_f(x) for x in mr[2].get("t1", [mr[2].get("t0")])]
        if not close(impl, flat, rtol=1e-4, atol=1e-5):
            chk.disagree("mrq_loss", {"case": case, "impl": impl[:5], "model": flat[:5]})
    return st, enc, enc_t


def encoder_cases(chk, rng, n, st, enc, enc_t):
    import jax
    import jax.numpy as jnp
    from rl_blox.blox.embedding.model_based_encoder import model_based_encoder_loss
    from rl_blox.blox.preprocessing import two_hot_cross_entropy_loss
    Batch = namedtuple("Batch", ["observation", "action", "reward", "next_observation", "terminated", "truncated"])
    bins = st.the_bins
    rollout_exprs, rollout_recs = [], []
    for i in range(n):
        N, H = int(rng.choice([2, 4])), int([1, 2, 3, 4, 5][i % 5])     # horizons >= 3: a window can go on after a termination
        obs, act, nobs = dy(rng, (N, H, 3)), dy(rng, (N, H, 1)), dy(rng, (N, H, 3))
        rew = dy(rng, (N, H))
        term = np.stack([term_pattern(rng, H, 2) for _ in range(N)]) if i % 4 else np.zeros((N, H), dtype=np.float32)
        wd, wr, wdone = 1.0, 0.5, 0.25
        env_term = bool(i % 2 == 0)
        batch = Batch(*(jnp.asarray(x) for x in (obs, act, rew, nobs, term, np.zeros((N, H), dtype=np.float32))))
        total, (dyn, rl, dl, rmse) = model_based_encoder_loss(enc, enc_t, bins, batch, H, wd, wr, wdone, env_term, True)
        impl = [float(total), float(dyn), float(rl), float(dl)]
        # documented sums of latent-dynamics / reward / termination prediction errors, row-masked after termination
        zs = enc.encode_zs(batch.observation[:, 0])
        mask = np.ones(N)
        sdyn = srl = sdl = 0.0
        per_step = {"dyn": [], "rew": [], "done": []}      # per-step, per-sample prediction errors for the Coq rollout model
        for t in range(H):
            pd, zs, logits = enc.model_head(zs, batch.action[:, t])
            tz = np.asarray(enc_t.encode_zs(batch.next_observation[:, t]), dtype=float)
            e_dyn = np.mean((np.asarray(zs, dtype=float) - tz) ** 2, axis=1)
            sdyn += float(np.mean(e_dyn * mask))
            ce = np.asarray(two_hot_cross_entropy_loss(bins, logits, batch.reward[:, t]), dtype=float)
            srl += float(np.mean(ce * mask))
            e_done = (np.asarray(pd, dtype=float).reshape(N) - term[:, t]) ** 2
            if env_term:
                sdl += float(np.mean(e_done * mask))
            per_step["dyn"].append(e_dyn)
            per_step["rew"].append(ce.reshape(N))
            per_step["done"].append(e_done if env_term else np.zeros(N))
            mask = mask * (1 - term[:, t])
        from common import flit, llit
        for comp, val in (("dyn", impl[1]), ("rew", impl[2]), ("done", impl[3])):
            rows = [[(float(per_step[comp][t][b]), float(1 - term[b, t])) for t in range(H)] for b in range(N)]
            rollout_exprs.append(f"(sf (M.rollout_batch_loss float_ops {llit(rows, lambda r: llit(r, lambda e: '(' + flit(e[0]) + ', ' + flit(e[1]) + ')'))}))")
            rollout_recs.append(({"N": N, "H": H, "component": comp, "terminated": term.tolist()}, val))
        spec = [wd * sdyn + wr * srl + wdone * sdl, sdyn, srl, sdl]
        case = {"N": N, "H": H, "reward": rew.tolist(), "terminated": term.tolist(), "environment_terminates": env_term}
        chk.case(("encoder", N, H, rew.tobytes(), term.tobytes(), env_term))
        chk.count("loss_encoder")
        names = ["total", "dynamics", "reward", "done"]
        for k in range(4):
            if not close(impl[k], spec[k], rtol=2e-4, atol=2e-5):
                chk.fail(f"C03:model_based_encoder_loss:{names[k]}",
                         f"encoder {names[k]} loss differs from the documented row-masked sum of prediction errors",
                         {"case": case, "impl": impl, "documented": spec})
                break
        # C07: rows after their first terminated step contribute nothing
        obs2, act2, nobs2, rew2 = obs.copy(), act.copy(), nobs.copy(), rew.copy()
        changed = False
        for b in range(N):
            first = next((t for t in range(H) if term[b, t]), None)
            if first is not None and first + 1 < H:
                act2[b, first + 1:] += 1.0
                nobs2[b, first + 1:] += 1.0
                rew2[b, first + 1:] += 1.0
                changed = True
        if changed:
            b2 = Batch(*(jnp.asarray(x) for x in (obs2, act2, rew2, nobs2, term, np.zeros((N, H), dtype=np.float32))))
            t2_, _ = model_based_encoder_loss(enc, enc_t, bins, b2, H, wd, wr, wdone, env_term, True)
            chk.count("encoder_post_terminal_perturbations")
            if not close(float(t2_), float(total), rtol=1e-6, atol=1e-7):
                chk.fail("C07:model_based_encoder_loss:post-terminal", "encoder loss depends on data after the first terminated step of a subtrajectory",
                         {"case": case, "loss": float(total), "loss_after": float(t2_)})
    _compare_rollouts(chk, rollout_exprs, rollout_recs)


def _compare_rollouts(chk, exprs, recs):
    from common import parse_f
    for (case, impl), mr in zip(recs, chk.model_eval(exprs, per_file=60)):
        if not close(impl, parse_f(mr), rtol=2e-4, atol=2e-5):
            chk.disagree("model_based_encoder_loss.rollout", {"case": case, "impl": impl, "model": mr})


def run(chk, rng, quick):
    td7_cases(chk, rng, 12 if quick else 300)
    st, enc, enc_t = mrq_cases(chk, rng, 12 if quick else 300)
    encoder_cases(chk, rng, 12 if quick else 300, st, enc, enc_t)
