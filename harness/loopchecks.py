"""Shared collection step of the loop-level checks (C01, C06, C10, C11, C13): runs the
training routines on scripted environments (harness/trainrun.py), evaluates the extracted
loop-skeleton model (coq/Model/Loop.v) on the same scripts, and returns one record per run."""
import numpy as np

import trainrun as tr
from common import blit, llit, nlit, olit

LIMIT_POS = {"nature_dqn": "M.LimitAfterReset", "ddqn": "M.LimitAfterReset", "per": "M.LimitAfterReset"}
HAS_LIMIT = {"nature_dqn", "ddqn", "per", "ddpg", "td3", "sac", "td7", "mrq"}
ONLINE = {"dqn": "q", "nature_dqn": "q", "ddqn": "q", "per": "q", "ddpg": "q", "td3": "q", "td3_lap": "q", "sac": "q", "td7": "critic", "mrq": "q"}


def gate_ml(name, batch, warm, uf):
    if name == "dqn":
        return f"(M.gate_gt {nlit(batch)})"
    if name in ("nature_dqn", "ddqn", "per"):
        return f"(M.gate_both {nlit(batch)} {nlit(warm)} {nlit(uf)})"
    return f"(M.gate_ge {nlit(warm)})"


def gate_py(name, batch, warm, uf):
    if name == "dqn":
        return lambda s: s > batch
    if name in ("nature_dqn", "ddqn", "per"):
        return lambda s: s > batch and s >= warm and s % uf == 0
    return lambda s: s >= warm


def script_ml(script):
    return llit(script, lambda lk: f"({nlit(lk[0])}, {'M.Term' if lk[1] == 'term' else 'M.Trunc'})")


def model_expr(name, script, total, start, limit, batch, warm, uf):
    lim = olit(limit if name in HAS_LIMIT else None, nlit)
    cfg = (f"{{M.c_budget = {nlit(total)}; c_limit = {lim}; c_limit_pos = {LIMIT_POS.get(name, 'M.LimitBeforeReset')}; "
           f"c_gate = {gate_ml(name, batch, warm, uf)}; c_obs_rule = M.ResetElseNext}}")
    ob = '(sp sn sn)'
    return (f'(let s = M.train {cfg} {script_ml(script)} {nlit(start)} in "{{\\"step\\":" ^ sn s.M.l_step ^ ",\\"stop\\":" ^ sb s.M.l_stop '
            f'^ ",\\"episodes\\":" ^ sn s.M.l_episodes ^ ",\\"updates\\":" ^ sl sn s.M.l_updates '
            f'^ ",\\"stored\\":" ^ sl (fun ((((o, k), r), o2), t) -> "[" ^ {ob} o ^ "," ^ sn k ^ "," ^ sn r ^ "," ^ {ob} o2 ^ "," ^ sb t ^ "]") s.M.l_stored '
            f'^ ",\\"resets\\":" ^ string_of_int (List.length (List.filter (fun e -> match e with M.EReset _ -> true | _ -> false) s.M.l_log)) ^ "}}")')


def gen_config(rng, name, quick):
    script = [(int(rng.choice([1, 2, 3, 5])), str(rng.choice(["term", "trunc"]))) for _ in range(3)]
    total = int(rng.choice([0, 6, 9, 12, 14])) if not quick else int(rng.choice([9, 12, 14]))
    start = int(rng.choice([0, 0, 3, total, total + 2]))
    if name in ("td3_lap", "pets", "per"):
        start = 0 if name != "per" else start
    limit = None
    if name in HAS_LIMIT and rng.random() < 0.5:
        limit = int(rng.choice([1, 2, 3]))
    warm = int(rng.choice([0, 4, 6, total + 3]))
    if name == "pets":
        warm = int(rng.choice([3, 4, 6, total + 3]))     # PETS fits its model at t = learning_starts: needs data in the buffer
    batch = 2
    uf = int(rng.choice([1, 2])) if name in ("nature_dqn", "ddqn", "per") else 1
    cap = int(rng.choice([1000, 1000, 4, 7]))          # small capacities: the ring wraps during the run
    return dict(script=script, total=total, start=start, limit=limit, warm=warm, batch=batch, uf=uf, cap=cap)


class RecAdds:
    """wraps buffer.add_sample to record what the routine keeps"""

    def __init__(self):
        self.adds = []

    def install(self, buf):
        orig = buf.add_sample
        rec = self.adds

        def add_sample(**sample):
            rec.append({k: np.array(v, copy=True) for k, v in sample.items()})
            return orig(**sample)
        buf.add_sample = add_sample


def collect(chk, rng, routines, per_routine, quick=True, extra=None, gen=None):
    """Returns a list of records {cfg, res, adds, model}. Buffers are created inside
    trainrun.run, so add_sample is recorded by patching the buffer classes for the run."""
    from rl_blox.blox import replay_buffer as rbm
    recs, exprs = [], []
    for name in routines:
        for _ in range(per_routine):
            cfg = (gen or gen_config)(rng, name, quick)
            rec = RecAdds()
            patched = []
            for cls in (rbm.ReplayBuffer, rbm.SubtrajectoryReplayBuffer):
                orig_init = cls.__init__

                def init(self, *a, _o=orig_init, **k):
                    _o(self, *a, **k)
                    rec.install(self)
                cls.__init__ = init
                patched.append((cls, orig_init))
            greedy_calls = []
            gp = _patch_greedy(name, greedy_calls)
            ex = extra(rng) if callable(extra) else dict(extra or {})
            try:
                res = tr.run(name, cfg["script"], cfg["total"], start=cfg["start"], limit=cfg["limit"], warm=cfg["warm"], batch=cfg["batch"],
                             cap=cfg.get("cap", 1000), seed=int(rng.integers(0, 1000)), extra=dict(ex, uf=cfg["uf"]))
                exc = None
            except Exception as e:  # noqa: BLE001
                import traceback
                res, exc = None, traceback.format_exc()[-1500:]
            finally:
                for cls, oi in patched:
                    cls.__init__ = oi
                _unpatch_greedy(gp)
            recs.append({"name": name, "cfg": cfg, "res": res, "adds": rec.adds, "exception": exc, "greedy_calls": greedy_calls, "extra": ex})
            exprs.append(model_expr(name, cfg["script"], cfg["total"], cfg["start"], cfg["limit"], cfg["batch"], cfg["warm"], cfg["uf"]))
            chk.case((name, str(cfg)), nontrivial=cfg["total"] > cfg["start"])
            chk.count("runs_" + name)
    models = chk.model_eval(exprs, per_file=40)
    for r, m in zip(recs, models):
        r["model"] = m
    return recs


def _patch_greedy(name, calls, online=None):
    import importlib
    modname = {"dqn": "dqn", "nature_dqn": "nature_dqn", "ddqn": "ddqn", "per": "per"}.get(name)
    if modname is None:
        return None
    import jax.numpy as jnp
    mod = importlib.import_module(f"rl_blox.algorithm.{modname}")
    orig = mod.greedy_policy

    def wrapped(q_net, obs):
        a = orig(q_net, obs)
        net = online() if online is not None else q_net       # the routine's current estimate, not whatever network it passed
        qv = np.asarray(net(jnp.array([obs])), dtype=float).reshape(-1)
        calls.append((np.array(obs, copy=True), int(a), qv))
        return a
    mod.greedy_policy = wrapped
    return (mod, orig)


def _unpatch_greedy(gp):
    if gp is not None:
        gp[0].greedy_policy = gp[1]


def case_of(r):
    c = r["cfg"]
    return {"routine": r["name"], "script": c["script"], "total_timesteps": c["total"], "global_step": c["start"], "total_episodes": c["limit"],
            "learning_starts": c["warm"], "batch_size": c["batch"], "update_frequency": c["uf"], "buffer_size": c.get("cap", 1000)}


def obs_tag(o):
    o = np.asarray(o).reshape(-1)
    return [int(o[0]), int(o[1])]


def tab_collect(chk, rng, per):
    """tabular routines on the scripted discrete environment, with the loop skeleton evaluated on the same script"""
    import tabruns
    recs, exprs = [], []
    for name in tabruns.ROUTINES:
        for _ in range(per):
            script = [(int(rng.choice([1, 2, 3, 5])), str(rng.choice(["term", "trunc"]))) for _ in range(3)]
            total = int(rng.choice([0, 1, 7, 12]))
            ns, na = int(rng.choice([3, 5])), int(rng.choice([2, 3]))
            eps = float(rng.choice([0.0, 0.5, 1.0]))
            res = tabruns.run(name, ns, na, script, total, seed=int(rng.integers(0, 1000)), epsilon=eps)
            case = {"routine": "train_" + name, "script": script, "total_timesteps": total, "n_states": ns, "n_actions": na, "epsilon": eps}
            recs.append({"name": name, "case": case, "res": res})
            exprs.append(model_expr("tabular", script, total, 0, None, 1, 0, 1))
            chk.case(("tabular", str(case)), nontrivial=total > 0)
            chk.count("runs_" + name)
    for r, m in zip(recs, chk.model_eval(exprs, per_file=40)):
        r["model"] = m
    return recs
