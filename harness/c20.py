"""C20 — loggers record faithfully; checkpoints exactly at interval crossings."""
import os
import shutil

import numpy as np

from common import BUILD, blit, llit, olit, zlit


# ---- op encoding: ("start",) ("stop", n) ("rec", key, val, ep, st) ("epoch", key, ep, st) ("freq", key, f)
def op_ml(o):
    if o[0] == "start":
        return "M.LStart"
    if o[0] == "stop":
        return f"(M.LStop {zlit(o[1])})"
    if o[0] == "rec":
        return f"(M.LRecord ({zlit(o[1])}, {zlit(o[2])}, {olit(o[3], zlit)}, {olit(o[4], zlit)}))"
    if o[0] == "epoch":
        return f"(M.LEpoch ({zlit(o[1])}, {olit(o[2], zlit)}, {olit(o[3], zlit)}))"
    if o[0] == "freq":
        return f"(M.LDefFreq ({zlit(o[1])}, {zlit(o[2])}))"
    raise ValueError(o)


KEYNAME = {0: "episode_length", 1: "return", 2: "q loss", 3: "policy", 4: "q"}
NKEYS = 5


def gen_ops(rng, n, monotone):
    """Random call sequence. monotone: explicit steps never decrease (property's domain
    for the checkpoint cadence); otherwise arbitrary explicit steps (correspondence only)."""
    ops = []
    cur = 0
    for k in (3, 4):
        if rng.random() < 0.8:
            ops.append(("freq", k, int(rng.choice([1, 2, 3, 5, 10, 12]))))
    for _ in range(n):
        r = rng.random()
        if r < 0.15:
            ops.append(("start",))
        elif r < 0.3:
            t = int(rng.integers(0, 9))
            ops.append(("stop", t))
        elif r < 0.6:
            ep = None if rng.random() < 0.5 else int(rng.integers(0, 50))
            st = None if rng.random() < 0.5 else int(rng.integers(0, 500))
            ops.append(("rec", int(rng.integers(0, 3)), int(rng.integers(-1000, 1000)), ep, st))
        elif r < 0.97:
            k = int(rng.choice([3, 4]))
            kind = rng.random()
            if kind < 0.15:
                inc = 0
            elif kind < 0.6:
                inc = int(rng.integers(1, 4))
            elif kind < 0.8:
                f = 10
                inc = f - cur % f if rng.random() < 0.5 else int(rng.integers(10, 40))
            else:
                inc = int(rng.integers(4, 13))
            if monotone:
                cur += inc
                st = cur
            else:
                st = int(rng.integers(0, 60))
            ep = None if rng.random() < 0.7 else int(rng.integers(0, 50))
            ops.append(("epoch", k, ep, st))
        else:
            ops.append(("freq", int(rng.choice([3, 4])), int(rng.choice([1, 2, 4, 7]))))
    return ops


class _Model:
    """Tiny nnx module saved by the real checkpointer."""


def make_module(kind=0):
    """kind 0: parameters only; kind 1: a policy head that also carries non-Param variables (action scale / bias)"""
    import gymnasium as gym
    from flax import nnx
    from rl_blox.blox.function_approximator.mlp import MLP
    from rl_blox.blox.function_approximator.policy_head import DeterministicTanhPolicy
    if kind % 2 == 0:
        return MLP(2, 1, [3], "relu", nnx.Rngs(0))
    return DeterministicTanhPolicy(MLP(2, 2, [3], "relu", nnx.Rngs(1)), gym.spaces.Box(np.array([-1.0, 0.5], dtype=np.float32), np.array([2.0, 0.75], dtype=np.float32)))


def run_memory_like(cls_factory, ops, standard):
    """Drive a MemoryLogger/StandardLogger; returns observable state."""
    lg = cls_factory()
    lg.define_experiment("env", "alg")
    saved = []
    if standard:
        lg._init_checkpointer = lambda: None  # no Orbax for the deprecated logger
        lg._save_checkpoint = lambda key, value: saved.append([key, lg.epoch[key]])
    inv = {v: k for k, v in KEYNAME.items()}
    for o in ops:
        if o[0] == "start":
            lg.start_new_episode()
        elif o[0] == "stop":
            lg.stop_episode(o[1])
        elif o[0] == "rec":
            lg.record_stat(KEYNAME[o[1]], o[2], episode=o[3], step=o[4])
        elif o[0] == "epoch":
            lg.record_epoch(KEYNAME[o[1]], None, episode=o[2], step=o[3])
        elif o[0] == "freq":
            lg.define_checkpoint_frequency(KEYNAME[o[1]], o[2])
    stats = []
    for k in range(NKEYS):
        name = KEYNAME[k]
        if name in lg.stats:
            xe, y = lg.get_stat(name, "episode")
            xs, y2 = lg.get_stat(name, "step")
            if list(y) != list(y2):      # the two views of one key must list the same records in the same (recording) order
                stats.append({"episode_view": [[int(a), int(c)] for a, c in zip(xe, y)], "step_view": [[int(b), int(c)] for b, c in zip(xs, y2)]})
            else:
                stats.append([[int(a), int(b), int(c)] for a, b, c in zip(xe, xs, y)])
        else:
            stats.append([])
    return {"episodes": int(lg.n_episodes), "steps": int(lg.n_steps), "stats": stats,
            "ckpt": [[inv[k], int(e)] for k, e in saved]}


def run_ckpt(ops, ckdir, module, real_save):
    from rl_blox.logging.checkpointer import OrbaxCheckpointer
    saved = []

    class Rec(OrbaxCheckpointer):
        def save_model(self, path, model):
            if real_save:
                super().save_model(path, model)
            saved.append(path)

    lg = Rec(checkpoint_dir=ckdir)
    lg.define_experiment("env", "alg")
    inv = {v: k for k, v in KEYNAME.items()}
    for o in ops:
        if o[0] == "start":
            lg.start_new_episode()
        elif o[0] == "stop":
            lg.stop_episode(o[1])
        elif o[0] == "rec":
            lg.record_stat(KEYNAME[o[1]], o[2], episode=o[3], step=o[4])
        elif o[0] == "epoch":
            lg.record_epoch(KEYNAME[o[1]], module, episode=o[2], step=o[3])
        elif o[0] == "freq":
            lg.define_checkpoint_frequency(KEYNAME[o[1]], o[2])
    out = []
    import re
    for p in saved:
        m = re.search(r"_([a-z ]+)_step_(\d+)_epoch_(\d+)/$", p)
        out.append([inv[m.group(1)], [int(m.group(2)), int(m.group(3))]])
    listed = [p for k in lg.checkpoint_path for p in lg.checkpoint_path[k]]
    return {"episodes": int(lg.n_episodes), "steps": int(lg.n_steps), "saved": out,
            "listed": listed, "saved_paths": saved,
            "listed_by_key": [list(lg.checkpoint_path[k]) for k in lg.checkpoint_path]}


def model_exprs(ops):
    o = llit(ops, op_ml)
    keys = llit(range(NKEYS), zlit)
    mm = lambda std: (
        f'(let s = M.mrun {blit(std)} ops in "{{\\"episodes\\":" ^ sz s.M.m_episodes ^ ",\\"steps\\":" ^ sz s.M.m_steps '
        f'^ ",\\"stats\\":" ^ sl (fun k -> sl (st sz sz sz) (M.get_stat s k)) {keys} '
        f'^ ",\\"ckpt\\":" ^ sl (sp sz sz) s.M.m_ckpt ^ "}}")')
    spec = (f'(let s = M.srun ops in "{{\\"episodes\\":" ^ sz s.M.s_episodes ^ ",\\"steps\\":" ^ sz s.M.s_steps '
            f'^ ",\\"stats\\":" ^ sl (fun k -> sl (st sz sz sz) (M.spec_get_stat s k)) {keys} ^ "}}")')
    ck = ('(let s = M.crun ops in "{\\"episodes\\":" ^ sz s.M.c_episodes ^ ",\\"steps\\":" ^ sz s.M.c_steps '
          '^ ",\\"saved\\":" ^ sl (sp sz (sp sz sz)) s.M.c_saved ^ "}")')
    lst = (f'(let ss = M.list_run [false; true; false] ops in sl (fun s -> "[" ^ sz s.M.m_episodes ^ "," ^ sz s.M.m_steps ^ "," '
           f'^ sl (fun k -> sl (st sz sz sz) (M.get_stat s k)) {keys} ^ "]") ss)')
    return (f'(let ops = {o} in "[" ^ {mm(False)} ^ "," ^ {mm(True)} ^ "," ^ {spec} ^ "," ^ {ck} ^ "," ^ {lst} ^ "]")')


def spec_crossings(ops):
    """Python-side statement of the cadence spec on one history (only valid when every
    key's recorded steps are non-decreasing and >= 0): saved iff floor crossing."""
    last, freq, epoch, steps = {}, {}, {}, 0
    out = []
    for o in ops:
        if o[0] == "stop":
            steps += o[1]
        elif o[0] == "freq":
            freq[o[1]] = o[2]
            last[o[1]] = 0
        elif o[0] == "epoch":
            k = o[1]
            epoch[k] = epoch.get(k, 0) + 1
            st = steps if o[3] is None else o[3]
            if k in freq and last.get(k, 0) // freq[k] < st // freq[k]:
                out.append([k, [st, epoch[k]]])
            last[k] = st
    return out


def main(chk):
    from rl_blox.logging.logger import LoggerList, MemoryLogger, StandardLogger
    chk.proof_step()
    rng = np.random.default_rng(chk.seed)
    n_cases = 300 if chk.tier == "quick" else 6000
    n_real = 6 if chk.tier == "quick" else 40
    cases = []
    for i in range(n_cases):
        monotone = rng.random() < 0.8
        n = int(rng.integers(0, 40))
        cases.append((gen_ops(rng, n, monotone), monotone))
    # fixed corner histories first
    corner = [
        ([("freq", 3, 10)] + [("epoch", 3, None, s) for s in (3, 3, 10, 10, 37, 40, 41, 41, 100)], True),
        ([("freq", 3, 1)] + [("epoch", 3, None, s) for s in (0, 0, 1, 1, 2, 5)], True),
        ([("epoch", 3, None, 7), ("freq", 3, 5), ("epoch", 3, None, 8), ("epoch", 3, None, 10)], True),
        ([("start",), ("stop", 5), ("rec", 1, 7, None, None), ("start",), ("rec", 1, 8, 9, None), ("stop", 0)], True),
    ]
    cases = corner + cases
    results = chk.model_eval([model_exprs(ops) for ops, _ in cases])
    ckdir = f"{chk.rundir}/ckpt"
    modules = [make_module(0), make_module(1)]
    for ci, ((ops, monotone), res) in enumerate(zip(cases, results)):
        module = modules[ci % 2]      # every second case records a module that also carries non-Param variables
        m_mem, m_std, spec, m_ck, m_list = res
        kinds = sorted({o[0] for o in ops})
        chk.case((len(ops), tuple(kinds), hash(str(ops))), nontrivial=len(ops) >= 3)
        for o in ops:
            chk.count("op_" + o[0])
        if ci < 2:
            chk.sample({"ops": ops, "model_memory": m_mem, "model_ckpt": m_ck})
        # --- MemoryLogger / StandardLogger
        for name, fac, std, mod in (("MemoryLogger", MemoryLogger, False, m_mem),
                                    ("StandardLogger", StandardLogger, True, m_std)):
            got = run_memory_like(fac, ops, std)
            if got != mod:
                chk.disagree(f"{name}.state", {"ops": ops, "impl": got, "model": mod})
            if got["stats"] != spec["stats"] or got["episodes"] != spec["episodes"] or got["steps"] != spec["steps"]:
                chk.fail(f"C20:{name}:records", "get_stat / counters differ from the chronological log of the calls",
                         {"ops": ops, "impl": got, "spec": spec})
        # --- LoggerList fan-out
        mems = [MemoryLogger(), StandardLogger(), MemoryLogger()]
        mems[1]._init_checkpointer = lambda: None
        mems[1]._save_checkpoint = lambda key, value: None
        ll = LoggerList(mems)
        ll.define_experiment("env", "alg")
        for o in ops:
            if o[0] == "start":
                ll.start_new_episode()
            elif o[0] == "stop":
                ll.stop_episode(o[1])
            elif o[0] == "rec":
                ll.record_stat(KEYNAME[o[1]], o[2], episode=o[3], step=o[4])
            elif o[0] == "epoch":
                ll.record_epoch(KEYNAME[o[1]], None, episode=o[2], step=o[3])
            elif o[0] == "freq":
                ll.define_checkpoint_frequency(KEYNAME[o[1]], o[2])
        got_list = []
        for lg in mems:
            stats = []
            for k in range(NKEYS):
                nm = KEYNAME[k]
                if nm in lg.stats:
                    xe, y = lg.get_stat(nm, "episode")
                    xs, _ = lg.get_stat(nm, "step")
                    stats.append([[int(a), int(b), int(c)] for a, b, c in zip(xe, xs, y)])
                else:
                    stats.append([])
            got_list.append([int(lg.n_episodes), int(lg.n_steps), stats])
        if got_list != m_list:
            chk.disagree("LoggerList.members", {"ops": ops, "impl": got_list, "model": m_list})
        exp_member = [spec["episodes"], spec["steps"], spec["stats"]]
        if any(g != exp_member for g in got_list) or ll.n_episodes != spec["episodes"]:
            chk.fail("C20:LoggerList:fanout", "members of a LoggerList did not all receive the same records",
                     {"ops": ops, "impl": got_list, "spec": exp_member})
        # --- OrbaxCheckpointer cadence
        real = ci < n_real + len(corner)
        got = run_ckpt(ops, ckdir, module, real_save=real)
        obs = {"episodes": got["episodes"], "steps": got["steps"], "saved": got["saved"]}
        if obs != m_ck:
            chk.disagree("OrbaxCheckpointer.cadence", {"ops": ops, "impl": obs, "model": m_ck})
        per_key_ok = all(
            [p for p in got["saved_paths"] if p in set(lg_paths)][-len(lg_paths):] == lg_paths if lg_paths else True
            for lg_paths in got["listed_by_key"])
        if not set(got["listed"]) <= set(got["saved_paths"]) or not per_key_ok:
            chk.fail("C20:OrbaxCheckpointer:listed-paths", "checkpoint_path lists a path that was not saved (or out of order)",
                     {"ops": ops, "listed": got["listed"], "saved": got["saved_paths"]})
        if monotone:
            want = spec_crossings(ops)
            chk.count("cadence_histories")
            chk.count("cadence_checkpoints", len(want))
            if got["saved"] != want:
                chk.fail("C20:OrbaxCheckpointer:cadence",
                         "checkpoint written on a record without interval crossing, or crossing without checkpoint",
                         {"ops": ops, "impl_saved": got["saved"], "spec_saved": want})
        if real and got["listed"]:
            import jax
            import orbax.checkpoint as ocp
            from flax import nnx
            cp = ocp.StandardCheckpointer()
            ref = nnx.state(module)
            for p in got["listed"]:
                chk.count("orbax_restores")
                try:
                    st = cp.restore(p, ref)
                    same = all(np.array_equal(np.asarray(a), np.asarray(b)) for a, b in
                               zip(jax.tree_util.tree_leaves(st), jax.tree_util.tree_leaves(ref)))
                except Exception as e:  # noqa: BLE001
                    same = False
                if not same:
                    chk.fail("C20:OrbaxCheckpointer:restorable", "a listed checkpoint path could not be restored bit-identically",
                             {"ops": ops, "path": p})
        shutil.rmtree(ckdir, ignore_errors=True)
    return chk.finish(
        rule="random start/stop/record/epoch/define-frequency call sequences (0-40 calls, 5 keys, explicit or implicit "
             "episode/step, 80% with non-decreasing steps incl. repeats, exact multiples and multi-interval jumps) plus fixed "
             "corner histories; distinct = distinct op sequences with >= 3 calls",
        assumptions=["time fields ignored", "Orbax save/restore trusted as executed (restores checked bitwise on the first cases)",
                     "values are integer payloads"])
