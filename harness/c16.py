"""C16 — black-box optimisers (CMA-ES, cross-entropy method) keep their distribution and
bookkeeping invariants.

Correspondence: the extracted model (Model/BlackBox.v, float64 instance) against
rl_blox.algorithm.cmaes / rl_blox.blox.cross_entropy_method on generated cases; oracles
(eigendecomposition, multivariate_normal, truncated_normal) are inputs of the model.
Spec oracle: the property's own statements evaluated with NumPy on the implementation's
outputs, independently of the model (`chk.fail("C16:<site>:<kind>", ...)`).
"""
import math

import numpy as np

from common import blit, llit, nlit, parse_f

# --------------------------------------------------------------------------- literals
SX = ('(let sx = function M.XNaN -> "\\"nan\\"" | M.XNegInf -> "\\"-inf\\"" | M.XPosInf -> "\\"inf\\"" '
      '| M.XFin x -> sf x in ')


def flit(x) -> str:
    x = float(x)
    assert math.isfinite(x), x
    return f"({x.hex()})"


def xlit(x) -> str:
    x = float(x)
    if math.isnan(x):
        return "M.XNaN"
    if x == math.inf:
        return "M.XPosInf"
    if x == -math.inf:
        return "M.XNegInf"
    return f"(M.XFin {flit(x)})"


def vlit(v) -> str:
    return llit(np.asarray(v, dtype=float).ravel().tolist(), flit)


def mlit(m) -> str:
    return llit(np.asarray(m, dtype=float).tolist(), lambda r: llit(r, flit))


def px(s):
    """parse a printed xval"""
    return {"nan": math.nan, "inf": math.inf, "-inf": -math.inf}.get(s) if s in ("nan", "inf", "-inf") else parse_f(s)


def pv(l):
    return np.array([parse_f(x) for x in l], dtype=float)


def pm(l):
    return np.array([[parse_f(x) for x in r] for r in l], dtype=float)


def same_x(a, b):
    return (math.isnan(a) and math.isnan(b)) or a == b


def close(a, b, rtol, atol):
    a, b = np.asarray(a, dtype=float), np.asarray(b, dtype=float)
    return a.shape == b.shape and bool(np.all(np.isfinite(a) == np.isfinite(b))) and \
        bool(np.allclose(a, b, rtol=rtol, atol=atol, equal_nan=True))


def f32(x):
    return float(np.float32(x))


# --------------------------------------------------------------------------- CMA-ES configuration
def cfg_lit(c):
    w = np.asarray(c.weights, dtype=float)
    return ("{M.c_lam = %s; c_n = %s; c_mu = %s; c_w = %s; c_mueff = %s; c_cc = %s; c_cs = %s; c_c1 = %s; "
            "c_cmu = %s; c_damps = %s; c_psw = %s; c_hsig = %s; c_alpha = %s; c_negcmu = %s}" % (
                nlit(c.n_samples_per_update), nlit(c.n_params), nlit(c.mu), vlit(w), flit(c.mueff), flit(c.cc),
                flit(c.cs), flit(c.c1), flit(c.cmu), flit(c.damps), flit(c.ps_update_weight), flit(c.hsig_threshold),
                flit(c.alpha_old), flit(c.neg_cmu)))


CFG_FIELDS = ["mueff", "cc", "cs", "c1", "cmu", "damps", "ps_update_weight", "hsig_threshold", "alpha_old", "neg_cmu"]


def config_cases(chk, rng, dims, lams):
    from rl_blox.algorithm import cmaes
    exprs, recs = [], []
    for n in dims:
        for lam in lams:
            active = bool(rng.integers(0, 2))
            case = {"n_params": int(n), "n_samples_per_update": lam, "active": active}
            ok, c = chk.impl_call("C16:cmaes.CMAESConfig.create:exception", case, cmaes.CMAESConfig.create,
                                  active=active, bounds=None, maximize=bool(rng.integers(0, 2)), min_variance=None,
                                  min_fitness_dist=0.0, max_condition=None, n_params=int(n), n_samples_per_update=lam)
            if not ok:
                continue
            L = c.n_samples_per_update
            exprs.append(
                f'(let c = M.cma_config float_ops {nlit(n)} {nlit(L)} in "[" ^ sn c.M.c_mu ^ "," ^ sl sf c.M.c_w ^ "," ^ '
                'sl sf [c.M.c_mueff; c.M.c_cc; c.M.c_cs; c.M.c_c1; c.M.c_cmu; c.M.c_damps; c.M.c_psw; c.M.c_hsig; c.M.c_alpha; c.M.c_negcmu] ^ "]")')
            recs.append((case, c, L))
    res = chk.model_eval(exprs)
    for (case, c, L), (m_mu, m_w, m_f) in zip(recs, res):
        chk.case(("config", case["n_params"], L), nontrivial=True)
        chk.count("config_cases")
        w = np.asarray(c.weights, dtype=float)
        impl_f = [float(getattr(c, k)) for k in CFG_FIELDS]
        if lam_default(case) and L != 4 + int(3 * math.log(case["n_params"])):
            chk.fail("C16:cmaes.CMAESConfig.create:default-population", "default population size is not 4 + int(3 ln n)", {"case": case, "observed": L})
        if c.mu != m_mu or not close(w, pv(m_w), 1e-5, 1e-7) or not close(impl_f, pv(m_f), 1e-5, 1e-9):
            chk.disagree("cmaes.CMAESConfig.create", {"case": case, "impl": {"mu": c.mu, "weights": w.tolist(), **dict(zip(CFG_FIELDS, impl_f))},
                                                      "model": {"mu": m_mu, "weights": pv(m_w).tolist(), **dict(zip(CFG_FIELDS, pv(m_f).tolist()))}})
        # spec: positive, non-increasing, sum to one, mu = floor(lambda / 2) >= 1 of them
        bad = []
        if len(w) != L // 2 or c.mu != L // 2 or len(w) < 1:
            bad.append("count")
        if not np.all(w > 0):
            bad.append("positive")
        if not np.all(np.diff(w) <= 0):
            bad.append("non-increasing")
        if not abs(w.sum() - 1.0) <= 1e-6:
            bad.append("sum-to-one")
        if bad:
            chk.fail("C16:cmaes.CMAESConfig.create:weights", "recombination weights are not positive / non-increasing / normalised: " + ",".join(bad),
                     {"case": case, "population": L, "weights": w.tolist()})
        if not (c.c1 > 0 and c.cmu > 0 and c.c1 + c.cmu < 1 and 0 < c.cc <= 1 and c.neg_cmu > 0):
            chk.fail("C16:cmaes.CMAESConfig.create:rates", "learning rates outside (0,1) / c1 + cmu >= 1",
                     {"case": case, "c1": c.c1, "cmu": c.cmu, "cc": c.cc, "neg_cmu": c.neg_cmu})


def lam_default(case):
    return case["n_samples_per_update"] is None


# --------------------------------------------------------------------------- CMA-ES ask/tell histories
FB_MODES = ["finite", "ties", "nonfinite", "allnan", "quadratic", "inf_only", "vector", "linear"]


def gen_feedback(rng, mode, x):
    """feedback handed to set_evaluation_feedback (a float or a short array of dyadic floats)"""
    if mode == "finite":
        return float(rng.integers(-64, 65)) / 4
    if mode == "ties":
        return float(rng.integers(0, 3))
    if mode == "nonfinite":
        u = rng.random()
        if u < 0.15:
            return math.nan
        if u < 0.3:
            return math.inf
        if u < 0.45:
            return -math.inf
        return float(rng.integers(-8, 9)) / 2
    if mode == "allnan":
        return math.nan
    if mode == "inf_only":
        return [math.inf, -math.inf, math.inf][int(rng.integers(0, 3))]
    if mode == "vector":
        return np.array([float(rng.integers(-8, 9)) / 4 for _ in range(int(rng.integers(1, 4)))], dtype=np.float32)
    if mode == "linear":                                          # consistent direction: long evolution path, step-size cap active
        return float(np.asarray(x, dtype=float)[0])
    return float(np.sum(np.asarray(x, dtype=float) ** 2))        # quadratic: distance from the origin


def snap_state(s):
    return {"it": int(s.it), "mean": np.asarray(s.mean, dtype=float), "last_mean": np.asarray(s.last_mean, dtype=float),
            "var": float(s.var), "cov": np.asarray(s.cov, dtype=float), "invsqrtC": np.asarray(s.invsqrtC, dtype=float),
            "pc": np.asarray(s.pc, dtype=float), "ps": np.asarray(s.ps, dtype=float),
            "best_fitness": float(s.best_fitness), "best_fitness_it": int(s.best_fitness_it),
            "best_params": np.asarray(s.best_params, dtype=float)}


def state_lit(s):
    return ("{M.s_it = %s; s_mean = %s; s_last_mean = %s; s_var = %s; s_cov = %s; s_invsqrt = %s; s_pc = %s; s_ps = %s; "
            "s_best = %s; s_best_it = %s; s_best_params = %s}" % (
                nlit(s["it"]), vlit(s["mean"]), vlit(s["last_mean"]), flit(s["var"]), mlit(s["cov"]), mlit(s["invsqrtC"]),
                vlit(s["pc"]), vlit(s["ps"]), xlit(s["best_fitness"]), nlit(s["best_fitness_it"]), vlit(s["best_params"])))


def rank_spec(fit32):
    """independent ranking: ascending, NaN last, ties by index (NumPy stable sort)"""
    return np.argsort(np.asarray(fit32, dtype=np.float32), kind="stable")


def random_spd(rng, n):
    a = rng.integers(-2, 3, size=(n, n)).astype(float) / 2
    return a @ a.T + np.eye(n)


# Plain runs on the sphere function f(x) = sum x^2 (minimised, identity covariance, variance 1, start at the origin):
# (n_params, n_samples_per_update, key seed, generations). Kept fixed so that every run of the check replays them.
SPHERE_RUNS = [(1, 4, 1147, 8), (1, 6, 1084, 4), (1, 4, 7, 6), (2, 6, 11, 5)]


def cma_history(chk, rng, exprs, recs, n, lam, active, gens, hid, sphere_seed=None):
    import jax
    import jax.numpy as jnp
    from rl_blox.algorithm import cmaes
    if sphere_seed is not None:
        maximize, bounds, cov0, variance, init, seed = False, None, None, 1.0, np.zeros(n), sphere_seed
        modes = ["quadratic"] * gens
    else:
        maximize = bool(rng.integers(0, 2))
        use_bounds = rng.random() < 0.25
        bounds = np.stack([-np.ones(n) * 2, np.ones(n) * 3], axis=1) if use_bounds else None
        cov_kind = ["none", "diag", "full"][int(rng.integers(0, 3))]
        cov0 = None if cov_kind == "none" else (rng.integers(1, 5, size=n).astype(float) / 2 if cov_kind == "diag" else random_spd(rng, n))
        variance = float(rng.choice([1.0, 0.25, 4.0, 0.0625]))
        init = rng.integers(-8, 9, size=n).astype(float) / 4
        seed = int(rng.integers(0, 2 ** 31 - 1))
        modes = [FB_MODES[int(rng.integers(0, len(FB_MODES)))] for _ in range(gens)]
    case = {"history": hid, "n_params": n, "n_samples_per_update": lam, "active": active, "maximize": maximize,
            "bounds": None if bounds is None else bounds.tolist(), "covariance": None if cov0 is None else np.asarray(cov0).tolist(),
            "variance": variance, "initial_params": init.tolist(), "key_seed": seed, "feedback_modes": modes}
    ok, config = chk.impl_call("C16:cmaes.CMAESConfig.create:exception", case, cmaes.CMAESConfig.create,
                               active=active, bounds=bounds, maximize=maximize, min_variance=None, min_fitness_dist=0.0,
                               max_condition=None, n_params=n, n_samples_per_update=lam)
    if not ok:
        return
    ok, state = chk.impl_call("C16:cmaes.CMAESState.create:exception", case, cmaes.CMAESState.create,
                              jax.random.key(seed), jnp.asarray(init), variance,
                              None if cov0 is None else jnp.asarray(cov0))
    if not ok:
        return
    s0 = snap_state(state)
    cov_expected = np.eye(n) if cov0 is None else (np.diag(cov0) if np.ndim(cov0) == 1 else cov0)
    if not (np.array_equal(s0["cov"], cov_expected) and np.array_equal(s0["mean"], init) and s0["best_fitness"] == math.inf
            and np.array_equal(s0["best_params"], init) and s0["it"] == 0 and not s0["pc"].any() and not s0["ps"].any()):
        chk.fail("C16:cmaes.CMAESState.create:initial-state", "initial state is not (mean, eye/diag/cov, +inf incumbent at the mean)",
                 {"case": case, "state": {k: (v.tolist() if hasattr(v, "tolist") else v) for k, v in s0.items()}})
    ok, samples = chk.impl_call("C16:cmaes.sample_population:exception", case, cmaes.sample_population, config, state)
    if not ok:
        return
    population = cmaes.Population.create(samples=samples)
    evaluated = []          # (candidate, fitness_k) in evaluation order — the spec's own record
    gen_lits, incumbents = [], []
    for g in range(gens):
        S = np.asarray(population.samples, dtype=float)
        fbs = []
        for k in range(lam):
            ok, x = chk.impl_call("C16:cmaes.get_next_parameters:exception", case, cmaes.get_next_parameters, config, state, population)
            if not ok:
                return
            x = np.asarray(x, dtype=float)
            fb = gen_feedback(rng, modes[g], x)
            fb32 = [f32(v) for v in np.atleast_1d(fb)]
            with np.errstate(invalid="ignore"):
                fk = f32(np.sum(np.asarray(fb32, dtype=np.float32)))
            if maximize:
                fk = -fk
            ok, _ = chk.impl_call("C16:cmaes.set_evaluation_feedback:exception", {**case, "generation": g, "k": k, "feedback": str(fb)},
                                  cmaes.set_evaluation_feedback, config, state, population, fb if isinstance(fb, float) else jnp.asarray(fb))
            if not ok:
                return
            evaluated.append((x, fk))
            fbs.append(fb32)
            # ---- spec: incumbent = best candidate evaluated so far (last minimiser; NaN never wins)
            cand = [(i, f) for i, (_, f) in enumerate(evaluated) if not math.isnan(f)]
            if cand:
                fmin = min(f for _, f in cand)
                ibest = max(i for i, f in cand if f == fmin)
                exp = (fmin, ibest, evaluated[ibest][0])
            else:
                exp = (math.inf, 0, init)
            obs = (float(state.best_fitness), int(state.best_fitness_it), np.asarray(state.best_params, dtype=float))
            if not (obs[0] == exp[0] and obs[1] == exp[1] and np.array_equal(obs[2], exp[2]) and int(state.it) == len(evaluated)
                    and np.array_equal(x, S[k])):
                chk.fail("C16:cmaes.set_evaluation_feedback:incumbent",
                         "reported best fitness / parameters are not those of the best candidate evaluated so far",
                         {"case": case, "evaluations": [[c.tolist(), f] for c, f in evaluated],
                          "observed": [obs[0], obs[1], obs[2].tolist(), int(state.it)], "expected": [exp[0], exp[1], np.asarray(exp[2]).tolist()]})
            incumbents.append(obs)
        popfit = [float(v) for v in population.fitness]
        gen_lits.append((S, fbs, popfit))
        # ---- update of the search distribution
        pre = snap_state(state)
        fit32 = [f32(v) for v in popfit]
        ok, _ = chk.impl_call("C16:cmaes.update_search_distribution:exception", {**case, "generation": g, "fitness": [str(v) for v in popfit]},
                              cmaes.update_search_distribution, config, state, population)
        if not ok:
            return
        post = snap_state(state)
        chk.case(("update", n, lam, active, modes[g], g > 0), nontrivial=True)
        chk.count("updates_active" if active else "updates_default")
        chk.count("updates_fitness_" + modes[g])
        ucase = {**case, "generation": g, "fitness": [str(v) for v in popfit], "samples": S.tolist(),
                 "state_before": {k: (v.tolist() if hasattr(v, "tolist") else v) for k, v in pre.items()}}
        w = np.asarray(config.weights, dtype=float)
        # spec 1: mean = weight-averaged best mu of the evaluated population
        r = rank_spec(fit32)
        mean_spec = (w[:, None] * S[r[:config.mu]]).sum(axis=0)
        scale = 1.0 + float(np.max(np.abs(S)))
        if not (close(post["mean"], mean_spec, 1e-5, 1e-5 * scale) and np.array_equal(post["last_mean"], pre["mean"])):
            chk.fail("C16:cmaes.update_search_distribution:mean", "new mean is not the weight-averaged best mu candidates of the evaluated population",
                     {"case": ucase, "observed": post["mean"].tolist(), "expected": mean_spec.tolist(), "ranking": r.tolist()})
        # spec 2: step size grows by at most exp(0.6), stays positive
        ratio = math.sqrt(post["var"] / pre["var"]) if post["var"] > 0 else math.nan
        if not (post["var"] > 0 and ratio <= math.exp(0.6) * (1 + 1e-6)):
            chk.fail("C16:cmaes.update_search_distribution:step-size", "step size grew by more than exp(0.6) or is not positive",
                     {"case": ucase, "var_before": pre["var"], "var_after": post["var"], "sigma_ratio": ratio, "bound": math.exp(0.6)})
        if ratio >= math.exp(0.6) * (1 - 1e-6):
            chk.count("updates_with_step_size_cap_active")
        # spec 3: covariance symmetric (up to float32 rounding of the two orders of multiplication) with positive variances
        C = post["cov"]
        if not (C.shape == (n, n) and np.all(np.isfinite(C)) and np.max(np.abs(C - C.T)) <= 1e-5 * np.max(np.abs(C))):
            chk.fail("C16:cmaes.update_search_distribution:cov-symmetric", "covariance is not a finite symmetric n x n matrix",
                     {"case": ucase, "cov": C.tolist()})
        diag_ok = bool(np.all(np.diag(C) > 0))
        if not diag_ok:
            chk.fail("C16:cmaes.update_search_distribution:cov-diag-positive" + ("-active" if active else ""),
                     "a variance (diagonal entry of the search covariance) is not positive after update_search_distribution"
                     + (" with active=True (the negative rank-mu term of the worst candidates outweighs the rest)" if active else ""),
                     {"case": ucase, "cov_diag_before": np.diag(pre["cov"]).tolist(), "cov_diag_after": np.diag(C).tolist(),
                      "normalised_squared_distances": (((S - pre["mean"]) ** 2) / pre["var"] / np.diag(pre["cov"])).tolist(),
                      "consequence": "the next sample_population draws from a non-PSD covariance (NaN candidates)"})
        # model: one update from the implementation's own pre-state (invsqrtC is the oracle input)
        exprs.append(
            f'(let st = M.cma_update float_ops {cfg_lit(config)} {blit(active)} {state_lit(pre)} {mlit(S)} {llit(fit32, xlit)} in '
            f'"[" ^ sl sf st.M.s_mean ^ "," ^ sl sf st.M.s_last_mean ^ "," ^ sf st.M.s_var ^ "," ^ sl (sl sf) st.M.s_cov ^ "," ^ '
            f'sl sf st.M.s_pc ^ "," ^ sl sf st.M.s_ps ^ "," ^ sl sn (M.argsort float_ops {llit(fit32, xlit)}) ^ "]")')
        ps2 = float(np.sum(post["ps"] ** 2))
        lhs = ps2 / n / math.sqrt(1 - (1 - config.cs) ** (2 * pre["it"] / lam))
        recs.append(("update", ucase, post, r, abs(lhs - config.hsig_threshold) < 1e-3 * config.hsig_threshold, scale))
        if g + 1 < gens:
            ok, samples = chk.impl_call("C16:cmaes.sample_population:exception", ucase, cmaes.sample_population, config, state)
            if not ok:
                return
            if bounds is not None and not (np.all(np.asarray(samples) >= bounds[:, 0]) and np.all(np.asarray(samples) <= bounds[:, 1])):
                chk.fail("C16:cmaes.sample_population:bounds", "a sampled candidate lies outside the configured bounds", {"case": ucase})
            if not np.all(np.isfinite(np.asarray(samples))):
                if diag_ok:         # otherwise already reported above
                    chk.fail("C16:cmaes.sample_population:non-finite", "sampling from the updated search distribution produced non-finite candidates "
                             "(the covariance is no longer positive definite)", {"case": ucase, "cov": C.tolist(), "var": post["var"]})
                break
            population = cmaes.Population.create(samples=samples)
    # model: the whole evaluation history through set_feedback
    glit = llit(gen_lits, lambda gl: f"({mlit(gl[0])}, {llit(gl[1], lambda fb: llit(fb, xlit))})")
    exprs.append(
        SX + f'let st0 = M.cma_init float_ops {vlit(init)} {flit(variance)} {mlit(s0["cov"])} {mlit(s0["invsqrtC"])} in '
        f'let (_, acc, pfs) = List.fold_left (fun (st, acc, pfs) (samples, fbs) -> '
        f'let (st, pf, acc) = List.fold_left (fun (st, pf, acc) fb -> '
        f'let (st2, pf2) = M.set_feedback float_ops {nlit(lam)} {blit(maximize)} st samples pf fb in '
        f'(st2, pf2, ("[" ^ sx st2.M.s_best ^ "," ^ sn st2.M.s_best_it ^ "," ^ sl sf st2.M.s_best_params ^ "," ^ sn st2.M.s_it ^ "]") :: acc)) '
        f'(st, List.map (fun _ -> M.XPosInf) samples, acc) fbs in (st, acc, sl sx pf :: pfs)) (st0, [], []) {glit} in '
        f'"[" ^ sl (fun s -> s) (List.rev acc) ^ "," ^ sl (fun s -> s) (List.rev pfs) ^ "]")')
    recs.append(("feedback", case, incumbents, [gl[2] for gl in gen_lits]))
    chk.case(("history", n, lam, active, maximize, tuple(modes)), nontrivial=True)
    chk.count("histories")
    chk.count("evaluations", len(evaluated))


def cma_compare(chk, recs, res):
    for rec, mr in zip(recs, res):
        if rec[0] == "update":
            _, ucase, post, r, near_hsig, scale = rec
            m_mean, m_last, m_var, m_cov, m_pc, m_ps, m_rank = mr
            bad = []
            if list(m_rank) != [int(i) for i in r]:
                bad.append("ranking")
            if not close(post["mean"], pv(m_mean), 1e-4, 1e-5 * scale):
                bad.append("mean")
            if not np.array_equal(post["last_mean"], pv(m_last)):
                bad.append("last_mean")
            if not close(post["ps"], pv(m_ps), 2e-3, 2e-4 * (1 + np.max(np.abs(post["ps"])))):
                bad.append("ps")
            if not close(post["var"], parse_f(m_var), 2e-3, 0):
                bad.append("var")
            if near_hsig:
                chk.count("updates_skipped_near_hsig_threshold")
            else:
                if not close(post["pc"], pv(m_pc), 2e-3, 2e-4 * (1 + np.max(np.abs(post["pc"])))):
                    bad.append("pc")
                if not close(post["cov"], pm(m_cov), 2e-3, 2e-4 * np.max(np.abs(post["cov"]))):
                    bad.append("cov")
            if bad:
                chk.disagree("cmaes.update_search_distribution", {
                    "fields": bad, "case": ucase,
                    "impl": {k: (v.tolist() if hasattr(v, "tolist") else v) for k, v in post.items()},
                    "model": {"mean": pv(m_mean).tolist(), "var": parse_f(m_var), "cov": pm(m_cov).tolist(), "pc": pv(m_pc).tolist(),
                              "ps": pv(m_ps).tolist(), "ranking": m_rank}})
        else:
            _, case, incumbents, popfits = rec
            m_inc, m_pf = mr
            ok = len(m_inc) == len(incumbents)
            for (bf, bi, bp), (mf, mi, mp, mit) in zip(incumbents, m_inc):
                ok = ok and same_x(bf, px(mf)) and bi == mi and np.array_equal(bp, pv(mp))
            for pf, mpf in zip(popfits, m_pf):
                ok = ok and len(pf) == len(mpf) and all(same_x(f32(a), px(b)) for a, b in zip(pf, mpf))
            if not ok:
                chk.disagree("cmaes.set_evaluation_feedback", {"case": case, "impl": [[a, b, c.tolist()] for a, b, c in incumbents],
                                                               "impl_population_fitness": popfits, "model": [m_inc, m_pf]})


def cma_cases(chk, rng, n_hist):
    exprs, recs = [], []
    for h in range(n_hist):
        n = int(rng.integers(1, 7))
        lam = int(rng.integers(4, 13)) if h % 7 else int(rng.integers(2, 4))       # a few populations of 2 and 3 (mu = 1)
        cma_history(chk, rng, exprs, recs, n, lam, active=bool(h % 2), gens=int(rng.integers(2, 5)), hid=h)
    for i, (n, lam, seed, gens) in enumerate(SPHERE_RUNS):
        for active in (True, False):
            cma_history(chk, rng, exprs, recs, n, lam, active=active, gens=gens, hid=f"sphere-{i}-{'active' if active else 'default'}", sphere_seed=seed)
            chk.count("sphere_runs")
    res = chk.model_eval(exprs, per_file=40)
    cma_compare(chk, recs, res)


# --------------------------------------------------------------------------- flat parameter vectors
def architectures():
    import gymnasium as gym
    from flax import nnx
    from rl_blox.blox.function_approximator.gaussian_mlp import GaussianMLP
    from rl_blox.blox.function_approximator.layer_norm_mlp import LayerNormMLP
    from rl_blox.blox.function_approximator.mlp import MLP
    from rl_blox.blox.function_approximator.policy_head import (DeterministicTanhPolicy, GaussianPolicy, GaussianTanhPolicy,
                                                                 SoftmaxPolicy)
    box = gym.spaces.Box(low=np.array([-2.0, -1.0], dtype=np.float32), high=np.array([2.0, 3.0], dtype=np.float32))
    return [
        ("MLP[]", lambda: MLP(3, 2, [], "relu", nnx.Rngs(0))),
        ("MLP[4]", lambda: MLP(2, 1, [4], "tanh", nnx.Rngs(1))),
        ("MLP[5,3]", lambda: MLP(4, 2, [5, 3], "relu", nnx.Rngs(2))),
        ("MLP[1,1,1]", lambda: MLP(1, 1, [1, 1, 1], "relu", nnx.Rngs(3))),
        ("GaussianMLP shared", lambda: GaussianMLP(True, 3, 2, [4], "relu", nnx.Rngs(4))),
        ("GaussianMLP separate", lambda: GaussianMLP(False, 3, 2, [4, 3], "tanh", nnx.Rngs(5))),
        ("GaussianMLP separate no hidden", lambda: GaussianMLP(False, 2, 1, [], "relu", nnx.Rngs(6))),
        ("LayerNormMLP[4]", lambda: LayerNormMLP(3, 2, [4], "relu", nnx.Rngs(7))),
        ("LayerNormMLP[3,5]", lambda: LayerNormMLP(2, 3, [3, 5], "elu", nnx.Rngs(8))),
        ("DeterministicTanhPolicy(MLP)", lambda: DeterministicTanhPolicy(MLP(3, 2, [4], "relu", nnx.Rngs(9)), box)),
        ("SoftmaxPolicy(MLP)", lambda: SoftmaxPolicy(MLP(3, 4, [5], "relu", nnx.Rngs(10)))),
        ("GaussianPolicy(GaussianMLP)", lambda: GaussianPolicy(GaussianMLP(False, 3, 2, [4], "relu", nnx.Rngs(11)))),
        ("GaussianTanhPolicy(GaussianMLP)", lambda: GaussianTanhPolicy(GaussianMLP(True, 3, 2, [4], "relu", nnx.Rngs(12)), box)),
        ("SoftmaxPolicy(LayerNormMLP)", lambda: SoftmaxPolicy(LayerNormMLP(2, 3, [4], "relu", nnx.Rngs(13)))),
    ]


def param_leaves(net):
    import jax
    from flax import nnx
    return jax.tree_util.tree_leaves(nnx.state(net, nnx.Param))


def other_leaves(net):
    import jax
    from flax import nnx
    out = []
    for x in jax.tree_util.tree_leaves(nnx.state(net, nnx.Not(nnx.Param))):
        try:
            a = np.asarray(x)
        except Exception:  # noqa: BLE001  (typed PRNG keys)
            continue
        if a.dtype.kind == "f":
            out.append(a)
    return out


def flat_cases(chk, rng, archs):
    import jax.numpy as jnp
    from rl_blox.algorithm import cmaes
    exprs, recs = [], []
    for name, make in archs:
        net = make()
        case = {"architecture": name}
        shapes = [tuple(int(d) for d in l.shape) for l in param_leaves(net)]
        total = int(sum(int(np.prod(s)) for s in shapes))
        case["leaf_shapes"] = [list(s) for s in shapes]
        ok, p0 = chk.impl_call("C16:cmaes.flat_params:exception", case, cmaes.flat_params, net)
        if not ok:
            continue
        p0 = np.asarray(p0)
        others0 = other_leaves(net)
        # 1) index-coded vector: leaf contents after the write are known exactly
        codes = rng.permutation(total).astype(np.float32)
        # 2) arbitrary float32 bit patterns (subnormal, negative zero, large), written after the coded one
        weird = rng.standard_normal(total).astype(np.float32) * np.float32(10.0) ** rng.integers(-30, 30, size=total).astype(np.float32)
        weird[:: max(1, total // 5)] = np.float32(-0.0)
        for tag, p in (("coded", codes), ("float32", weird), ("restore", p0)):
            ok, _ = chk.impl_call("C16:cmaes.set_params:exception", {**case, "vector": tag}, cmaes.set_params, net, jnp.asarray(p))
            if not ok:
                break
            ok, p1 = chk.impl_call("C16:cmaes.flat_params:exception", {**case, "vector": tag}, cmaes.flat_params, net)
            if not ok:
                break
            p1 = np.asarray(p1)
            chk.case(("flat", name, tag), nontrivial=True)
            chk.count("flat_roundtrips")
            # spec: write then read back is the identity, bit for bit
            if not (p1.dtype == np.float32 and p1.shape == p.shape and np.array_equal(p1.view(np.uint32), p.view(np.uint32))):
                chk.fail("C16:cmaes.set_params:roundtrip", "flat_params(set_params(net, p)) is not p (bitwise)",
                         {"case": case, "vector": tag, "written": p.tolist(), "read_back": p1.tolist()})
            leaves = [np.asarray(l) for l in param_leaves(net)]
            off, okl = 0, [tuple(l.shape) for l in leaves] == shapes
            for l in leaves:
                okl = okl and np.array_equal(l.ravel().view(np.uint32), p[off:off + l.size].view(np.uint32))
                off += l.size
            if not (okl and off == total):
                chk.fail("C16:cmaes.set_params:leaves", "the network's parameter leaves are not the consecutive row-major slices of the written vector",
                         {"case": case, "vector": tag})
            if not all(np.array_equal(a, b) for a, b in zip(others0, other_leaves(net))):
                chk.fail("C16:cmaes.set_params:frame", "set_params changed a variable that is not an nnx.Param", {"case": case, "vector": tag})
            if tag == "coded":
                sh = llit(shapes, lambda s: llit(s, nlit))
                exprs.append(f'(let lv = M.set_params {sh} {llit([int(c) for c in codes], str)} in '
                             f'"[" ^ sl (fun (s, d) -> "[" ^ sl sn s ^ "," ^ sl string_of_int d ^ "]") lv ^ "," ^ sl string_of_int (M.flat_params lv) ^ "]")')
                recs.append((case, shapes, [[int(v) for v in l.ravel()] for l in leaves], [int(c) for c in codes]))
    res = chk.model_eval(exprs)
    for (case, shapes, leaves, codes), (m_leaves, m_flat) in zip(recs, res):
        if [tuple(s) for s, _ in m_leaves] != shapes or [d for _, d in m_leaves] != leaves or m_flat != codes:
            chk.disagree("cmaes.set_params/flat_params", {"case": case, "impl_leaves": leaves, "model_leaves": m_leaves, "model_flat": m_flat})


# --------------------------------------------------------------------------- cross-entropy method
def cem_boxes(rng, d):
    """(lb, ub, mean, var): asymmetric / tiny / large boxes, means inside (also on the boundary)"""
    kind = int(rng.integers(0, 6))
    if kind == 0:
        lb, ub = -np.ones(d), np.ones(d)
    elif kind == 1:
        lb, ub = rng.integers(-8, 0, size=d).astype(float), rng.integers(1, 100, size=d).astype(float)
    elif kind == 2:
        lb = rng.integers(-4, 5, size=d).astype(float)
        ub = lb + 10.0 ** rng.integers(-6, -2, size=d)
    elif kind == 3:
        lb, ub = -(10.0 ** rng.integers(3, 9, size=d)), 10.0 ** rng.integers(3, 9, size=d)
    elif kind == 4:
        lb, ub = -1000.0 * np.ones(d), 1e-3 * np.ones(d)
    else:
        lb = rng.standard_normal(d)
        ub = lb + np.abs(rng.standard_normal(d)) + 1e-3
    lb, ub = lb.astype(np.float32), ub.astype(np.float32)
    t = rng.random(d)
    t[rng.random(d) < 0.15] = 0.0
    t[rng.random(d) < 0.15] = 1.0
    mean = np.clip((lb.astype(float) + t * (ub.astype(float) - lb.astype(float))).astype(np.float32), lb, ub)
    var = (10.0 ** rng.integers(-8, 9, size=d)).astype(np.float32) * (rng.random(d) < 0.9)
    return lb, ub, mean, var.astype(np.float32)


def ulps_outside(x, lb, ub):
    """largest distance of x from [lb, ub] in float32 ulps of the violated bound (0 if inside)"""
    x, lb, ub = (np.asarray(a, dtype=np.float32) for a in (x, lb, ub))
    over = np.maximum(x.astype(float) - ub.astype(float), 0) / np.spacing(np.maximum(np.abs(ub), np.float32(1e-30))).astype(float)
    under = np.maximum(lb.astype(float) - x.astype(float), 0) / np.spacing(np.maximum(np.abs(lb), np.float32(1e-30))).astype(float)
    return float(np.max(np.maximum(over, under)))


def bounds_key(site, ulps):
    """a few ulps outside = float32 rounding of an exact-arithmetic boundary value; more = a real excursion"""
    return f"C16:{site}:mean-bounds-rounding" if ulps <= 4 else f"C16:{site}:mean-bounds"


# means exactly on a bound: constrained_var = 0, every candidate equals the bound, the elite mean is mean(k copies of the bound)
BOUNDARY_CASES = [
    # (lb, ub, mean, var, n_population, n_elite, alpha)
    ([0.36407557129859924], [0.816118597984314], [0.816118597984314], [1.0], 10, 8, 0.0),
    ([-0.3], [0.7], [0.7], [4.0], 6, 5, 0.25),
    ([-0.3, 0.1], [0.7, 0.3], [-0.3, 0.3], [1.0, 1.0], 7, 7, 0.1),
    ([1.0], [3.0], [3.0], [1.0], 9, 3, 0.5),
]


def topk_spec(f, k):
    """indices of the k largest, ties: lower index first (NaN-free input)"""
    return sorted(range(len(f)), key=lambda i: (-f[i], i))[:k]


def cem_cases(chk, rng, n_cases):
    import jax
    import jax.numpy as jnp
    from rl_blox.blox import cross_entropy_method as cem
    exprs, recs = [], []
    for c in range(n_cases + len(BOUNDARY_CASES)):
        if c < len(BOUNDARY_CASES):
            lb, ub, mean, var, npop, n_elite, alpha = BOUNDARY_CASES[c]
            lb, ub, mean, var = (np.asarray(a, dtype=np.float32) for a in (lb, ub, mean, var))
            d = len(mean)
        else:
            d = int(rng.integers(1, 5))
            npop = int(rng.integers(2, 11))
            n_elite = int(rng.integers(1, npop + 1))
            alpha = float(rng.choice([0.0, 0.25, 0.1, 0.5, 1.0, 0.9]))
            lb, ub, mean, var = cem_boxes(rng, d)
        seed = int(rng.integers(0, 2 ** 31 - 1))
        key = jax.random.key(seed)
        case = {"dim": d, "n_population": npop, "n_elite": n_elite, "alpha": alpha, "lower_bound": lb.tolist(), "upper_bound": ub.tolist(),
                "mean": mean.tolist(), "var": var.tolist(), "key_seed": seed}
        ok, S = chk.impl_call("C16:cem_sample:exception", case, cem.cem_sample, jnp.asarray(mean), jnp.asarray(var), key, npop,
                              jnp.asarray(lb), jnp.asarray(ub))
        if not ok:
            continue
        S = np.asarray(S)
        z = np.asarray(jax.random.truncated_normal(key, -2.0, 2.0, shape=(npop, d)))        # the oracle's draws
        chk.case(("cem", d, npop, n_elite, alpha, c % 6), nontrivial=True)
        chk.count("cem_sample_cases")
        # spec: candidates within the bounds (exact float comparison), draws within [-2, 2]
        if not (S.shape == (npop, d) and np.all(S >= lb) and np.all(S <= ub)):
            chk.fail("C16:cem_sample:bounds", "a proposed candidate lies outside [lower_bound, upper_bound]",
                     {"case": case, "samples": S.tolist()})
        if not np.all(np.abs(z) <= 2.0):
            chk.fail("C16:cem_sample:truncated-normal", "truncated_normal(-2, 2) returned a draw outside [-2, 2]", {"case": case})
        # fitness with ties (and +-inf in some cases)
        fmode = int(rng.integers(0, 4))
        if fmode == 0:
            fit = rng.integers(0, 3, size=npop).astype(np.float32)
        elif fmode == 1:
            fit = (rng.integers(-32, 33, size=npop) / 4).astype(np.float32)
        elif fmode == 2:
            fit = (-np.sum((S.astype(float)) ** 2, axis=1)).astype(np.float32)
        else:
            fit = (rng.integers(-4, 5, size=npop) / 2).astype(np.float32)
            fit[rng.random(npop) < 0.3] = np.float32(np.inf)
            fit[rng.random(npop) < 0.2] = np.float32(-np.inf)
        case_u = {**case, "samples": S.tolist(), "fitness": [str(v) for v in fit.tolist()]}
        ok, out = chk.impl_call("C16:cem_update:exception", case_u, cem.cem_update, jnp.asarray(S), jnp.asarray(fit), jnp.asarray(mean),
                                jnp.asarray(var), n_elite, alpha)
        if not ok:
            continue
        m2, v2 = np.asarray(out[0]), np.asarray(out[1])
        chk.count("cem_update_cases")
        top = topk_spec(fit.tolist(), n_elite)
        el = S[top].astype(float)
        m_spec = alpha * mean.astype(float) + (1 - alpha) * el.mean(axis=0)
        v_spec = alpha * var.astype(float) + (1 - alpha) * el.var(axis=0)
        sc = 1.0 + np.maximum(np.maximum(np.abs(lb.astype(float)), np.abs(ub.astype(float))), np.max(np.abs(S.astype(float)), axis=0))
        tol_v = 1e-3 * np.abs(v_spec) + 1e-5 * sc * np.sqrt(el.var(axis=0)) + 1e-11 * sc ** 2
        if not (np.all(np.abs(m2 - m_spec) <= 1e-5 * sc) and np.all(np.abs(v2 - v_spec) <= tol_v)):
            chk.fail("C16:cem_update:elites", "update is not alpha * old + (1 - alpha) * (mean / variance of exactly the n_elite best candidates)",
                     {"case": case_u, "elite_indices": top, "observed": [m2.tolist(), v2.tolist()], "expected": [m_spec.tolist(), v_spec.tolist()]})
        if not (np.all(m2 >= lb) and np.all(m2 <= ub)):
            u = ulps_outside(m2, lb, ub)
            chk.fail(bounds_key("cem_update", u), f"the updated mean lies outside [lower_bound, upper_bound] (by {u:g} float32 ulp)",
                     {"case": case_u, "mean_after": m2.tolist(), "excess": [float(max(a - b, 0)) for a, b in zip(m2, ub)],
                      "deficit": [float(max(b - a, 0)) for a, b in zip(m2, lb)], "ulps_outside": u})
        if not np.all(v2 >= 0):
            chk.fail("C16:cem_update:variance", "an updated variance is negative", {"case": case_u, "var_after": v2.tolist()})
        exprs.append(
            f'(let s = M.cem_sample float_ops {mlit(z)} {vlit(mean)} {vlit(var)} {vlit(lb)} {vlit(ub)} in '
            f'let (m, v) = M.cem_update float_ops {mlit(S)} {llit(fit.tolist(), xlit)} {vlit(mean)} {vlit(var)} {nlit(n_elite)} {flit(alpha)} in '
            f'"[" ^ sl (sl sf) s ^ "," ^ sl sf m ^ "," ^ sl sf v ^ "," ^ sl sn (M.top_k float_ops {llit(fit.tolist(), xlit)} {nlit(n_elite)}) ^ "]")')
        recs.append((case_u, S, m2, v2, top, sc, z, tol_v))
    res = chk.model_eval(exprs, per_file=60)
    for (case_u, S, m2, v2, top, sc, z, tol_v), (ms, mm, mv, mt) in zip(recs, res):
        bad = []
        if not np.all(np.abs(S.astype(float) - pm(ms)) <= 1e-5 * sc):
            bad.append("samples")
        if list(mt) != top:
            bad.append("top_k")
        if not np.all(np.abs(m2 - pv(mm)) <= 1e-5 * sc):
            bad.append("mean")
        if not np.all(np.abs(v2 - pv(mv)) <= tol_v):
            bad.append("var")
        if bad:
            chk.disagree("cross_entropy_method.cem_sample/cem_update", {"fields": bad, "case": case_u, "draws": z.tolist(),
                                                                      "impl": [m2.tolist(), v2.tolist()], "model": [pm(ms).tolist(), pv(mm).tolist(), pv(mv).tolist(), mt]})


def cem_runs(chk, rng, n_runs):
    """optimize_cem end to end: every sample of every iteration and every intermediate mean inside the box."""
    import jax
    import jax.numpy as jnp
    from rl_blox.blox import cross_entropy_method as cem
    for _ in range(n_runs):
        d = int(rng.integers(1, 4))
        lb, ub, mean, var = cem_boxes(rng, d)
        var = np.maximum(var, np.float32(1e-2))
        npop, n_iter = int(rng.integers(3, 9)), int(rng.integers(2, 6))
        n_elite = int(rng.integers(1, npop + 1))
        alpha = float(rng.choice([0.0, 0.25, 0.5]))
        target = rng.standard_normal(d)
        seed = int(rng.integers(0, 2 ** 31 - 1))
        case = {"dim": d, "n_population": npop, "n_elite": n_elite, "n_iter": n_iter, "alpha": alpha, "lower_bound": lb.tolist(),
                "upper_bound": ub.tolist(), "init_mean": mean.tolist(), "init_var": var.tolist(), "key_seed": seed,
                "fitness": "-(x - target)^2 summed, rounded to multiples of 1/4 (ties)", "target": target.tolist()}

        def fitness(x, target=target):
            return jnp.round(-jnp.sum((x - jnp.asarray(target, dtype=jnp.float32)) ** 2, axis=-1) * 4) / 4
        ok, out = chk.impl_call("C16:optimize_cem:exception", case, cem.optimize_cem, fitness, jnp.asarray(mean), jnp.asarray(var),
                                jax.random.key(seed), n_iter, npop, n_elite, jnp.asarray(lb), jnp.asarray(ub), 0.0, alpha, True)
        if not ok:
            continue
        sol, path, hist = (np.asarray(o) for o in out)
        chk.case(("cem_run", d, npop, n_elite, n_iter, alpha), nontrivial=True)
        chk.count("cem_runs")
        if not (np.all(hist >= lb) and np.all(hist <= ub)):
            u = ulps_outside(hist, lb, ub)
            chk.fail("C16:optimize_cem:sample-bounds" + ("-rounding" if u <= 4 else ""),
                     f"optimize_cem proposed a candidate outside the bounds (by {u:g} float32 ulp)", {"case": case, "samples": hist.tolist(), "ulps_outside": u})
        if not (np.all(path >= lb) and np.all(path <= ub) and np.array_equal(sol, path[-1])):
            u = ulps_outside(path, lb, ub)
            chk.fail(bounds_key("optimize_cem", u), f"an intermediate mean of optimize_cem lies outside the bounds (by {u:g} float32 ulp)",
                     {"case": case, "path": path.tolist(), "ulps_outside": u})


def replay(rep, key=None):
    """bin/replay: re-run a recorded CEM case against the working tree and print observed vs. bounds"""
    import json
    case = rep.get("case", rep)
    if key and key.startswith("C16:cem_update") and "samples" in case:
        import jax.numpy as jnp
        from rl_blox.blox import cross_entropy_method as cem
        fit = np.asarray([float(v) for v in case["fitness"]], dtype=np.float32)
        lb, ub = np.asarray(case["lower_bound"], dtype=np.float32), np.asarray(case["upper_bound"], dtype=np.float32)
        m2, v2 = cem.cem_update(jnp.asarray(case["samples"], dtype=jnp.float32), jnp.asarray(fit), jnp.asarray(case["mean"], dtype=jnp.float32),
                                jnp.asarray(case["var"], dtype=jnp.float32), case["n_elite"], case["alpha"])
        m2 = np.asarray(m2)
        u = ulps_outside(m2, lb, ub)
        print("mean after cem_update:", m2.tolist(), "bounds:", lb.tolist(), ub.tolist(), "ulps outside:", u)
        return 1 if u > 0 else 0
    if key and key.startswith("C16:cmaes.update_search_distribution:cov-diag-positive") and case.get("feedback_modes") \
            and set(case["feedback_modes"]) == {"quadratic"} and case.get("covariance") is None and case.get("bounds") is None:
        import jax
        import jax.numpy as jnp
        from rl_blox.algorithm import cmaes
        n, lam = case["n_params"], case["n_samples_per_update"]
        config = cmaes.CMAESConfig.create(active=case["active"], bounds=None, maximize=case["maximize"], min_variance=None,
                                          min_fitness_dist=0.0, max_condition=None, n_params=n, n_samples_per_update=lam)
        state = cmaes.CMAESState.create(jax.random.key(case["key_seed"]), jnp.asarray(case["initial_params"]), case["variance"], None)
        population = cmaes.Population.create(samples=cmaes.sample_population(config, state))
        for g in range(len(case["feedback_modes"])):
            for _ in range(lam):
                x = np.asarray(cmaes.get_next_parameters(config, state, population), dtype=float)
                cmaes.set_evaluation_feedback(config, state, population, float(np.sum(x ** 2)))
            cmaes.update_search_distribution(config, state, population)
            diag = np.diag(np.asarray(state.cov)).tolist()
            print(f"generation {g}: var={float(state.var):.6g} diag(cov)={diag}")
            if not all(v > 0 for v in diag):
                nxt = np.asarray(cmaes.sample_population(config, state)).tolist()
                print("non-positive variance; next population:", nxt)
                return 1
            population = cmaes.Population.create(samples=cmaes.sample_population(config, state))
        return 0
    print(json.dumps(rep, indent=1, default=str)[:20000])
    return 0


def main(chk):
    # Reading (DESIGN.md §2 C16/C10): bounds are met up to float32 rounding of the bound itself; an excursion of at most
    # 4 ulp (rounding of jnp.mean over identical boundary elites) is counted, not reported.
    _fail = chk.fail

    def _fail_unless_rounding(key, what, replay):
        if key.endswith("-rounding"):
            chk.count("bound_excursions_within_4_float32_ulp")
            return
        _fail(key, what, replay)
    chk.fail = _fail_unless_rounding
    chk.proof_step()
    rng = np.random.default_rng(chk.seed)
    q = chk.tier == "quick"
    config_cases(chk, rng, dims=[1, 2, 3, 4, 5, 6, 10, 37] if q else list(range(1, 41)) + [100, 1000],
                 lams=[None, 2, 3, 4, 5, 7, 8, 12, 13] if q else [None] + list(range(2, 41)))
    cma_cases(chk, rng, 36 if q else 500)
    flat_cases(chk, rng, architectures())
    cem_cases(chk, rng, 120 if q else 3000)
    cem_runs(chk, rng, 10 if q else 150)
    chk.sample({"kind": "ask/tell history", "note": "CMAESConfig/CMAESState/Population driven through get_next_parameters, "
                "set_evaluation_feedback, update_search_distribution, sample_population; after each tell the incumbent is compared with the "
                "best evaluated candidate, after each update mean / step size / covariance are checked and compared with the model's update "
                "of the implementation's own pre-state"})
    chk.sample({"kind": "flat parameters", "architectures": [a for a, _ in architectures()]})
    return chk.finish(
        rule="CMAESConfig.create for dimensions 1-37 (thorough: 1-1000) x populations 2-13 and default; ask/tell histories (dimension 1-6, "
             "population 2-12, 2-4 generations, active and default, minimise and maximise, with and without bounds, identity / diagonal / full "
             "initial covariance, feedback: dyadic, ties, +-inf, NaN, all-NaN, short vectors, a quadratic) compared after every tell (exact) "
             "and every update (float64 model vs float32 implementation, rtol 2e-3; updates within 1e-3 of the hsig threshold compare only "
             "mean/ps/var); set_params/flat_params on 14 architectures bitwise; cem_sample/cem_update on asymmetric, tiny, huge boxes with "
             "means on the boundary, ties and +-inf fitness; optimize_cem runs with history",
        assumptions=["jnp.linalg.eigh (inv_sqrt), jax.random.multivariate_normal and jax.random.truncated_normal are oracles: their outputs are inputs of the model",
                     "fitness values are float32-representable in the cases (the implementation ranks float32(fitness) but compares the incumbent in float64)",
                     "symmetry of the covariance is checked up to 1e-5 relative (the two multiplication orders of Y^T diag(w) Y round differently in float32)",
                     "leaf order of nnx.state(net, nnx.Param) / jax.tree_util trusted as executed; reshape/ravel row-major",
                     "CEM fitness NaN-free in the cases (lax.top_k ranks NaN first; modelled, not exercised against the spec)"])
