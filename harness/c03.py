"""C03 — critic and representation losses implement their documented targets per sample."""
import numpy as np

from common import flit, llit, nlit, parse_f

# ---------------------------------------------------------------- literals / parsing


def fl(xs):
    return llit(np.asarray(xs, dtype=float).reshape(-1), flit)


def t1(xs):
    return f"(M.T1 {fl(xs)})"


def t2(M):
    M = np.asarray(M, dtype=float)
    return "(M.T2 " + llit(M, lambda r: llit(r, flit)) + ")"


def mat(M):
    return llit(np.asarray(M, dtype=float), lambda r: llit(r, flit))


SG = "(fun x -> x)"          # stop_gradient on plain floats
PAIR = '(fun (a, b) -> "[" ^ sf a ^ "," ^ sf b ^ "]")'


def close(a, b, rtol=2e-5, atol=2e-6):
    return np.allclose(np.asarray(a, dtype=float), np.asarray(b, dtype=float), rtol=rtol, atol=atol)


def dy(rng, shape, lo=-8, hi=9, den=4):
    return (rng.integers(lo, hi, size=shape) / den).astype(np.float32)


def term_pattern(rng, n, kind):
    if kind == 0:
        return np.zeros(n, dtype=np.float32)
    if kind == 1:
        return np.ones(n, dtype=np.float32)
    d = (rng.random(n) < 0.4).astype(np.float32)
    return d


# ---------------------------------------------------------------- stub networks
def linear(n_in, n_out, rng, seed=0):
    import jax.numpy as jnp
    from flax import nnx
    from rl_blox.blox.function_approximator.mlp import MLP
    m = MLP(n_in, n_out, [], "relu", nnx.Rngs(seed))
    m.output_layer.kernel.value = jnp.asarray(rng.integers(-2, 3, size=(n_in, n_out)).astype(np.float32) / 2)
    m.output_layer.bias.value = jnp.asarray(rng.integers(-2, 3, size=(n_out,)).astype(np.float32) / 2)
    return m


def grads_zero(g):
    import jax
    return all(float(np.abs(np.asarray(x)).max()) == 0.0 for x in jax.tree_util.tree_leaves(g))


def leaves_nonzero(g):
    import jax
    return any(float(np.abs(np.asarray(x)).max()) > 0.0 for x in jax.tree_util.tree_leaves(g))


# ---------------------------------------------------------------- continuous critics
def continuous_cases(chk, rng, n):
    import jax
    import jax.numpy as jnp
    from flax import nnx
    from rl_blox.blox import losses as L
    from rl_blox.blox.double_qnet import ContinuousClippedDoubleQNet
    exprs, recs = [], []
    od, ad = 2, 1
    for i in range(n):
        N = int(rng.choice([1, 2, 4, 8]))
        g = float(rng.choice([0.0, 0.5, 1.0, 0.99]))
        obs, act, nobs = dy(rng, (N, od)), dy(rng, (N, ad)), dy(rng, (N, od))
        rew = dy(rng, (N,))
        term = term_pattern(rng, N, i % 3)
        q1, q2, qt1, qt2 = (linear(od + ad, 1, rng, s) for s in range(4))
        pit = linear(od, ad, rng, 5)
        q, qt = ContinuousClippedDoubleQNet(q1, q2), ContinuousClippedDoubleQNet(qt1, qt2)
        batch = (jnp.asarray(obs), jnp.asarray(act), jnp.asarray(rew), jnp.asarray(nobs), jnp.asarray(term))
        oa = jnp.concatenate((batch[0], batch[1]), axis=-1)
        kind = ["ddpg", "td3", "td3_lap", "sac"][i % 4]
        case = {"loss": kind, "N": N, "gamma": g, "obs": obs.tolist(), "action": act.tolist(), "reward": rew.tolist(),
                "next_obs": nobs.tolist(), "terminated": term.tolist()}
        # ---- documented wiring, evaluated by the harness (networks are oracles)
        q1o, q2o = np.asarray(q1(oa)), np.asarray(q2(oa))
        try:
            if kind == "ddpg":
                na = pit(batch[3])
                qto = np.asarray(qt1(jnp.concatenate((batch[3], na), axis=-1)))
                f = lambda q_, qt_, p_: L.ddpg_loss(q_, qt_, p_, batch, g)
                out = f(q1, qt1, pit)
                impl = [float(out[0]), float(out[1])]
                gt = nnx.grad(lambda qt_, p_, q_: f(q_, qt_, p_)[0], argnums=(0, 1))(qt1, pit, q1)
                gon = nnx.grad(lambda q_, qt_, p_: f(q_, qt_, p_)[0], argnums=0)(q1, qt1, pit)
                e = f'(sr {PAIR} (M.ddpg_loss float_ops {SG} {t2(q1o)} {t2(qto)} {t1(rew)} {t1(term)} {flit(g)}))'
                ys = rew + (1 - term) * g * qto.reshape(-1)
                spec = [float(np.mean((q1o.reshape(-1) - ys) ** 2)), float(q1o.mean())]
            else:
                na = jnp.asarray(dy(rng, (N, ad)))
                noa = jnp.concatenate((batch[3], na), axis=-1)
                qto = np.minimum(np.asarray(qt1(noa)), np.asarray(qt2(noa)))
                if kind == "td3":
                    f = lambda q_, qt_: L.td3_loss(q_, qt_, na, batch, g)
                    out = f(q, qt)
                    impl = [float(out[0]), float(out[1])]
                    e = f'(sr {PAIR} (M.td3_loss float_ops {SG} {t2(q1o)} {t2(q2o)} {t2(qto)} {t1(rew)} {t1(term)} {flit(g)}))'
                    ys = rew + (1 - term) * g * qto.reshape(-1)
                    spec = [float(np.mean((q1o.reshape(-1) - ys) ** 2) + np.mean((q2o.reshape(-1) - ys) ** 2)),
                            float(np.minimum(q1o, q2o).mean())]
                elif kind == "td3_lap":
                    mp = float(rng.choice([1.0, 0.5]))
                    f = lambda q_, qt_: L.td3_lap_loss(q_, qt_, na, batch, g, mp)
                    out = f(q, qt)
                    impl = [float(out[0]), float(out[1][0])] + np.asarray(out[1][1], dtype=float).reshape(-1).tolist()
                    e = (f'(sr (fun (l, (m, t)) -> "[" ^ sf l ^ "," ^ sf m ^ "," ^ stensor sf t ^ "]") '
                         f'(M.td3_lap_loss float_ops {SG} {t2(q1o)} {t2(q2o)} {t2(qto)} {t1(rew)} {t1(term)} {flit(g)} {flit(mp)}))')
                    ys = rew + (1 - term) * g * qto.reshape(-1)
                    e1, e2 = np.abs(q1o.reshape(-1) - ys), np.abs(q2o.reshape(-1) - ys)
                    hub = lambda a: np.where(a <= mp, 0.5 * a * a, mp * (a - 0.5 * mp))
                    spec = [float(hub(e1).mean() + hub(e2).mean()), float(np.minimum(q1o, q2o).mean())] + np.maximum(e1, e2).tolist()
                else:  # sac with a stub stochastic policy
                    from rl_blox.blox.function_approximator.policy_head import StochasticPolicyBase

                    class StubPolicy(StochasticPolicyBase):
                        def __init__(self, a_net, lp_net):
                            self.a_net, self.lp_net = a_net, lp_net

                        def __call__(self, o):
                            return self.a_net(o)

                        def sample(self, o, key):
                            return self.a_net(o)

                        def log_probability(self, o, a):
                            return self.lp_net(jnp.concatenate((o, a), axis=-1)).squeeze(-1)

                        def entropy(self, o):
                            return jnp.zeros(o.shape[0])
                    pol = StubPolicy(linear(od, ad, rng, 7), linear(od + ad, 1, rng, 8))
                    alpha = float(rng.choice([0.0, 0.25, 1.0]))
                    f = lambda q_, qt_, p_: L.sac_loss(q_, qt_, p_, jax.random.key(0), alpha, batch, g)
                    out = f(q, qt, pol)
                    impl = [float(out[0]), float(out[1])]
                    na = pol.sample(batch[3], None)
                    nlp = np.asarray(pol.log_probability(batch[3], na), dtype=float)
                    noa = jnp.concatenate((batch[3], na), axis=-1)
                    qto = np.minimum(np.asarray(qt1(noa)), np.asarray(qt2(noa)))
                    e = (f'(sr {PAIR} (M.sac_loss float_ops {SG} {t2(q1o)} {t2(q2o)} {t2(qto)} {t1(nlp)} {t1(rew)} {t1(term)} {flit(alpha)} {flit(g)}))')
                    ys = rew + (1 - term) * g * (qto.reshape(-1) - alpha * nlp)
                    spec = [float(np.mean((q1o.reshape(-1) - ys) ** 2) + np.mean((q2o.reshape(-1) - ys) ** 2)),
                            float(np.minimum(q1o, q2o).mean())]
                    gt = nnx.grad(lambda qt_, p_, q_: f(q_, qt_, p_)[0], argnums=(0, 1))(qt, pol, q)
                    gon = nnx.grad(lambda q_, qt_, p_: f(q_, qt_, p_)[0], argnums=0)(q, qt, pol)
                if kind != "sac":
                    gt = nnx.grad(lambda qt_, q_: f(q_, qt_)[0], argnums=0)(qt, q)
                    gon = nnx.grad(lambda q_, qt_: f(q_, qt_)[0], argnums=0)(q, qt)
            raised = None
        except Exception as ex:  # noqa: BLE001
            raised = repr(ex)[:200]
        chk.case((kind, N, g, obs.tobytes(), term.tobytes()), nontrivial=N >= 2)
        chk.count("loss_" + kind)
        chk.count(f"batch_size_{N}")
        if raised is not None:
            if N >= 2:
                chk.fail(f"C03:{kind}:raised", "loss raised on a batch of size >= 2", {"case": case, "exception": raised})
            else:
                chk.count("n1_loud_rejections")
            continue
        if not close(impl, spec):
            chk.fail(f"C03:{kind}:value", "loss / auxiliary outputs differ from the documented per-sample regression target",
                     {"case": case, "impl": impl, "documented": spec})
        if not grads_zero(gt):
            chk.fail(f"C03:{kind}:target-gradient", "gradient w.r.t. target network / target policy parameters is not exactly zero", {"case": case})
        if N >= 2 and not leaves_nonzero(gon) and spec[0] > 1e-6:
            chk.fail(f"C03:{kind}:online-gradient", "online critic receives no gradient although the loss is non-zero", {"case": case})
        exprs.append(e)
        recs.append((case, impl, spec, False))
    res = chk.model_eval(exprs, per_file=60)
    for (case, impl, spec, rejected), mr in zip(recs, res):
        if rejected:
            if mr != "Err" and mr is not None and case["loss"] == "ddpg":
                chk.disagree(f"{case['loss']}.n1-rejection", {"case": case, "impl": "raised", "model": mr})
            continue
        flat = []

        def walk(x):
            if isinstance(x, dict):
                for v in x.values():
                    walk(v)
            elif isinstance(x, list):
                for v in x:
                    walk(v)
            else:
                flat.append(parse_f(x))
        if mr == "Err":
            chk.disagree(f"{case['loss']}.value", {"case": case, "impl": impl, "model": "Err"})
            continue
        walk(mr)
        if not close(impl, flat):
            chk.disagree(f"{case['loss']}.value", {"case": case, "impl": impl, "model": flat})


# ---------------------------------------------------------------- discrete critics
def discrete_cases(chk, rng, n):
    import jax.numpy as jnp
    from flax import nnx
    from rl_blox.blox import losses as L
    exprs, recs = [], []
    od = 2
    for i in range(n):
        N, A = int(rng.choice([1, 2, 4, 8])), int(rng.choice([2, 3]))
        g = float(rng.choice([0.0, 0.5, 1.0, 0.99]))
        obs, nobs = dy(rng, (N, od)), dy(rng, (N, od))
        act = rng.integers(0, A, size=N)
        rew = dy(rng, (N,))
        term = term_pattern(rng, N, i % 3)
        qn, qtn = linear(od, A, rng, 1), linear(od, A, rng, 2)
        batch = (jnp.asarray(obs), jnp.asarray(act), jnp.asarray(rew), jnp.asarray(nobs), jnp.asarray(term))
        kind = ["dqn", "nature_dqn", "ddqn", "ddqn_per"][i % 4]
        case = {"loss": kind, "N": N, "A": A, "gamma": g, "obs": obs.tolist(), "action": act.tolist(), "reward": rew.tolist(),
                "next_obs": nobs.tolist(), "terminated": term.tolist()}
        qa = np.asarray(qn(batch[0]), dtype=float)
        nq_on = np.asarray(qn(batch[3]), dtype=float)
        nq_tg = np.asarray(qtn(batch[3]), dtype=float)
        qp = qa[np.arange(N), act]
        acts = llit(act, nlit)
        try:
            if kind == "dqn":
                f = lambda q_, qt_: L.dqn_loss(q_, batch, g)
                out = f(qn, qtn)
                ys = rew + (1 - term) * g * nq_on.max(axis=1)
                e = f'(sr {PAIR} (M.dqn_loss float_ops {SG} {mat(qa)} {mat(nq_on)} {acts} {t1(rew)} {t1(term)} {flit(g)}))'
                impl, spec = [float(out[0]), float(out[1])], [float(np.mean((qp - ys) ** 2)), float(qp.mean())]
                gt = None
            elif kind == "nature_dqn":
                f = lambda q_, qt_: L.nature_dqn_loss(q_, qt_, batch, g)
                out = f(qn, qtn)
                ys = rew + (1 - term) * g * nq_tg.max(axis=1)
                e = f'(sr {PAIR} (M.dqn_loss float_ops {SG} {mat(qa)} {mat(nq_tg)} {acts} {t1(rew)} {t1(term)} {flit(g)}))'
                impl, spec = [float(out[0]), float(out[1])], [float(np.mean((qp - ys) ** 2)), float(qp.mean())]
                gt = nnx.grad(lambda qt_, q_: f(q_, qt_)[0], argnums=0)(qtn, qn)
            elif kind == "ddqn":
                f = lambda q_, qt_: L.ddqn_loss(q_, qt_, batch, g)
                out = f(qn, qtn)
                ys = rew + (1 - term) * g * nq_tg[np.arange(N), nq_on.argmax(axis=1)]
                e = f'(sr {PAIR} (M.ddqn_loss float_ops {SG} {mat(qa)} {mat(nq_on)} {mat(nq_tg)} {acts} {t1(rew)} {t1(term)} {flit(g)}))'
                impl, spec = [float(out[0]), float(out[1])], [float(np.mean((qp - ys) ** 2)), float(qp.mean())]
                gt = nnx.grad(lambda qt_, q_: f(q_, qt_)[0], argnums=0)(qtn, qn)
            else:
                isr = (rng.integers(1, 5, size=N) / 4).astype(np.float32)
                f = lambda q_, qt_: L.ddqn_per_loss(q_, qt_, batch, g, jnp.asarray(isr))
                out = f(qn, qtn)
                ys = rew + (1 - term) * g * nq_tg[np.arange(N), nq_on.argmax(axis=1)]
                td = np.abs(qp - ys)
                e = (f'(sr (fun (l, (a, b)) -> "[" ^ sf l ^ "," ^ sf a ^ "," ^ sf b ^ "]") (M.ddqn_per_loss float_ops {SG} {mat(qa)} {mat(nq_on)} '
                     f'{mat(nq_tg)} {acts} {t1(rew)} {t1(term)} {t1(isr)} {flit(g)}))')
                impl = [float(out[0]), float(out[1][0]), float(out[1][1])]
                spec = [float(np.mean(isr * td ** 2)), float(qp.mean()), float(td.mean())]
                gt = nnx.grad(lambda qt_, q_: f(q_, qt_)[0], argnums=0)(qtn, qn)
            raised = None
        except Exception as ex:  # noqa: BLE001
            raised = repr(ex)[:200]
        chk.case((kind, N, A, g, obs.tobytes(), term.tobytes()), nontrivial=N >= 2)
        chk.count("loss_" + kind)
        if raised is not None:
            if N >= 2:
                chk.fail(f"C03:{kind}:raised", "loss raised on a batch of size >= 2", {"case": case, "exception": raised})
            else:
                chk.count("n1_loud_rejections")
            continue
        # argmax ties make the documented bootstrap ambiguous: skip exact comparison of ties
        tie = kind in ("ddqn", "ddqn_per") and any(np.sum(r == r.max()) > 1 for r in nq_on)
        if not tie and not close(impl, spec):
            chk.fail(f"C03:{kind}:value", "loss / auxiliary outputs differ from the documented per-sample regression target",
                     {"case": case, "impl": impl, "documented": spec})
        if gt is not None and not grads_zero(gt):
            chk.fail(f"C03:{kind}:target-gradient", "gradient w.r.t. the target network is not exactly zero", {"case": case})
        # terminated transitions: successor observation must not matter
        if term.any():
            nobs2 = nobs.copy()
            nobs2[term == 1] += 3.0
            b2 = (batch[0], batch[1], batch[2], jnp.asarray(nobs2), batch[4])
            out2 = {"dqn": lambda: L.dqn_loss(qn, b2, g), "nature_dqn": lambda: L.nature_dqn_loss(qn, qtn, b2, g),
                    "ddqn": lambda: L.ddqn_loss(qn, qtn, b2, g),
                    "ddqn_per": lambda: L.ddqn_per_loss(qn, qtn, b2, g, jnp.asarray(isr))}[kind]()
            if float(out2[0]) != float(out[0]):
                chk.fail(f"C03:{kind}:terminated-bootstrap", "a terminated transition's successor observation changed the loss",
                         {"case": case, "loss": float(out[0]), "loss_after": float(out2[0])})
        # batch order
        perm = rng.permutation(N)
        bp = tuple(jnp.asarray(np.asarray(x)[perm]) for x in batch)
        outp = {"dqn": lambda: L.dqn_loss(qn, bp, g), "nature_dqn": lambda: L.nature_dqn_loss(qn, qtn, bp, g),
                "ddqn": lambda: L.ddqn_loss(qn, qtn, bp, g),
                "ddqn_per": lambda: L.ddqn_per_loss(qn, qtn, bp, g, jnp.asarray(isr[perm]))}[kind]()
        if not close(float(outp[0]), float(out[0])):
            chk.fail(f"C03:{kind}:batch-order", "loss depends on the order of the batch", {"case": case, "perm": perm.tolist()})
        if not tie:
            exprs.append(e)
            recs.append((case, impl))
    res = chk.model_eval(exprs, per_file=60)
    for (case, impl), mr in zip(recs, res):
        if mr == "Err":
            chk.disagree(f"{case['loss']}.value", {"case": case, "impl": impl, "model": "Err"})
        elif not close(impl, [parse_f(x) for x in mr]):
            chk.disagree(f"{case['loss']}.value", {"case": case, "impl": impl, "model": mr})


# ---------------------------------------------------------------- exact dual-number gradient check
def gradient_cases(chk, rng, n):
    """Gradient w.r.t. the online critic's bias = sum_i dL/dq_i, obtained from the SAME model
    evaluated on dual numbers with tangent 1 on every online output."""
    import jax.numpy as jnp
    from flax import nnx
    from rl_blox.blox import losses as L
    from rl_blox.blox.double_qnet import ContinuousClippedDoubleQNet
    exprs, recs = [], []
    od, ad = 2, 1
    dl = lambda xs, tan: llit(np.asarray(xs, dtype=float).reshape(-1), lambda v: f"({flit(v)}, {tan})")
    d2 = lambda M, tan: "(M.T2 " + llit(np.asarray(M, dtype=float), lambda r: llit(r, lambda v: f"({flit(v)}, {tan})")) + ")"
    d1 = lambda xs: f"(M.T1 {dl(xs, '0.0')})"
    for i in range(n):
        N = int(rng.choice([2, 4, 8]))
        g = float(rng.choice([0.5, 1.0]))
        obs, act, nobs, na = dy(rng, (N, od)), dy(rng, (N, ad)), dy(rng, (N, od)), dy(rng, (N, ad))
        rew, term = dy(rng, (N,)), term_pattern(rng, N, 2)
        q1, q2, qt1, qt2 = (linear(od + ad, 1, rng, s) for s in range(4))
        q, qt = ContinuousClippedDoubleQNet(q1, q2), ContinuousClippedDoubleQNet(qt1, qt2)
        batch = tuple(jnp.asarray(x) for x in (obs, act, rew, nobs, term))
        oa = jnp.concatenate((batch[0], batch[1]), axis=-1)
        noa = jnp.concatenate((batch[3], jnp.asarray(na)), axis=-1)
        gq = nnx.grad(lambda q_, qt_: L.td3_loss(q_, qt_, jnp.asarray(na), batch, g)[0], argnums=0)(q, qt)
        gb1 = float(np.asarray(gq["q1"]["output_layer"]["bias"].value)[0])
        q1o, q2o = np.asarray(q1(oa)), np.asarray(q2(oa))
        qto = np.minimum(np.asarray(qt1(noa)), np.asarray(qt2(noa)))
        # tangent 1 on q1 outputs, 0 on q2; a (wrong) non-zero tangent on the target outputs must not matter
        exprs.append(f'(let ops = M.dual_ops float_ops in sr (fun ((l, dl), _) -> sf dl) (M.td3_loss ops (M.dual_sg float_ops) '
                     f'{d2(q1o, "1.0")} {d2(q2o, "0.0")} {d2(qto, "7.0")} {d1(rew)} {d1(term)} ({flit(g)}, 0.0)))')
        recs.append(({"N": N, "gamma": g, "reward": rew.tolist(), "terminated": term.tolist()}, gb1))
        chk.case(("grad", N, g, obs.tobytes()))
        chk.count("gradient_cases")
    res = chk.model_eval(exprs)
    for (case, gb1), mr in zip(recs, res):
        if mr == "Err" or not close(gb1, parse_f(mr), rtol=1e-5, atol=1e-6):
            chk.disagree("td3_loss.online-bias-gradient", {"case": case, "impl": gb1, "model_dual": mr})


# ---------------------------------------------------------------- representation losses, TD7, MR.Q
def sale_cases(chk, rng, n):
    import jax.numpy as jnp
    from flax import nnx
    from rl_blox.blox.embedding.sale import SALE, state_action_embedding_loss
    exprs, recs = [], []
    od, ad, Z = 2, 1, 3
    for _ in range(n):
        N = int(rng.choice([1, 2, 4]))
        emb = SALE(linear(od, Z, rng, 1), linear(Z + ad, Z, rng, 2))
        obs, act, nobs = dy(rng, (N, od), 1, 9), dy(rng, (N, ad)), dy(rng, (N, od), 1, 9)
        o, a, no = jnp.asarray(obs), jnp.asarray(act), jnp.asarray(nobs)
        loss = float(state_action_embedding_loss(emb, o, a, no))
        zsa = np.asarray(emb(o, a)[0], dtype=float)
        zsp = np.asarray(emb.state_embedding(no), dtype=float)
        spec = float(np.mean((zsa - zsp) ** 2))
        case = {"N": N, "obs": obs.tolist(), "action": act.tolist(), "next_obs": nobs.tolist()}
        chk.case(("sale", N, obs.tobytes()))
        chk.count("loss_sale")
        if not close(loss, spec):
            chk.fail("C03:sale:value", "embedding loss is not the mean squared error between zsa and the gradient-stopped zs(next_obs)",
                     {"case": case, "impl": loss, "documented": spec})
        exprs.append(f'(sr sf (M.sale_loss float_ops {SG} {t2(zsa)} {t2(zsp)}))')
        recs.append((case, loss))
    res = chk.model_eval(exprs)
    for (case, loss), mr in zip(recs, res):
        if mr == "Err" or not close(loss, parse_f(mr)):
            chk.disagree("state_action_embedding_loss", {"case": case, "impl": loss, "model": mr})


def main(chk):
    chk.proof_step()
    rng = np.random.default_rng(chk.seed)
    q = chk.tier == "quick"
    continuous_cases(chk, rng, 48 if q else 1600)
    discrete_cases(chk, rng, 48 if q else 1600)
    gradient_cases(chk, rng, 10 if q else 300)
    sale_cases(chk, rng, 10 if q else 300)
    try:
        import c03_repr
        c03_repr.run(chk, rng, q)
    except ImportError:
        pass
    chk.sample({"note": "stub linear critics / policies with half-integer weights, dyadic batches, gamma in {0,1/2,1,0.99}, termination patterns "
                        "none/all/mixed, batch sizes 1,2,4,8; every case compares implementation, documented formula and extracted model"})
    return chk.finish(
        rule="ddpg/td3/td3_lap/sac and dqn/nature_dqn/ddqn/ddqn_per losses on stub linear networks (network outputs computed by the harness "
             "from the documented wiring), value + auxiliary outputs vs documented per-sample formula and vs the extracted tensor model; "
             "nnx.grad w.r.t. target networks / target policies must be exactly zero; terminated rows: successor perturbation; batch "
             "permutation; dual-number gradient of the online critic; SALE / TD7 / MR.Q / encoder losses on small real modules",
        assumptions=["network forward passes are oracles (called by the harness itself on the documented inputs)",
                     "JAX autodiff trusted to differentiate the traced program; float32 tolerance 2e-5",
                     "arg-max ties in the double-DQN bootstrap are excluded from value comparison"])
