"""C19 — saved models and buffers reload to identical state and behaviour.

Buffers: crash-point enumeration. For generated operation histories on every buffer class the
original object is pickled and unpickled after EVERY prefix; the original, every reloaded copy and
the extracted model (Model/Persist.v: run prefix, save, load, run continuation) are driven through
the same continuation — with scripted draws (StubRng) and with real numpy generators in equal
states. Spec oracle: original vs reloaded (all public state bitwise, all outputs). Correspondence:
model image vs __getstate__() at every crash point, model continuation outputs vs the reloaded
object's outputs, final images.  Modules: see c19_modules.py."""
import fractions
import pickle
import types

import numpy as np

from c02 import gen_fracs
from c04 import ROW_PR, RED_PR, batch_rows, gen_rows, srow_lit
from c08 import boundary_us, dy
from common import blit, frac, llit, nlit, parse_q, qlit, zlit
from stubs import StubRng, decode_row, make_row

F = fractions.Fraction
RING_KEYS = ["observation", "action", "reward", "next_observation", "termination"]
SUB_KEYS = ["observation", "action", "reward", "next_observation", "terminated", "truncated"]


# ------------------------------------------------------------------ signatures of public state
def arr_sig(a, n=None):
    """dtype, full shape (covers the unfilled region) and the bits of the filled region."""
    a = np.asarray(a)
    part = a if n is None else a[:n]
    return (a.dtype.str, tuple(a.shape), np.ascontiguousarray(part).tobytes())


def scalar_sig(x):
    if isinstance(x, (bool, np.bool_)):
        return (type(x).__name__, bool(x))
    if isinstance(x, (int, np.integer)):
        return (type(x).__name__, int(x))
    if isinstance(x, (float, np.floating)):
        return (type(x).__name__, float(x).hex())
    return (type(x).__name__, repr(x))


def batch_sig(batch):
    return tuple(arr_sig(np.asarray(x)) for x in batch)


def snap_buffer(b):
    n = b.current_len
    s = {"class": type(b).__name__, "attrs": tuple(sorted(vars(b))), "keys": tuple(b.buffer.keys()),
         "Batch": (getattr(b.Batch, "__name__", None), tuple(getattr(b.Batch, "_fields", ()))),
         "Batch_is_namedtuple": isinstance(b.Batch, type) and issubclass(b.Batch, tuple),
         "buffer_type": type(b.buffer).__name__,
         "buffer_size": scalar_sig(b.buffer_size), "current_len": scalar_sig(b.current_len),
         "insert_idx": scalar_sig(b.insert_idx), "len": len(b)}
    for k, v in b.buffer.items():
        s["buffer." + k] = arr_sig(v, n)
    if hasattr(b, "priority"):
        p = b.priority
        s["priority.class"] = type(p).__name__
        s["priority.attrs"] = tuple(sorted(vars(p)))
        s["priority.priority"] = arr_sig(p.priority, n)
        s["priority.max_priority"] = scalar_sig(p.max_priority)
        s["priority.sampled_indices"] = arr_sig(p.sampled_indices)
    if hasattr(b, "mask_"):
        s["mask_"] = arr_sig(b.mask_)
        s["episode_timesteps"] = scalar_sig(b.episode_timesteps)
        s["environment_terminates"] = scalar_sig(b.environment_terminates)
        s["horizon"] = scalar_sig(b.horizon)
    return s


def snap_mt(m):
    s = {"class": type(m).__name__, "attrs": tuple(sorted(vars(m))), "selected_task": scalar_sig(m.selected_task),
         "active_buffers": (type(m.active_buffers).__name__, tuple(sorted(int(x) for x in m.active_buffers)),
                            tuple(int(x) for x in list(m.active_buffers))),
         "sampled_task_idx": scalar_sig(m.sampled_task_idx) if hasattr(m, "sampled_task_idx") else "unset",
         "len": len(m), "n_buffers": len(m.buffers)}
    for i, b in enumerate(m.buffers):
        for k, v in snap_buffer(b).items():
            s[f"buffers[{i}].{k}"] = v
    return s


def diff_keys(a, b):
    return sorted(k for k in set(a) | set(b) if a.get(k, "<absent>") != b.get(k, "<absent>"))


def arrays_of(obj):
    bufs = obj.buffers if hasattr(obj, "buffers") else [obj]
    out = []
    for b in bufs:
        out += list(b.buffer.values())
        if hasattr(b, "priority"):
            out += [b.priority.priority, b.priority.sampled_indices]
        if hasattr(b, "mask_"):
            out.append(b.mask_)
    return [a for a in out if isinstance(a, np.ndarray) and a.size]


def brief(v):
    if isinstance(v, tuple) and len(v) == 3 and isinstance(v[2], bytes):
        return [v[0], list(v[1]), v[2][:48].hex()]
    return str(v)[:200]


# ------------------------------------------------------------------ OCaml printers
LAB = '(function M.NoBatch -> "null" | M.BatchMismatch -> "\\"mismatch\\"" | M.BatchFields ks -> sl sn ks)'
PBF = '(fun p -> "[" ^ sl sq p.M.f_priority ^ "," ^ sq p.M.f_max_priority ^ "," ^ sl sn p.M.f_sampled_indices ^ "]")'
RBF = ('(fun f -> "[" ^ sl (so sz) f.M.f_buffer ^ "," ^ sn f.M.f_buffer_size ^ "," ^ sn f.M.f_current_len ^ "," ^ '
       'sn f.M.f_insert_idx ^ "]")')
LAPF = ('(fun f -> "[" ^ sl (so sz) f.M.fl_buffer ^ "," ^ sn f.M.fl_buffer_size ^ "," ^ sn f.M.fl_current_len ^ "," ^ '
        f'sn f.M.fl_insert_idx ^ "," ^ {PBF} f.M.fl_priority ^ "]")')
SBF = (f'(fun f -> "[" ^ sl {ROW_PR} f.M.fs_buffer ^ "," ^ sn f.M.fs_buffer_size ^ "," ^ sn f.M.fs_current_len ^ "," ^ '
       'sn f.M.fs_insert_idx ^ "," ^ sn f.M.fs_episode_timesteps ^ "," ^ sb f.M.fs_environment_terminates ^ "," ^ '
       'sn f.M.fs_horizon ^ "," ^ sl sb f.M.fs_mask ^ "]")')
SBPF = f'(fun f -> "[" ^ {SBF} f.M.fp_sub ^ "," ^ {PBF} f.M.fp_priority ^ "]")'


def IMG(pf):
    return f'(fun i -> "[" ^ sl sn i.M.i_keys ^ "," ^ {pf} i.M.i_fields ^ "]")'


def MTIMG(pf):
    return (f'(fun m -> "[" ^ sl {IMG(pf)} m.M.bufs ^ "," ^ sn m.M.selected ^ "," ^ sl sn m.M.active ^ "," ^ '
            'so sn m.M.sampled_task ^ "]")')


def CRASH(img, out, call):
    return f'(sl (st {img} (sl {out}) {img}) ({call}))'


SOUT = ('(fun o -> "[" ^ sn o.M.so_len ^ "," ^ sn o.M.so_ins ^ "," ^ sn o.M.so_ept ^ "," ^ sl sb o.M.so_mask ^ "," ^ '
        'sb o.M.so_envterm ^ "," ^ sl sn o.M.so_at ^ "]")')
OUT = {
    "uniform": f'(fun (o, l) -> "[" ^ sn o.M.ro_len ^ "," ^ sn o.M.ro_range ^ "," ^ sl (so sz) o.M.ro_rows ^ "," ^ {LAB} l ^ "]")',
    "lap": ('(fun (o, l) -> "[" ^ sn o.M.lo_len ^ "," ^ sq o.M.lo_maxp ^ "," ^ sl sq o.M.lo_prio ^ "," ^ sl sn o.M.lo_idx ^ "," ^ '
            f'sl (so sz) o.M.lo_rows ^ "," ^ {LAB} l ^ "]")'),
    "subtraj": (f'(fun ((o, ws), l) -> "[" ^ {SOUT} o ^ "," ^ sl (sp sn (sl (sp sn (sp (sl {ROW_PR}) {RED_PR})))) ws ^ "," ^ '
                f'{LAB} l ^ "]")'),
    "subtraj_per": (f'(fun (o, l) -> "[" ^ {SOUT} o.M.po_state ^ "," ^ sq o.M.po_maxp ^ "," ^ sl sq o.M.po_prio ^ "," ^ '
                    f'sl sn o.M.po_starts ^ "," ^ sl (sl {ROW_PR}) o.M.po_windows ^ "," ^ {LAB} l ^ "]")'),
    "mt_uniform": ('(fun (o, l) -> "[" ^ sb o.M.uo_ok ^ "," ^ sn o.M.uo_selected ^ "," ^ sl sn o.M.uo_active ^ "," ^ '
                   'so sn o.M.uo_task ^ "," ^ sl sn o.M.uo_lens ^ "," ^ sn o.M.uo_range ^ "," ^ sl (so sz) o.M.uo_rows ^ "," ^ '
                   f'{LAB} l ^ "]")'),
    "mt_lap": ('(fun (o, l) -> "[" ^ sb o.M.mo_ok ^ "," ^ sn o.M.mo_selected ^ "," ^ sl sn o.M.mo_active ^ "," ^ '
               'so sn o.M.mo_task ^ "," ^ sl sn o.M.mo_lens ^ "," ^ sl sq o.M.mo_maxps ^ "," ^ sl (sl sq) o.M.mo_prios ^ "," ^ '
               f'sl sn o.M.mo_idx ^ "," ^ sl (so sz) o.M.mo_rows ^ "," ^ {LAB} l ^ "]")'),
}
OUT["per"] = OUT["lap"]


def qs(x):
    return str(frac(x))


def canon(x):
    """Model JSON and implementation views in one comparable form (rationals as strings)."""
    if isinstance(x, (list, tuple)):
        return [canon(y) for y in x]
    if isinstance(x, F):
        return str(x)
    if isinstance(x, (np.integer,)):
        return int(x)
    if isinstance(x, np.bool_):
        return bool(x)
    return x


# ------------------------------------------------------------------ ring family: ReplayBuffer, LAP, PER
class Ring:
    def __init__(self, kind, rng):
        self.kind = kind
        self.cls_name = {"uniform": "ReplayBuffer", "lap": "LAP", "per": "PrioritizedReplayBuffer"}[kind]
        self.cap = int(rng.choice([1, 2, 3, 4, 6]))
        self.variant = str(rng.choice(["default", "f32", "discrete", "permuted"]))
        self.discrete = self.variant == "discrete"
        self.keys = list(RING_KEYS)
        if self.variant == "permuted":
            self.keys = [RING_KEYS[i] for i in rng.permutation(5)]
        self.codes = [RING_KEYS.index(k) for k in self.keys]
        self.k = int(rng.integers(0, 30))
        self.adds = 0
        self.cfg = {"class": self.cls_name, "capacity": self.cap, "variant": self.variant, "keys": self.keys}

    def new(self):
        from rl_blox.blox import replay_buffer as rbm
        cls = getattr(rbm, self.cls_name)
        kw = {}
        if self.variant == "f32":
            kw["dtypes"] = [np.float32, np.float32, np.float32, np.float32, bool]
        elif self.variant == "discrete":
            kw["discrete_actions"] = True
        elif self.variant == "permuted":
            base = dict(zip(RING_KEYS, [float, float, float, float, int]))
            kw["keys"] = list(self.keys)
            kw["dtypes"] = [base[k] for k in self.keys]
        return cls(self.cap, **kw)

    snap = staticmethod(snap_buffer)

    def gen_op(self, rng, o):
        n = len(o)
        r = rng.random()
        if n == 0 or r < 0.42:
            self.k += 1
            self.adds += 1
            return ("add", self.k)
        b = int(rng.choice([1, 2, 3, 5]))
        if self.kind == "uniform":
            return ("sample", gen_fracs(rng, b)) if r < 0.8 else ("rsample", int(rng.integers(0, 2**31)), b)
        prio = [frac(x) for x in o.priority.priority[:n]]
        if r < 0.62:
            return ("sample", boundary_us(prio, rng, b))
        if r < 0.72:
            return ("rsample", int(rng.integers(0, 2**31)), b)
        nb = len(o.priority.sampled_indices)
        if r < 0.88 and nb > 0:
            return ("update", [dy(rng) for _ in range(nb)])
        if r < 0.94:
            return ("update_scalar", dy(rng))
        return ("reset",)

    def apply(self, o, op, model=False):
        kind, disc = self.kind, self.discrete
        A = "R" if kind == "uniform" else "L"
        mop = None
        n0 = len(o)
        out = {"op": op[0]}
        idx, rows, label = [], [], None
        if op[0] == "add":
            o.add_sample(**make_row(op[1], disc))
            mop = f"M.{A}Add {zlit(op[1])}"
        elif op[0] in ("sample", "rsample"):
            real = op[0] == "rsample"
            b = op[2] if real else len(op[1])
            pr0 = o.priority.priority[:n0].copy() if kind != "uniform" else None
            if real:
                g = np.random.default_rng(op[1])
            else:
                g = StubRng()
                if kind == "uniform":
                    g.int_fracs = op[1]
                else:
                    g.uniforms = [float(u) for u in op[1]]
            res = o.sample_batch(b, g)
            batch, w = res if kind == "per" else (res, None)
            rows = [k if ok else "inconsistent" for k, ok in (decode_row(batch, j, disc) for j in range(b))]
            label = [RING_KEYS.index(f) if f in RING_KEYS else -1 for f in batch._fields]
            out.update(type=type(batch).__name__, fields=tuple(batch._fields), raw=batch_sig(batch),
                       weights=None if w is None else arr_sig(w))
            if real:
                out["rng_after"] = repr(g.bit_generator.state)
            else:
                out["calls"] = repr(g.calls)
            if kind != "uniform":
                idx = [int(i) for i in o.priority.sampled_indices]
            if model:
                g2 = np.random.default_rng(op[1]) if real else None
                if kind == "uniform":
                    draws = [int(i) for i in (g2.integers(0, n0, b) if real else g.last_int_draws)]
                    idx = draws
                    mop = f"M.RSample {llit(draws, nlit)}"
                elif not real:
                    mop = f"M.LSample {llit(op[1], qlit)}"
                elif kind == "lap":
                    mop = f"M.LSample {llit([frac(u) for u in g2.uniform(0, 1, size=b)], qlit)}"
                else:
                    seg = np.cumsum(pr0)[-1] / b
                    pts = g2.uniform(low=np.arange(b) * seg, high=(np.arange(b) + 1) * seg, size=b)
                    segq = sum(frac(x) for x in pr0) / b
                    mop = f"M.LSample {llit([(frac(x) - j * segq) / segq for j, x in enumerate(pts)], qlit)}"
                if real:
                    out["replica_rng_matches"] = repr(g2.bit_generator.state) == out["rng_after"]
            elif kind == "uniform":
                idx = None
        elif op[0] == "update":
            o.update_priority(np.array([float(p) for p in op[1]]))
            mop = f"M.LUpdate {llit(op[1], qlit)}"
        elif op[0] == "update_scalar":
            o.update_priority(float(op[1]))
            mop = f"M.LUpdateScalar {qlit(op[1])}"
        elif op[0] == "reset":
            o.reset_max_priority()
            mop = "M.LReset"
        n = len(o)
        if kind == "uniform":
            out["view"] = [n, n, rows, label]          # ro_range = rb_draw_range = len
        else:
            out["view"] = [n, qs(o.priority.max_priority), [qs(x) for x in o.priority.priority[:n]], idx, rows, label]
        return out, mop

    def image(self, o, chk, where):
        """The pickled dict (what __getstate__ returns) in the model's image layout."""
        d = o.__getstate__()
        want = {"buffer", "buffer_size", "current_len", "insert_idx"} | ({"priority"} if self.kind != "uniform" else set())
        extra = sorted(set(d) ^ want)
        n = d.get("current_len", 0)
        slots = []
        for i in range(self.cap):
            if i < min(self.adds_at(where), self.cap) and all(len(v) > i for v in d["buffer"].values()):
                ns = types.SimpleNamespace(**{k: v[i:i + 1] for k, v in d["buffer"].items()})
                k, ok = decode_row(ns, 0, self.discrete)
                slots.append(k if ok else "inconsistent")
            else:
                slots.append(None)
        f = [slots, d.get("buffer_size"), n, d.get("insert_idx")]
        if self.kind != "uniform":
            p = d["priority"]
            f.append([[qs(x) for x in p.priority[:n]], qs(p.max_priority), [int(i) for i in p.sampled_indices]])
        return {"keys": [RING_KEYS.index(k) for k in d["buffer"]], "fields": f, "unexpected_entries": extra}

    def adds_at(self, where):
        return where["adds"]

    def img_equal(self, m, im):
        if im["unexpected_entries"] or m[0] != im["keys"]:
            return False
        mf, f = m[1], im["fields"]
        n = f[2]
        if mf[1:4] != f[1:4]:
            return False
        if any(a is not None and a != b for a, b in zip(mf[0], f[0])) or sum(a is not None for a in mf[0]) != sum(b is not None for b in f[0]):
            return False
        if self.kind != "uniform":
            mp = mf[4]
            if [mp[0][:n], mp[1], mp[2]] != f[4]:
                return False
        return True

    def expr(self, mops):
        if self.kind == "uniform":
            return CRASH(IMG(RBF), OUT["uniform"], f"M.rb_crash {llit(self.codes, nlit)} {nlit(self.cap)} {llit(mops, str)}")
        return CRASH(IMG(LAPF), OUT["lap"],
                     f"M.lap_crash {blit(self.kind == 'per')} {llit(self.codes, nlit)} {nlit(self.cap)} {llit(mops, str)}")

    def out_equal(self, m, view):
        return canon(list(m)) == canon(view)


# ------------------------------------------------------------------ subtrajectory family
class Sub:
    def __init__(self, kind, rng):
        self.kind = kind
        self.cls_name = "SubtrajectoryReplayBuffer" if kind == "subtraj" else "SubtrajectoryReplayBufferPER"
        self.H = int(rng.integers(1, 4))
        self.cap = int(rng.integers(self.H + 1, self.H + 6))
        self.variant = str(rng.choice(["default", "permuted"]))
        self.keys = list(SUB_KEYS)
        if self.variant == "permuted":
            self.keys = [SUB_KEYS[i] for i in rng.permutation(6)]
        self.codes = [SUB_KEYS.index(k) for k in self.keys]
        self.hs = sorted({1, self.H})
        self.rows = gen_rows(rng, 40, str(rng.choice(["mixed", "mixed", "ones", "long"])))
        self.ri = 0
        self.cfg = {"class": self.cls_name, "capacity": self.cap, "horizon": self.H, "variant": self.variant, "keys": self.keys}

    def new(self):
        from rl_blox.blox import replay_buffer as rbm
        kw = {}
        if self.variant == "permuted":
            base = dict(zip(SUB_KEYS, [float, float, float, float, int, int]))
            kw = {"keys": list(self.keys), "dtypes": [base[k] for k in self.keys]}
        return getattr(rbm, self.cls_name)(self.cap, horizon=self.H, **kw)

    snap = staticmethod(snap_buffer)

    def gen_op(self, rng, o):
        n = len(o)
        r = rng.random()
        nz = int(np.count_nonzero(o.mask_))
        if n == 0 or r < 0.55:
            row = self.rows[self.ri % len(self.rows)]
            self.ri += 1
            return ("add", {k: row[k] for k in ("obs", "act", "rew", "nobs", "term", "trunc")})
        h = int(rng.integers(1, self.H + 1))
        b = int(rng.choice([1, 2, 4]))
        if self.kind == "subtraj":
            if nz == 0:
                return ("noop",)
            return ("rsample", int(rng.integers(0, 2**31)), b, h, bool(rng.integers(0, 2)))
        prio_m = [frac(x) * int(m) for x, m in zip(o.priority.priority[:n], o.mask_[:n])]
        if r < 0.75 and sum(prio_m) > 0:
            return ("sample", boundary_us(prio_m, rng, b), h)
        if r < 0.83 and sum(prio_m) > 0:
            return ("rsample", int(rng.integers(0, 2**31)), b, h, True)
        nb = len(o.priority.sampled_indices)
        if r < 0.95 and nb > 0:
            return ("update", [dy(rng) for _ in range(nb)])
        return ("reset",)

    def state_view(self, o, at):
        return [len(o), int(o.insert_idx), int(o.episode_timesteps), [bool(x) for x in o.mask_],
                bool(o.environment_terminates), at]

    def apply(self, o, op, model=False):
        out = {"op": op[0]}
        mop = None
        label = None
        if op[0] == "add":
            r = op[1]
            ret = o.add_sample(observation=float(r["obs"]), action=float(r["act"]), reward=float(r["rew"]),
                               next_observation=float(r["nobs"]), terminated=r["term"], truncated=r["trunc"])
            out["ret"] = None if ret is None else [int(x) for x in ret]
            if self.kind == "subtraj":
                mop = srow_lit(r)
                nz = [i for i, m in enumerate(o.mask_) if m]
                wins, raws = {}, []
                for h in self.hs if nz else []:
                    s1 = StubRng()
                    s1.int_fracs = [F(j, len(nz)) for j in range(len(nz))]
                    full = o.sample_batch(len(nz), h, True, s1)
                    s2 = StubRng()
                    s2.int_fracs = [F(j, len(nz)) for j in range(len(nz))]
                    red = o.sample_batch(len(nz), h, False, s2)
                    raws.append((batch_sig(full), batch_sig(red), repr(s1.calls), tuple(full._fields), tuple(red._fields)))
                    label = [SUB_KEYS.index(f) for f in full._fields]
                    w = batch_rows(full, len(nz), h)
                    g = lambda name, shape: np.asarray(getattr(red, name)).reshape(shape)
                    ro, ra, rn = g("observation", len(nz)), g("action", len(nz)), g("next_observation", len(nz))
                    rr, rt, ru = g("reward", (len(nz), h)), g("terminated", (len(nz), h)), g("truncated", (len(nz), h))
                    for wi, start in enumerate(nz):
                        redv = [int(ro[wi]), int(ra[wi]), int(rn[wi]), [int(x) for x in rr[wi]], [bool(x) for x in rt[wi]],
                                [bool(x) for x in ru[wi]]]
                        wins.setdefault(start, []).append([h, [w[wi], redv]])
                out["raw"] = tuple(raws)
                out["view"] = [self.state_view(o, out["ret"]), [[s, wins[s]] for s in sorted(wins)], label]
            else:
                mop = f"M.PAdd {srow_lit(r)}"
        elif op[0] in ("sample", "rsample"):
            real = op[0] == "rsample"
            b, h = (op[2], op[3]) if real else (len(op[1]), op[2])
            inter = op[4] if real else True
            if real:
                g = np.random.default_rng(op[1])
            else:
                g = StubRng()
                g.uniforms = [float(u) for u in op[1]]
            batch = o.sample_batch(b, h, inter, g)
            out.update(type=type(batch).__name__, fields=tuple(batch._fields), raw=batch_sig(batch))
            label = [SUB_KEYS.index(f) for f in batch._fields]
            if real:
                out["rng_after"] = repr(g.bit_generator.state)
            else:
                out["calls"] = repr(g.calls)
            if self.kind == "subtraj_per":
                starts = [int(i) for i in o.priority.sampled_indices]
                out["starts"] = starts
                out["windows"] = batch_rows(batch, b, h)
                if model:
                    if real:
                        g2 = np.random.default_rng(op[1])
                        us = [frac(u) for u in g2.uniform(0, 1, size=b)]
                        out["replica_rng_matches"] = repr(g2.bit_generator.state) == out["rng_after"]
                    else:
                        us = op[1]
                    mop = f"M.PSample ({llit(us, qlit)}, {nlit(h)})"
        elif op[0] == "update":
            o.update_priority(np.array([float(p) for p in op[1]]))
            mop = f"M.PUpdate {llit(op[1], qlit)}"
        elif op[0] == "reset":
            o.reset_max_priority()
            mop = "M.PReset"
        if self.kind == "subtraj_per":
            n = len(o)
            out["view"] = [self.state_view(o, []), qs(o.priority.max_priority), [qs(x) for x in o.priority.priority[:n]],
                           out.get("starts", []), out.get("windows", []), label]
        elif "view" not in out:
            out["view"] = None
        return out, mop

    def image(self, o, chk, where):
        d = o.__getstate__()
        want = {"buffer", "buffer_size", "current_len", "insert_idx", "episode_timesteps", "environment_terminates",
                "horizon", "mask_"} | ({"priority"} if self.kind == "subtraj_per" else set())
        extra = sorted(set(d) ^ want)
        n = d.get("current_len", 0)
        B = d["buffer"]
        rows = []

        def si(x):      # unwritten np.empty memory may hold anything
            try:
                return int(x)
            except (ValueError, OverflowError):
                return None
        for i in range(self.cap):
            if all(len(v) > i for v in B.values()):
                rows.append([si(B["observation"][i]), si(B["action"][i]), si(B["reward"][i]), si(B["next_observation"][i]),
                             bool(B["terminated"][i]), bool(B["truncated"][i])])
            else:
                rows.append(None)
        f = [rows, d.get("buffer_size"), n, d.get("insert_idx"), d.get("episode_timesteps"),
             bool(d.get("environment_terminates")), d.get("horizon"), [bool(x) for x in d.get("mask_", [])]]
        img = {"keys": [SUB_KEYS.index(k) for k in B], "unexpected_entries": extra, "sub": f}
        if self.kind == "subtraj_per":
            p = d["priority"]
            img["prio"] = [[qs(x) for x in p.priority[:n]], qs(p.max_priority), [int(i) for i in p.sampled_indices]]
        return img

    def img_equal(self, m, im):
        if im["unexpected_entries"] or m[0] != im["keys"]:
            return False
        ms = m[1][0] if self.kind == "subtraj_per" else m[1]
        f = im["sub"]
        if ms[1:] != f[1:]:
            return False
        # slots the model says were written must hold exactly that row (unwritten memory is arbitrary)
        for a, b in zip(ms[0], f[0]):
            if a is not None and a != b:
                return False
        if self.kind == "subtraj_per":
            mp = m[1][1]
            if [mp[0][:f[2]], mp[1], mp[2]] != im["prio"]:
                return False
        return True

    def expr(self, mops):
        if self.kind == "subtraj":
            return CRASH(IMG(SBF), OUT["subtraj"],
                         f"M.sb_crash {llit(self.hs, nlit)} {llit(self.codes, nlit)} {nlit(self.cap)} {nlit(self.H)} {llit(mops, str)}")
        return CRASH(IMG(SBPF), OUT["subtraj_per"],
                     f"M.sbp_crash {llit(self.codes, nlit)} {nlit(self.cap)} {nlit(self.H)} {llit(mops, str)}")

    def out_equal(self, m, view):
        m = list(m)
        if self.kind == "subtraj":
            st, ws, lab = m
            if view[1] == []:       # nothing enabled: the implementation cannot sample, no batch type observed
                return canon([st, ws]) == canon(view[:2])
            return canon([st, ws, lab]) == canon(view)
        return canon(m) == canon(list(view))


# ------------------------------------------------------------------ multi-task family
class Multi:
    def __init__(self, kind, rng):
        self.kind = kind
        self.base = "ReplayBuffer" if kind == "mt_uniform" else "LAP"
        self.cls_name = f"MultiTaskReplayBuffer[{self.base}]"
        self.cap = int(rng.choice([1, 2, 3, 4]))
        self.nt = int(rng.choice([1, 2, 3, 4]))
        self.codes = list(range(5))
        self.k = 0
        self.adds = []      # task of every add, in order
        self.cfg = {"class": self.cls_name, "capacity": self.cap, "tasks": self.nt}

    def new(self):
        from rl_blox.blox import replay_buffer as rbm
        return rbm.MultiTaskReplayBuffer(getattr(rbm, self.base)(self.cap), self.nt)

    snap = staticmethod(snap_mt)

    def gen_op(self, rng, o):
        r = rng.random()
        if r < 0.2:
            return ("select", int(rng.integers(-1, self.nt + 1)))
        if r < 0.55 or not o.active_buffers:
            self.k += 1
            return ("add", self.k)
        b = int(rng.choice([1, 2, 3]))
        pos = int(rng.integers(0, 4))
        style = str(rng.choice(["kw", "pos"]))
        if self.kind == "mt_uniform":
            return ("sample", pos, gen_fracs(rng, b), style) if r < 0.85 else ("rsample", int(rng.integers(0, 2**31)), b, style)
        if r < 0.72:
            t = sorted(o.active_buffers)[pos % len(o.active_buffers)]
            nb = len(o.buffers[t])
            return ("sample", pos, boundary_us([frac(x) for x in o.buffers[t].priority.priority[:nb]], rng, b), style)
        if r < 0.8:
            return ("rsample", int(rng.integers(0, 2**31)), b, style)
        if r < 0.94 and hasattr(o, "sampled_task_idx") and len(o.buffers[o.sampled_task_idx].priority.sampled_indices) > 0:
            return ("update", [dy(rng) for _ in o.buffers[o.sampled_task_idx].priority.sampled_indices])
        return ("reset",) if self.kind == "mt_lap" else ("select", int(rng.integers(0, self.nt)))

    def apply(self, o, op, model=False):
        U = self.kind == "mt_uniform"
        A = "U" if U else "M"
        out = {"op": op[0]}
        mop, ok, rows, idx, label, rng_range = None, True, [], [], None, 0
        if op[0] == "select":
            try:
                o.select_task(op[1])
            except ValueError:
                ok = False
            mop = f"M.{A}Select {zlit(op[1])}"
        elif op[0] == "add":
            o.add_sample(**make_row(op[1]))
            mop = f"M.{A}Add {zlit(op[1])}"
        elif op[0] in ("sample", "rsample"):
            real = op[0] == "rsample"
            b = op[2] if real else len(op[2])
            style = op[3]
            active0 = sorted(int(x) for x in o.active_buffers)
            order0 = [int(x) for x in list(o.active_buffers)]     # the list the implementation passes to rng.choice
            if real:
                g = np.random.default_rng(op[1])
            else:
                g = StubRng()
                g.choice_pos = op[1]
                if U:
                    g.int_fracs = op[2]
                else:
                    g.uniforms = [float(u) for u in op[2]]
            batch = o.sample_batch(b, rng=g) if style == "kw" else o.sample_batch(b, g)
            t = int(o.sampled_task_idx)
            rows = [k if okk else "inconsistent" for k, okk in (decode_row(batch, j) for j in range(b))]
            label = [RING_KEYS.index(f) for f in batch._fields]
            out.update(type=type(batch).__name__, fields=tuple(batch._fields), raw=batch_sig(batch), task=t)
            rng_range = len(o.buffers[t])
            if real:
                out["rng_after"] = repr(g.bit_generator.state)
            else:
                out["calls"] = repr(g.calls)
            if not U:
                idx = [int(i) for i in o.buffers[t].priority.sampled_indices]
            if model:
                if real:
                    g2 = np.random.default_rng(op[1])
                    t2 = int(g2.choice(order0, size=1)[0])
                    pos = active0.index(t2)
                    draws = g2.integers(0, len(o.buffers[t2]), b) if U else g2.uniform(0, 1, size=b)
                    out["replica_rng_matches"] = repr(g2.bit_generator.state) == out["rng_after"]
                else:
                    pos = active0.index(order0[g.last_choice_pos])
                    draws = g.last_int_draws if U else op[2]
                if U:
                    mop = f"M.USample ({nlit(pos)}, {llit([int(i) for i in draws], nlit)})"
                else:
                    mop = f"M.MSample ({nlit(pos)}, {llit([frac(u) for u in draws], qlit)})"
        elif op[0] == "update":
            o.update_priority(np.array([float(p) for p in op[1]]))
            mop = f"M.MUpdate {llit(op[1], qlit)}"
        elif op[0] == "reset":
            o.reset_max_priority()
            mop = "M.MReset"
        task = int(o.sampled_task_idx) if hasattr(o, "sampled_task_idx") else None
        lens = [len(bb) for bb in o.buffers]
        head = [ok, int(o.selected_task), sorted(int(x) for x in o.active_buffers), task, lens]
        if U:
            out["view"] = head + [rng_range, rows, label]
        else:
            out["view"] = head + [[qs(bb.priority.max_priority) for bb in o.buffers],
                                  [[qs(x) for x in bb.priority.priority[:len(bb)]] for bb in o.buffers], idx, rows, label]
        return out, mop

    def image(self, o, chk, where):
        d = o.__getstate__()
        want = {"buffers", "selected_task", "active_buffers"} | ({"sampled_task_idx"} if hasattr(o, "sampled_task_idx") else set())
        extra = sorted(set(d) ^ want)
        subs = []
        sub = Ring.__new__(Ring)
        sub.kind = "uniform" if self.kind == "mt_uniform" else "lap"
        sub.cap, sub.discrete = self.cap, False
        for t, bb in enumerate(d["buffers"]):
            subs.append(Ring.image(sub, bb, chk, {"adds": where["adds_per_task"][t]}))
        return {"unexpected_entries": extra, "subs": subs, "selected": int(d["selected_task"]),
                "active": sorted(int(x) for x in d["active_buffers"]),
                "task": int(d["sampled_task_idx"]) if "sampled_task_idx" in d else None}

    def img_equal(self, m, im):
        if im["unexpected_entries"] or m[1:] != [im["selected"], im["active"], im["task"]] or len(m[0]) != len(im["subs"]):
            return False
        sub = Ring.__new__(Ring)
        sub.kind = "uniform" if self.kind == "mt_uniform" else "lap"
        return all(Ring.img_equal(sub, a, b) for a, b in zip(m[0], im["subs"]))

    def expr(self, mops):
        if self.kind == "mt_uniform":
            return CRASH(MTIMG(RBF), OUT["mt_uniform"],
                         f"M.mtu_crash {llit(self.codes, nlit)} {nlit(self.cap)} {nlit(self.nt)} {llit(mops, str)}")
        return CRASH(MTIMG(LAPF), OUT["mt_lap"],
                     f"M.mtl_crash {llit(self.codes, nlit)} {nlit(self.cap)} {nlit(self.nt)} {llit(mops, str)}")

    def out_equal(self, m, view):
        m, v = list(m), list(view)
        if not m[0] or not v[0]:
            return m[0] == v[0] and canon(m[1:5]) == canon(v[1:5])
        return canon(m) == canon(v)


def state_kinds(obj, adds_list):
    """Which of the quantifier's state kinds a crash point is in."""
    bufs = obj.buffers if hasattr(obj, "buffers") else [obj]
    kinds = set()
    for b, adds in zip(bufs, adds_list):
        n = b.current_len
        kinds.add("empty" if n == 0 else ("partially_filled" if n < b.buffer_size else "full"))
        if hasattr(b, "mask_"):
            if b.episode_timesteps > 0:
                kinds.add("mid_episode")
            if n == b.buffer_size and b.insert_idx < n and adds > n:
                kinds.add("wrapped")
        elif adds > b.buffer_size:
            kinds.add("wrapped")
        if hasattr(b, "priority"):
            if len({float(x) for x in b.priority.priority[:n]}) > 1:
                kinds.add("non_uniform_priorities")
            if len(b.priority.sampled_indices):
                kinds.add("after_sampling")
    return kinds


# ------------------------------------------------------------------ the enumeration
def op_json(op):
    def j(x):
        if isinstance(x, F):
            return str(x)
        if isinstance(x, (list, tuple)):
            return [j(y) for y in x]
        if isinstance(x, dict):
            return {k: j(v) for k, v in x.items()}
        if isinstance(x, (np.integer,)):
            return int(x)
        if isinstance(x, np.bool_):
            return bool(x)
        return x
    return j(list(op))


def run_history(chk, D, rng, n_ops):
    cls = D.cls_name
    case = {"config": D.cfg, "ops": []}
    orig = D.new()
    live = []                # [k, reloaded object, outputs during the continuation]
    all_reloaded = []
    crash = []               # per crash point: (model prefix index, image of the original, reloaded record)
    mops, orig_outs = [], []
    failed = set()
    adds = 0
    adds_per_task = [0] * getattr(D, "nt", 1)
    rows_written = 0         # subtrajectory buffers: slots written (a finished episode writes two)

    def fail(kind, what, extra):
        if kind not in failed:
            failed.add(kind)
            chk.fail(f"C19:{cls}:{kind}", what, {"case": {"config": D.cfg, "ops": list(case["ops"])}, **extra})

    for k in range(n_ops + 1):
        where = {"adds": adds, "adds_per_task": list(adds_per_task)}
        # ---- crash point k: save, load, compare everything public
        ok, blob = chk.impl_call(f"C19:{cls}:dumps-raised", {**case, "prefix": k}, pickle.dumps, orig)
        ok2, re = chk.impl_call(f"C19:{cls}:loads-raised", {**case, "prefix": k}, pickle.loads, blob) if ok else (False, None)
        if ok2:
            so, sr = D.snap(orig), D.snap(re)
            if so != sr:
                dk = diff_keys(so, sr)
                fail("state-after-load", "the reloaded buffer differs from the saved one in public state",
                     {"prefix": k, "fields": dk, "original": {f: brief(so.get(f)) for f in dk[:4]},
                      "reloaded": {f: brief(sr.get(f)) for f in dk[:4]}})
            if type(re) is not type(orig):
                fail("class-after-load", "the reloaded object has another class", {"prefix": k})
            if any(np.shares_memory(a, b) for a in arrays_of(orig) for b in arrays_of(re)):
                fail("aliasing", "the reloaded buffer shares array memory with the original", {"prefix": k})
            ok3, img_r = chk.impl_call(f"C19:{cls}:getstate-raised", {**case, "prefix": k}, D.image, re, chk, where)
            rec = [k, re, [], where]
            live.append(rec)
            all_reloaded.append(rec)
        ok4, img_o = chk.impl_call(f"C19:{cls}:getstate-raised", {**case, "prefix": k}, D.image, orig, chk, where)
        crash.append((len(mops), img_o if ok4 else None))
        chk.count("crash_points")
        for kd in state_kinds(orig, adds_per_task if hasattr(D, "nt") else [rows_written if hasattr(D, "H") else adds]):
            chk.count(f"crash_state_{kd}")
        if k == n_ops:
            break
        # ---- next operation on the original and on every reloaded copy
        op = D.gen_op(rng, orig)
        if op[0] == "noop":
            case["ops"].append(["noop"])
            for rec in live:
                rec[2].append(None)
            orig_outs.append(None)
            continue
        case["ops"].append(op_json(op))
        ok, res = chk.impl_call(f"C19:{cls}:original-raised", dict(case), D.apply, orig, op, True)
        if not ok:
            break
        out_o, mop = res
        if out_o.get("replica_rng_matches") is False:
            chk.disagree(f"{cls}.rng-protocol", {"case": dict(case), "note": "the harness replica of the generator calls ended in another state"})
        out_o.pop("replica_rng_matches", None)
        if op[0] == "add":
            adds += 1
            if hasattr(D, "H"):
                rows_written += 2 if (op[1]["term"] or op[1]["trunc"]) else 1
            if hasattr(D, "nt"):
                adds_per_task[int(orig.selected_task)] += 1
        orig_outs.append(out_o if mop is not None else None)
        if mop is not None:
            mops.append(mop)
        chk.count(f"op_{op[0]}")
        so = D.snap(orig)
        for rec in list(live):
            j, r = rec[0], rec[1]
            okr, resr = chk.impl_call(f"C19:{cls}:reloaded-raised", {**case, "prefix": j}, D.apply, r, op, False)
            if not okr:
                live.remove(rec)
                continue
            out_r = resr[0]
            rec[2].append(out_r if mop is not None else None)
            if out_r != out_o:
                dk = diff_keys(out_o, out_r)
                fail("continuation-output", "after a reload the same operation with the same generator state returns different data",
                     {"prefix": j, "op_index": k, "fields": dk, "original": {f: brief(out_o.get(f)) for f in dk[:3]},
                      "reloaded": {f: brief(out_r.get(f)) for f in dk[:3]}})
                live.remove(rec)
                continue
            sr = D.snap(r)
            if sr != so:
                dk = diff_keys(so, sr)
                fail("continuation-state", "after a reload the same continuation leads to a different state",
                     {"prefix": j, "op_index": k, "fields": dk, "original": {f: brief(so.get(f)) for f in dk[:4]},
                      "reloaded": {f: brief(sr.get(f)) for f in dk[:4]}})
                live.remove(rec)
            chk.count("continuation_steps")
    where_end = {"adds": adds, "adds_per_task": list(adds_per_task)}
    finals = {}
    for rec in live:
        okf, im = chk.impl_call(f"C19:{cls}:getstate-raised", {**case, "prefix": rec[0]}, D.image, rec[1], chk, where_end)
        if okf:
            finals[rec[0]] = im
    okf, final_o = chk.impl_call(f"C19:{cls}:getstate-raised", dict(case), D.image, orig, chk, where_end)
    return {"D": D, "case": case, "mops": mops, "crash": crash, "orig_outs": [o for o in orig_outs if o is not None],
            "reloaded": {rec[0]: [o for o in rec[2] if o is not None] for rec in all_reloaded},
            "alive": {rec[0] for rec in live}, "finals": finals, "final_o": final_o if okf else None,
            "n_model_ops": len(mops), "dirty": bool(failed)}


def compare_model(chk, H, mres):
    D, case = H["D"], H["case"]
    cls = D.cls_name
    if len(mres) != H["n_model_ops"] + 1:
        chk.disagree(f"{cls}.crash-count", {"case": case, "model": len(mres), "expected": H["n_model_ops"] + 1})
        return
    seen = set()

    def dis(name, detail):
        if name not in seen:
            seen.add(name)
            chk.disagree(f"{cls}.{name}", {"case": case, **detail})

    # the original's own trace against the uninterrupted model run
    for i, (mo, oo) in enumerate(zip(mres[0][1], H["orig_outs"])):
        if not D.out_equal(mo, oo["view"]):
            dis("original-trace", {"model_op": i, "model": mo, "impl": canon(oo["view"])})
            break
    for k, (mk, img_o) in enumerate(H["crash"]):
        m_img, m_outs, m_final = mres[mk]
        if img_o is not None and not D.img_equal(m_img, img_o):
            dis("image", {"prefix": k, "model": m_img, "impl": img_o})
        outs = H["reloaded"].get(k)
        if outs is None:
            continue
        # outputs of the continuation that are model operations
        if k in H["alive"] and len(outs) != len(m_outs):
            dis("continuation-length", {"prefix": k, "model": len(m_outs), "impl": len(outs)})
        for i, (mo, ro) in enumerate(zip(m_outs, outs)):
            if not D.out_equal(mo, ro["view"]):
                dis("continuation", {"prefix": k, "step": i, "model": mo, "impl": canon(ro["view"])})
                break
        if k in H["finals"] and not D.img_equal(m_final, H["finals"][k]):
            dis("final-image", {"prefix": k, "model": m_final, "impl": H["finals"][k]})
    if H["final_o"] is not None and not D.img_equal(mres[-1][0], H["final_o"]):
        dis("final-image-original", {"model": mres[-1][0], "impl": H["final_o"]})


# ------------------------------------------------------------------ multi-task over the prioritized subtrajectory buffer
class MultiSub:
    """MultiTaskReplayBuffer(SubtrajectoryReplayBufferPER) as used by the multi-task MR.Q example: spec
    oracle only (original vs reloaded); BufferRun.v has no interpreter for this combination."""
    has_model = False

    def __init__(self, kind, rng):
        self.kind = kind
        self.cls_name = "MultiTaskReplayBuffer[SubtrajectoryReplayBufferPER]"
        self.H = int(rng.integers(1, 3))
        self.cap = int(rng.integers(self.H + 1, self.H + 5))
        self.nt = int(rng.choice([2, 3]))
        self.rows = gen_rows(rng, 40, "mixed")
        self.ri = 0
        self.cfg = {"class": self.cls_name, "capacity": self.cap, "horizon": self.H, "tasks": self.nt}

    def new(self):
        from rl_blox.blox import replay_buffer as rbm
        return rbm.MultiTaskReplayBuffer(rbm.SubtrajectoryReplayBufferPER(self.cap, horizon=self.H), self.nt)

    snap = staticmethod(snap_mt)

    @staticmethod
    def _masked_sum(b):
        n = len(b)
        return sum(frac(x) * int(m) for x, m in zip(b.priority.priority[:n], b.mask_[:n]))

    def gen_op(self, rng, o):
        r = rng.random()
        if r < 0.15:
            return ("select", int(rng.integers(0, self.nt)))
        act = [o.buffers[t] for t in o.active_buffers]
        if r < 0.6 or not act or any(self._masked_sum(b) <= 0 for b in act):
            row = self.rows[self.ri % len(self.rows)]
            self.ri += 1
            return ("add", {k: row[k] for k in ("obs", "act", "rew", "nobs", "term", "trunc")})
        h = int(rng.integers(1, self.H + 1))
        b = int(rng.choice([1, 2, 4]))
        if r < 0.72:
            return ("sample", int(rng.integers(0, 4)), [F(int(rng.integers(1, 2**10)), 2**10) for _ in range(b)], h)
        if r < 0.84:
            return ("rsample", int(rng.integers(0, 2**31)), b, h)
        if r < 0.95 and hasattr(o, "sampled_task_idx") and len(o.buffers[o.sampled_task_idx].priority.sampled_indices):
            return ("update", [dy(rng) for _ in o.buffers[o.sampled_task_idx].priority.sampled_indices])
        return ("reset",)

    def apply(self, o, op, model=False):
        out = {"op": op[0], "view": None}
        if op[0] == "select":
            o.select_task(op[1])
        elif op[0] == "add":
            r = op[1]
            o.add_sample(observation=float(r["obs"]), action=float(r["act"]), reward=float(r["rew"]),
                         next_observation=float(r["nobs"]), terminated=r["term"], truncated=r["trunc"])
        elif op[0] in ("sample", "rsample"):
            if op[0] == "rsample":
                g = np.random.default_rng(op[1])
                batch = o.sample_batch(op[2], op[3], True, g)
                out["rng_after"] = repr(g.bit_generator.state)
            else:
                g = StubRng()
                g.choice_pos = op[1]
                g.uniforms = [float(u) for u in op[2]]
                batch = o.sample_batch(len(op[2]), op[3], True, rng=g)
                out["calls"] = repr(g.calls)
            out.update(type=type(batch).__name__, fields=tuple(batch._fields), raw=batch_sig(batch), task=int(o.sampled_task_idx))
        elif op[0] == "update":
            o.update_priority(np.array([float(p) for p in op[1]]))
        elif op[0] == "reset":
            o.reset_max_priority()
        out["view"] = [int(o.selected_task), [len(b) for b in o.buffers], bool(o.environment_terminates)]
        return out, None

    def image(self, o, chk, where):
        return {"entries": sorted(o.__getstate__())}


# ------------------------------------------------------------------ bin/replay
def _parse(x):
    import re
    if isinstance(x, str) and re.fullmatch(r"-?\d+(/\d+)?", x):
        return F(x)
    if isinstance(x, list):
        return [_parse(y) for y in x]
    return x


def _driver_from_config(cfg):
    name = cfg["class"]
    kind = {"ReplayBuffer": "uniform", "LAP": "lap", "PrioritizedReplayBuffer": "per",
            "SubtrajectoryReplayBuffer": "subtraj", "SubtrajectoryReplayBufferPER": "subtraj_per",
            "MultiTaskReplayBuffer[SubtrajectoryReplayBufferPER]": "mt_subtraj_per",
            "MultiTaskReplayBuffer[ReplayBuffer]": "mt_uniform", "MultiTaskReplayBuffer[LAP]": "mt_lap"}[name]
    cls = dict(FAMILIES)[kind]
    D = cls(kind, np.random.default_rng(0))
    D.cap = cfg["capacity"]
    if "variant" in cfg:
        D.variant = cfg["variant"]
        D.keys = list(cfg["keys"])
        D.discrete = D.variant == "discrete"
    if "horizon" in cfg:
        D.H = cfg["horizon"]
        D.hs = sorted({1, D.H})
    if "tasks" in cfg:
        D.nt = cfg["tasks"]
    D.cfg = cfg
    return D


def replay(rep, key=None):
    """Re-execute a recorded buffer case on the current working tree: run the recorded operations,
    pickle / unpickle at the recorded prefix, drive both objects through the rest; prints the
    first difference. Exit status 1 when original and reloaded object differ."""
    if "case" not in rep or "config" not in rep["case"]:
        print(__import__("json").dumps(rep, indent=1, default=str)[:6000])
        print("(module case: re-run `bin/check C19 quick` to re-execute)")
        return 0
    D = _driver_from_config(rep["case"]["config"])
    ops = [tuple(_parse(o)) for o in rep["case"]["ops"]]
    k0 = rep.get("prefix", len(ops))
    orig, re_ = D.new(), None
    for i, op in enumerate(ops + [None]):
        if i == k0:
            re_ = pickle.loads(pickle.dumps(orig))
            d = diff_keys(D.snap(orig), D.snap(re_))
            print(f"prefix {i}: pickled and reloaded; differing public fields: {d}")
            for f in d[:4]:
                print("   ", f, "original", brief(D.snap(orig)[f]), "reloaded", brief(D.snap(re_).get(f)))
            if d:
                return 1
        if op is None or op[0] == "noop":
            continue
        if op[0] == "add" and isinstance(op[1], dict):
            op = ("add", {k: (int(v) if isinstance(v, F) else v) for k, v in op[1].items()})
        out_o, _ = D.apply(orig, op, False)
        if re_ is not None:
            try:
                out_r, _ = D.apply(re_, op, False)
            except Exception as e:  # noqa: BLE001
                print(f"op {i} {op_json(op)}: the reloaded object raised {e!r}")
                return 1
            d = diff_keys(out_o, out_r) + diff_keys(D.snap(orig), D.snap(re_))
            if d:
                print(f"op {i} {op_json(op)}: original and reloaded differ in {d}")
                print("    original", canon(out_o["view"]), "\n    reloaded", canon(out_r["view"]))
                return 1
    print("original and reloaded object agree on the whole recorded continuation")
    return 0


FAMILIES = [("uniform", Ring), ("lap", Ring), ("per", Ring), ("subtraj", Sub), ("subtraj_per", Sub),
            ("mt_uniform", Multi), ("mt_lap", Multi), ("mt_subtraj_per", MultiSub)]


def main(chk):
    chk.proof_step()
    rng = np.random.default_rng(chk.seed)
    per_class = 12 if chk.tier == "quick" else 400
    hists, exprs = [], []
    for kind, cls in FAMILIES:
        for i in range(per_class):
            D = cls(kind, rng)
            n_ops = int(rng.integers(6, 25))
            if i == 0:
                n_ops = 24                       # one long history per class: wrapped several times
            H = run_history(chk, D, rng, n_ops)
            if getattr(D, "has_model", True):
                hists.append(H)
                exprs.append(D.expr(H["mops"]))
            ops = H["case"]["ops"]
            chk.case((D.cls_name, str(D.cfg), hash(str(ops))), nontrivial=len(ops) >= 3)
            chk.count(f"histories_{D.cls_name}")
            chk.count("prefixes", len(H["crash"]))
    mres = chk.model_eval(exprs, per_file=8)
    for H, mr in zip(hists, mres):
        compare_model(chk, H, mr)
    h0 = hists[0]
    chk.sample({"config": h0["case"]["config"], "ops": h0["case"]["ops"][:8],
                "model_image_at_prefix_3": mres[0][min(3, len(mres[0]) - 1)][0],
                "getstate_at_prefix_3": h0["crash"][min(3, len(h0["crash"]) - 1)][1]})
    from c19_modules import check_modules
    names = check_modules(chk, rng, chk.tier)
    chk.sample({"module_types": names})
    return chk.finish(
        level="proof",
        rule="crash-point enumeration: per buffer class (ReplayBuffer, LAP, PrioritizedReplayBuffer, SubtrajectoryReplayBuffer, "
             "SubtrajectoryReplayBufferPER, MultiTaskReplayBuffer over ReplayBuffer and over LAP) generated histories of 6-24 "
             "operations (add / stub-scripted sample / real-generator sample / update / scalar update / reset / select; capacities "
             "1-7, default, float32+bool, discrete-action and permuted-key configurations); pickle.dumps/loads after EVERY prefix "
             "(empty, partial, wrapped, mid-episode, non-uniform priorities, after sampling); the original, every reloaded copy and "
             "the extracted model (run prefix, save, load, run continuation) driven through the whole continuation; all public "
             "state compared bitwise after every step. Modules: 19 module types x {initialiser, random, special-value} leaves x "
             "{save_pickle/load_pickle with and without device, OrbaxCheckpointer.record_epoch + StandardCheckpointer.restore + "
             "nnx.update, restore_checkpoint, StandardLogger checkpoint + restore_checkpoint}: tree structure, dtypes, leaf bits "
             "and outputs on fixed inputs bitwise. distinct = distinct (class, configuration, history) / (module, values)",
        assumptions=["PARTIAL: the theorems are about the model (the stored attributes are a sufficient statistic); that pickle / "
                     "Orbax reproduce every stored attribute bit for bit is observed on the enumerated crash points only",
                     "unfilled regions of np.empty storage are compared by shape and dtype only (their content is arbitrary)",
                     "real-generator sampling: the model is fed the draws of a harness replica of the generator calls; the replica's "
                     "final generator state must equal the implementation's",
                     "exact regime: dyadic priorities; uniform variates of the real generator are exact float64 rationals"])
