"""Re-execute a replay file: calls <module>.replay(case) when the check module provides it,
otherwise prints the recorded case (inputs, expected, observed)."""
import importlib
import json
import sys

import os
sys.path.insert(0, os.environ.get("VERIF_ROOT", "/verif") + "/harness")
import common  # noqa: E402

d = json.load(open(sys.argv[1]))
print("property:", d.get("property"), "finding:", d.get("finding_key", d.get("no_longer_checks")))
common.setup_impl_path()
mod = importlib.import_module(d["property"].lower())
if hasattr(mod, "replay") and "replay" in d:
    sys.exit(mod.replay(d["replay"], d.get("finding_key")))
print(json.dumps(d, indent=1)[:20000])
