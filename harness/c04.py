"""C04 — sampled subtrajectories are contiguous single-episode runs."""
import fractions

import numpy as np

from common import blit, llit, nlit, zlit
from stubs import StubRng

F = fractions.Fraction


def srow_lit(r):
    return (f"{{M.r_obs = {zlit(r['obs'])}; r_act = {zlit(r['act'])}; r_rew = {zlit(r['rew'])}; r_nobs = {zlit(r['nobs'])}; "
            f"r_term = {blit(r['term'])}; r_trunc = {blit(r['trunc'])}}}")


def gen_rows(rng, n_rows, style):
    """Episodes of length 1-7 ending terminated / truncated; style 'ones' = back-to-back
    one-step episodes, 'long' = episodes longer than any horizon."""
    rows, ep, k = [], 0, 1
    while len(rows) < n_rows:
        if style == "ones":
            L = 1
        elif style == "long":
            L = int(rng.integers(5, 12))
        else:
            L = int(rng.choice([1, 1, 2, 3, 4, 5, 7]))
        end = str(rng.choice(["term", "trunc"], p=[0.6, 0.4]))
        for t in range(L):
            last = t == L - 1
            rows.append({"obs": 1000 * ep + t, "act": k, "rew": k, "nobs": 1000 * ep + t + 1,
                         "term": last and end == "term", "trunc": last and end == "trunc", "ep": ep, "t": t})
            k += 1
        ep += 1
    return rows[:n_rows]


ROW_PR = ('(so (fun r -> "[" ^ sz r.M.r_obs ^ "," ^ sz r.M.r_act ^ "," ^ sz r.M.r_rew ^ "," ^ sz r.M.r_nobs ^ "," ^ '
          'sb r.M.r_term ^ "," ^ sb r.M.r_trunc ^ "]"))')
RED_PR = ('(fun v -> "[" ^ so sz v.M.v_obs ^ "," ^ so sz v.M.v_act ^ "," ^ so sz v.M.v_nobs ^ "," ^ sl (so sz) v.M.v_rew ^ "," ^ '
          'sl (so sb) v.M.v_term ^ "," ^ sl (so sb) v.M.v_trunc ^ "]")')


def model_expr(cap, H, hs, rows):
    return (f'(sl (fun (o, ws) -> "[" ^ sn o.M.so_len ^ "," ^ sn o.M.so_ins ^ "," ^ sn o.M.so_ept ^ "," ^ sl sb o.M.so_mask ^ "," ^ sb o.M.so_envterm '
            f'^ "," ^ sl sn o.M.so_at ^ "," ^ sl (sp sn (sl (sp sn (sp (sl {ROW_PR}) {RED_PR})))) ws ^ "]") '
            f'(M.sb_trace (M.sb_init {nlit(cap)} {nlit(H)}) {llit(hs, nlit)} {llit(rows, srow_lit)}))')


def batch_rows(batch, b, h):
    """Decode an include_intermediate batch into b windows of h rows."""
    g = lambda name: np.asarray(getattr(batch, name)).reshape(b, h)
    o, a, r, no, te, tr = g("observation"), g("action"), g("reward"), g("next_observation"), g("terminated"), g("truncated")
    return [[[int(o[i, j]), int(a[i, j]), int(r[i, j]), int(no[i, j]), bool(te[i, j]), bool(tr[i, j])]
             for j in range(h)] for i in range(b)]


def run_history(chk, kind, cap, H, hs, rows):
    from rl_blox.blox import replay_buffer as rbm
    cls = rbm.SubtrajectoryReplayBuffer if kind == "uniform" else rbm.SubtrajectoryReplayBufferPER
    buf = cls(cap, horizon=H)
    rng_local = np.random.default_rng(cap * 1000 + H * 100 + len(rows))
    added = {}  # (ep, t) -> row
    trace = []
    case = {"class": kind, "capacity": cap, "horizon": H, "rows": [[r["ep"], r["t"], r["term"], r["trunc"]] for r in rows]}
    for ri, r in enumerate(rows):
        ret = buf.add_sample(observation=float(r["obs"]), action=float(r["act"]), reward=float(r["rew"]),
                             next_observation=float(r["nobs"]), terminated=r["term"], truncated=r["trunc"])
        added[(r["ep"], r["t"])] = r
        n = len(buf)
        mask = [bool(x) for x in buf.mask_]
        nz = [i for i, m in enumerate(mask) if m]
        out = {"len": n, "ins": int(buf.insert_idx), "ept": int(buf.episode_timesteps), "mask": mask,
               "envterm": bool(buf.environment_terminates),
               "at": [int(x) for x in ret] if ret is not None else None, "windows": []}
        if nz and kind == "uniform":
            for h in hs:
                stub = StubRng()
                stub.int_fracs = [F(j, len(nz)) for j in range(len(nz))]
                full = buf.sample_batch(len(nz), h, True, stub)
                call = [c for c in stub.calls if c[0] == "integers"][0]
                if (call[1], call[2]) != (0, len(nz)):
                    chk.disagree("subtraj.draw_range", {"case": case, "after_row": ri, "impl": [call[1], call[2]], "model": [0, len(nz)]})
                wins = batch_rows(full, len(nz), h)
                stub2 = StubRng()
                stub2.int_fracs = [F(j, len(nz)) for j in range(len(nz))]
                red = buf.sample_batch(len(nz), h, False, stub2)
                ro = np.asarray(red.observation).reshape(len(nz))
                ra = np.asarray(red.action).reshape(len(nz))
                rn = np.asarray(red.next_observation).reshape(len(nz))
                rr = np.asarray(red.reward).reshape(len(nz), h)
                rt = np.asarray(red.terminated).reshape(len(nz), h)
                ru = np.asarray(red.truncated).reshape(len(nz), h)
                for wi, (start, w) in enumerate(zip(nz, wins)):
                    redv = [int(ro[wi]), int(ra[wi]), int(rn[wi]), [int(x) for x in rr[wi]], [bool(x) for x in rt[wi]], [bool(x) for x in ru[wi]]]
                    out["windows"].append((start, h, w, redv))
                    chk.count("windows")
                    spec_window(chk, case, ri, start, h, w, redv, added, kind)
        if nz and kind == "per":
            # the prioritized buffer through its real sampling path, interleaved with the additions (state carried from draw to draw):
            # windows and reduced views must satisfy the property whatever the priorities are
            for h in hs:
                b = 4
                us = [float(u) for u in np.clip((np.arange(b) + 0.5) / b + rng_local.uniform(-0.1, 0.1, size=b), 1e-6, 1 - 1e-6)]
                stub = StubRng()
                stub.uniforms = list(us)
                okc, full = chk.impl_call("C04:per:sample-raised", {**case, "after_row": ri, "h": h}, buf.sample_batch, b, h, True, stub)
                if not okc:
                    break
                wins = batch_rows(full, b, h)
                stub2 = StubRng()
                stub2.uniforms = list(us)
                okc, red = chk.impl_call("C04:per:sample-raised", {**case, "after_row": ri, "h": h}, buf.sample_batch, b, h, False, stub2)
                if not okc:
                    break
                ro, ra, rn = (np.asarray(getattr(red, k_)).reshape(b) for k_ in ("observation", "action", "next_observation"))
                rr, rt, ru = (np.asarray(getattr(red, k_)).reshape(b, h) for k_ in ("reward", "terminated", "truncated"))
                for wi, w in enumerate(wins):
                    redv = [int(ro[wi]), int(ra[wi]), int(rn[wi]), [int(x) for x in rr[wi]], [bool(x) for x in rt[wi]], [bool(x) for x in ru[wi]]]
                    chk.count("per_windows")
                    spec_window(chk, case, ri, None, h, w, redv, added, kind)
            if ri % 3 == 2:
                buf.update_priority(np.asarray(rng_local.choice([0.25, 1.0, 4.0], size=4), dtype=float))
        trace.append(out)
    return trace, case


def spec_window(chk, case, ri, start, h, w, redv, added, kind):
    """The property, evaluated directly on the tags carried by the returned rows."""
    k = next((j for j, r in enumerate(w) if r[4]), h - 1)
    prev = None
    for j in range(k + 1):
        obs, act, rew, nobs, term, trunc = w[j]
        ep, t = divmod(obs, 1000)
        orig = added.get((ep, t))
        bad = None
        if orig is None or [orig["obs"], orig["act"], orig["rew"], orig["nobs"], orig["term"], orig["trunc"]] != [obs, act, rew, nobs, term, trunc]:
            bad = "row is not a transition that was added (overwritten, synthetic or never-written slot)"
        elif trunc:
            bad = "window contains a truncated step"
        elif prev is not None and (ep, t) != (prev[0], prev[1] + 1):
            bad = "rows are not temporally contiguous steps of one episode"
        if bad:
            chk.fail(f"C04:{kind}:window", bad, {"case": case, "after_row": ri, "start": start, "h": h, "position": j, "window": w})
            return
        prev = (ep, t)
    exp = [w[0][0], w[0][1], w[-1][3], [r[2] for r in w], [r[4] for r in w], [r[5] for r in w]]
    if redv != exp:
        chk.fail(f"C04:{kind}:reduced-view", "reduced view is not (first obs, first action, last next_obs, per-step rewards/flags) of the window",
                 {"case": case, "after_row": ri, "start": start, "h": h, "reduced": redv, "expected": exp})


def compare(chk, case, hs, trace, mres):
    for ri, (out, mo) in enumerate(zip(trace, mres)):
        mlen, mins, mept, mmask, menv, mat, mw = mo
        got = [out["len"], out["ins"], out["ept"], out["mask"], out["envterm"]]
        if got != [mlen, mins, mept, mmask, menv] or (out["at"] is not None and out["at"] != mat):
            chk.disagree("subtraj.state", {"case": case, "after_row": ri, "impl": got + [out["at"]], "model": [mlen, mins, mept, mmask, menv, mat]})
            return
        if case["class"] != "uniform":
            continue
        mflat = []
        for start, per_h in mw:
            for h, (win, red) in per_h:
                mflat.append((start, h, win, red))
        iflat = sorted(out["windows"], key=lambda x: (x[0], x[1]))
        mflat = sorted(mflat, key=lambda x: (x[0], x[1]))
        if [(a, b, c, d) for a, b, c, d in iflat] != [(a, b, c, d) for a, b, c, d in mflat]:
            chk.disagree("subtraj.windows", {"case": case, "after_row": ri,
                                             "impl": iflat[:6], "model": mflat[:6]})
            return


def main(chk):
    chk.proof_step()
    rng = np.random.default_rng(chk.seed)
    n = 120 if chk.tier == "quick" else 6000
    recs, exprs = [], []
    for i in range(n):
        H = int(rng.integers(1, 5))
        cap = int(rng.integers(H + 1, H + 8))
        style = str(rng.choice(["mixed", "mixed", "ones", "long"]))
        n_rows = int(rng.integers(2, max(4, 3 * cap + 4)))   # >= 3 wraps for small buffers
        rows = gen_rows(rng, n_rows, style)
        hs = sorted({1, H, int(rng.integers(1, H + 1))})
        kind = "uniform" if i % 4 else "per"
        trace, case = run_history(chk, kind, cap, H, hs, rows)
        recs.append((case, hs, trace))
        exprs.append(model_expr(cap, H, hs, rows))
        chk.case((kind, cap, H, style, hash(str(case["rows"]))), nontrivial=n_rows >= 3)
        chk.count(f"histories_{kind}")
        chk.count(f"style_{style}")
        chk.count("rows_added", n_rows)
        if n_rows > 2 * cap:
            chk.count("histories_with_2plus_wraps")
    mres = chk.model_eval(exprs, per_file=40)
    for (case, hs, trace), mr in zip(recs, mres):
        compare(chk, case, hs, trace, mr)
    c0 = recs[0]
    chk.sample({"case": c0[0], "sampling_horizons": c0[1], "state_after_last_row": {k: c0[2][-1][k] for k in ("len", "ins", "ept", "mask")},
                "windows_after_last_row": c0[2][-1]["windows"][:2]})
    return chk.finish(
        rule="random histories of normal/terminating/truncating steps (episodes 1-11 steps, back-to-back one-step episodes, long "
             "episodes; capacity H+1..H+7, storage horizon 1-4, up to 3 wraps) on SubtrajectoryReplayBuffer (every enabled start x "
             "sampling horizons {1, H, random} x both views after every add) and SubtrajectoryReplayBufferPER (state vs model; windows and reduced "
             "views of batches drawn through its real prioritized sampling path after every add, interleaved with priority updates; the "
             "sampling law itself is C08's); distinct = distinct (class, capacity, horizon, history)",
        assumptions=["rows carry (episode, t) tags in the observation; integer payloads are exact in float64",
                     "reading of the property: guarantees up to and including the first terminated step (DESIGN.md §2 C04)"])
