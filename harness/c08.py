"""C08 — prioritized replay samples proportionally and tracks priorities correctly."""
import fractions

import numpy as np

from common import blit, frac, llit, nlit, parse_f, parse_q, qlit, zlit
from stubs import StubRng, decode_row, make_row

F = fractions.Fraction


def dy(rng, kind="mixed"):
    """A dyadic priority: ordinary, tiny (2^-20) or huge (2^20)."""
    r = rng.random()
    if r < 0.1:
        return F(1, 2**20)
    if r < 0.2:
        return F(2**20)
    if r < 0.35:
        return F(1)
    return F(int(rng.integers(1, 64)), 2 ** int(rng.integers(0, 4)))


def boundary_us(prio, rng, b):
    """Uniform variates at and around the CDF boundaries c_i / T, strictly inside (0,1)."""
    T = sum(prio)
    if T <= 0:
        return [F(1, 2)] * b
    cs, acc = [], F(0)
    for p in prio:
        acc += p
        cs.append(acc / T)
    us = []
    for _ in range(b):
        r = rng.random()
        c = cs[int(rng.integers(0, len(cs)))]
        eps = F(1, 2**30)
        if r < 0.3 and 0 < c < 1 and c.denominator & (c.denominator - 1) == 0 and c.denominator < 2**40:
            u = c  # exactly on a boundary (only when exactly representable)
        elif r < 0.5 and c - eps > 0:
            u = c - eps
        elif r < 0.7 and c + eps < 1:
            u = c + eps
        else:
            u = F(int(rng.integers(1, 2**12)), 2**12)
        if not (0 < u < 1) or float(u) in (0.0, 1.0):
            u = F(1, 2)
        us.append(F(float(u)))
    return us


# ------------------------------------------------------------------ LAP / PER histories
def gen_hist(rng, kind):
    cap = int(rng.choice([1, 2, 3, 4, 6, 8]))
    n = int(rng.integers(2, 40))
    ops = [("add", 0)]
    k = 1
    for _ in range(n):
        r = rng.random()
        if r < 0.4:
            ops.append(("add", k))
            k += 1
        elif r < 0.7:
            ops.append(("sample", int(rng.choice([1, 2, 3, 4, 8]))))
        elif r < 0.9:
            ops.append(("update",))
        elif r < 0.95:
            ops.append(("update_scalar", dy(rng)))
        else:
            ops.append(("reset",))
    return cap, ops


def run_hist(chk, rng, kind, cap, ops):
    """Drives the real class; the spec oracle runs on its trace. Returns model ops + outputs."""
    from rl_blox.blox import replay_buffer as rbm
    cls = rbm.LAP if kind == "lap" else rbm.PrioritizedReplayBuffer
    buf = cls(cap)
    mops, outs = [], []
    ids = []            # ids in insertion order
    last_sampled = None  # slot indices of last sampled batch (derived from returned rows)
    case_ops = []

    def slot_of(k):
        return ids.index(k) % cap if False else (k % cap)  # ids are 0,1,2,...: slot = k mod cap

    for o in ops:
        n = len(buf)
        prio_before = [frac(x) for x in buf.priority.priority[:n]]
        maxp_before = frac(buf.priority.max_priority)
        if o[0] == "add":
            buf.add_sample(**make_row(o[1]))
            ids.append(o[1])
            mops.append(("add", o[1]))
            case_ops.append(["add", o[1]])
            s = o[1] % cap
            others = [i for i in range(n) if i != s and frac(buf.priority.priority[i]) != prio_before[i]]
            if others:
                chk.fail(f"C08:{kind}:add-frame", "adding a transition changed the priority of other stored transitions",
                         {"class": kind, "capacity": cap, "ops": case_ops, "slots": others})
            if frac(buf.priority.priority[s]) != maxp_before:
                chk.fail(f"C08:{kind}:new-priority", "a newly added transition did not receive the current maximum priority",
                         {"class": kind, "capacity": cap, "ops": case_ops, "slot": s,
                          "priority": str(frac(buf.priority.priority[s])), "max_priority": str(maxp_before)})
        elif o[0] == "sample":
            if n == 0:
                continue
            b = o[1]
            us = boundary_us(prio_before, rng, b)
            stub = StubRng()
            stub.uniforms = [float(u) for u in us]
            res = buf.sample_batch(b, stub)
            batch, weights = (res if kind == "per" else (res, None))
            if [frac(x) for x in buf.priority.priority[:n]] != prio_before or frac(buf.priority.max_priority) != maxp_before:
                chk.fail(f"C08:{kind}:sample-frame", "sampling changed stored priorities (later draws are no longer proportional to the priorities set by add / update)",
                         {"class": kind, "capacity": cap, "ops": case_ops + [["sample", [str(u) for u in us]]], "before": [str(p) for p in prio_before],
                          "after": [str(frac(x)) for x in buf.priority.priority[:n]]})
            rows = [decode_row(batch, j) for j in range(b)]
            slots = [k % cap for k, _ in rows]
            last_sampled = slots
            mops.append(("sample", us))
            case_ops.append(["sample", [str(u) for u in us]])
            # spec oracle: interval membership for every draw
            T = sum(prio_before)
            cs, acc = [], F(0)
            for p in prio_before:
                acc += p
                cs.append(acc)
            for j, (u, s) in enumerate(zip(us, slots)):
                if kind == "per":
                    seg = T / b
                    x = j * seg + ((j + 1) * seg - j * seg) * u
                else:
                    x = u * T
                lo = cs[s - 1] if s > 0 else F(0)
                ok = rows[j][1] and s < n and lo < x <= cs[s] and prio_before[s] > 0
                if not ok:
                    chk.fail(f"C08:{kind}:sample-interval",
                             "index returned for a uniform variate is not the entry whose cumulative-priority interval contains it",
                             {"class": kind, "capacity": cap, "ops": case_ops, "draw": j, "u": str(u), "slot": s,
                              "priorities": [str(p) for p in prio_before]})
            outs.append({"rows": [k if ok else "inconsistent" for k, ok in rows], "weights": weights, "slots": slots,
                         "prio_before": prio_before, "n": n})
            continue_marker = True
        elif o[0] == "update":
            if last_sampled is None:
                continue
            ps = [dy(rng) for _ in last_sampled]
            ok, _ = chk.impl_call(f"C08:{kind}:update-raised", {"class": kind, "capacity": cap, "ops": case_ops + [["update", [str(p) for p in ps]]]},
                                  buf.update_priority, np.array([float(p) for p in ps]))
            mops.append(("update", ps))
            case_ops.append(["update", [str(p) for p in ps]])
            if ok:
                exp = list(prio_before)
                for s, p in zip(last_sampled, ps):
                    exp[s] = p
                got = [frac(x) for x in buf.priority.priority[:n]]
                if got != exp:
                    chk.fail(f"C08:{kind}:update-exact",
                             "update_priority did not set exactly the last sampled transitions to the supplied values",
                             {"class": kind, "capacity": cap, "ops": case_ops, "sampled_slots": last_sampled,
                              "expected": [str(x) for x in exp], "observed": [str(x) for x in got]})
        elif o[0] == "update_scalar":
            if last_sampled is None:
                continue
            buf.update_priority(float(o[1]))
            mops.append(("update_scalar", o[1]))
            case_ops.append(["update_scalar", str(o[1])])
            exp = list(prio_before)
            for s in last_sampled:
                exp[s] = o[1]
            got = [frac(x) for x in buf.priority.priority[:n]]
            if got != exp:
                chk.fail(f"C08:{kind}:update-exact",
                         "update_priority did not set exactly the last sampled transitions to the supplied values",
                         {"class": kind, "capacity": cap, "ops": case_ops, "sampled_slots": last_sampled,
                          "expected": [str(x) for x in exp], "observed": [str(x) for x in got]})
        elif o[0] == "reset":
            buf.reset_max_priority()
            mops.append(("reset",))
            case_ops.append(["reset"])
            if n > 0 and frac(buf.priority.max_priority) != max(prio_before):
                chk.fail(f"C08:{kind}:reset-exact", "after reset_max_priority the tracked maximum is not the true maximum",
                         {"class": kind, "capacity": cap, "ops": case_ops})
        n2 = len(buf)
        pr = [frac(x) for x in buf.priority.priority[:n2]]
        mp = frac(buf.priority.max_priority)
        if any(p > mp for p in pr):
            chk.fail(f"C08:{kind}:max-dominates", "a stored priority exceeds the tracked maximum priority",
                     {"class": kind, "capacity": cap, "ops": case_ops, "priorities": [str(p) for p in pr], "max": str(mp)})
        if o[0] != "sample":
            outs.append({"len": n2, "prio": pr, "maxp": mp})
        else:
            outs[-1].update({"len": n2, "prio": pr, "maxp": mp})
    return mops, outs, case_ops


def hist_expr(kind, cap, mops):
    def f(o):
        if o[0] == "add":
            return f"M.LAdd {zlit(o[1])}"
        if o[0] == "sample":
            return f"M.LSample {llit(o[1], qlit)}"
        if o[0] == "update":
            return f"M.LUpdate {llit(o[1], qlit)}"
        if o[0] == "update_scalar":
            return f"M.LUpdateScalar {qlit(o[1])}"
        return "M.LReset"
    return (f'(sl (fun o -> "[" ^ sn o.M.lo_len ^ "," ^ sq o.M.lo_maxp ^ "," ^ sl sq o.M.lo_prio ^ "," ^ sl sn o.M.lo_idx '
            f'^ "," ^ sl (so sz) o.M.lo_rows ^ "]") (M.lap_trace {blit(kind == "per")} (M.lap_init {nlit(cap)}) {llit(mops, f)}))')


def compare_hist(chk, kind, cap, case_ops, outs, mres):
    for k, (out, mo) in enumerate(zip(outs, mres)):
        mlen, mmax, mprio, midx, mrows = mo
        if out["len"] != mlen or out["prio"] != [parse_q(x) for x in mprio] or out["maxp"] != parse_q(mmax):
            chk.disagree(f"{kind}.priority-state", {"class": kind, "capacity": cap, "ops": case_ops, "step": k,
                                                    "impl": {"len": out["len"], "prio": [str(x) for x in out["prio"]], "maxp": str(out["maxp"])},
                                                    "model": {"len": mlen, "prio": mprio, "maxp": mmax}})
            return
        if "rows" in out and (out["rows"] != mrows or out["slots"] != midx):
            chk.disagree(f"{kind}.sampled-indices", {"class": kind, "capacity": cap, "ops": case_ops, "step": k,
                                                     "impl": {"rows": out["rows"], "slots": out["slots"]},
                                                     "model": {"rows": mrows, "idx": midx}})
            return


# ------------------------------------------------------------------ importance weights, priorities
def weights_cases(chk, rng, n_cases):
    from rl_blox.blox import replay_buffer as rbm
    exprs, recs = [], []
    for _ in range(n_cases):
        cap = int(rng.integers(2, 9))
        buf = rbm.PrioritizedReplayBuffer(cap)
        n = int(rng.integers(1, cap + 1))
        for k in range(n):
            buf.add_sample(**make_row(k))
        prios = [float(dy(rng)) if rng.random() < 0.7 else float(rng.uniform(0.01, 50.0)) for _ in range(n)]
        buf.priority.priority[:n] = prios
        b = int(rng.integers(1, 7))
        idx = rng.integers(0, n, size=b)
        beta = float(rng.choice([0.0, 0.4, 0.5, 1.0, float(rng.uniform(0, 1))]))
        w = np.asarray(buf.compute_importance_ratio(idx, beta), dtype=float)
        ps = [prios[i] for i in idx]
        recs.append((n, ps, beta, w))
        exprs.append(f'(sl sf (M.is_weights float_ops {float(n)!r} {llit(ps, lambda x: repr(float(x)))} {beta!r}))')
    res = chk.model_eval(exprs)
    for (n, ps, beta, w), mr in zip(recs, res):
        chk.case(("weights", n, tuple(ps), beta), nontrivial=len(set(ps)) > 1 and beta > 0)
        chk.count("weights_cases")
        mw = np.array([parse_f(x) for x in mr])
        case = {"current_len": n, "priorities": ps, "beta": beta}
        if not np.allclose(w, mw, rtol=1e-9, atol=1e-12):
            chk.disagree("per.importance-weights", {"case": case, "impl": w.tolist(), "model": mw.tolist()})
        if not (np.all(w > 0) and np.all(w <= 1 + 1e-12) and abs(w.max() - 1) <= 1e-12):
            chk.fail("C08:per:weights-range", "importance weights not in (0,1] with maximum 1", {"case": case, "weights": w.tolist()})
        order = np.argsort(ps, kind="stable")
        ws = w[order]
        if np.any(np.diff(ws) > 1e-12):
            chk.fail("C08:per:weights-antitone", "importance weights increase with the priority", {"case": case, "weights": w.tolist()})


def priority_fn_cases(chk, rng, n_cases):
    import jax.numpy as jnp
    from rl_blox.blox.replay_buffer import lap_priority, per_priority
    exprs, recs = [], []
    for _ in range(n_cases):
        m = int(rng.integers(2, 9))
        d = np.sort(np.abs(np.concatenate([rng.normal(0, 3, m - 1), [0.0]]))).astype(np.float32)
        alpha = float(rng.choice([0.4, 0.6, 1.0, 0.25]))
        minp = float(rng.choice([1.0, 0.5, 2.0]))
        eps = float(rng.choice([1e-6, 1e-3, 0.5]))
        lp = np.asarray(lap_priority(jnp.asarray(d), minp, alpha), dtype=float)
        pp = np.asarray(per_priority(jnp.asarray(d), alpha=alpha, epsion=eps), dtype=float)
        recs.append((d, alpha, minp, eps, lp, pp))
        dl = llit(d, lambda x: repr(float(x)))
        exprs.append(f'(sl sf (List.map (fun d -> M.lap_priority float_ops d {minp!r} {alpha!r}) {dl}) ^ "|" ^ '
                     f'sl sf (List.map (fun d -> M.per_priority float_ops d {alpha!r} {eps!r}) {dl}))'.replace('^ "|" ^', '^ "," ^'))
    # the two lists are printed as one JSON array of two arrays
    exprs = ['("[" ^ ' + e[1:-1] + ' ^ "]")' for e in exprs]
    res = chk.model_eval(exprs)
    for (d, alpha, minp, eps, lp, pp), (ml, mp) in zip(recs, res):
        chk.case(("prio_fn", tuple(d.tolist()), alpha, minp, eps))
        chk.count("priority_fn_cases")
        ml = np.array([parse_f(x) for x in ml])
        mp = np.array([parse_f(x) for x in mp])
        case = {"abs_td": d.tolist(), "alpha": alpha, "min_priority": minp, "eps": eps}
        if not np.allclose(lp, ml, rtol=1e-5, atol=1e-7):
            chk.disagree("lap_priority", {"case": case, "impl": lp.tolist(), "model": ml.tolist()})
        if not np.allclose(pp, mp, rtol=1e-5, atol=1e-7):
            chk.disagree("per_priority", {"case": case, "impl": pp.tolist(), "model": mp.tolist()})
        if np.any(lp <= 0) or np.any(np.diff(lp) < -1e-6 * (1 + np.abs(lp[1:]))):
            chk.fail("C08:lap_priority:pos-mono", "LAP priority not positive / not non-decreasing in |td error|", {"case": case, "out": lp.tolist()})
        if np.any(pp <= 0) or np.any(np.diff(pp) < -1e-6 * (1 + np.abs(pp[1:]))):
            chk.fail("C08:per_priority:pos-mono", "PER priority not positive / not non-decreasing in |td error|", {"case": case, "out": pp.tolist()})


# ------------------------------------------------------------------ prioritized subtrajectory buffer
def srow_lit(r):
    return (f"{{M.r_obs = {zlit(r['obs'])}; r_act = {zlit(r['act'])}; r_rew = {zlit(r['rew'])}; r_nobs = {zlit(r['nobs'])}; "
            f"r_term = {blit(r['term'])}; r_trunc = {blit(r['trunc'])}}}")


def gen_episode_rows(rng, n_rows):
    rows, ep, t, k = [], 0, 0, 1
    while len(rows) < n_rows:
        L = int(rng.choice([1, 1, 2, 3, 4, 6]))
        end = str(rng.choice(["term", "trunc", "none"], p=[0.45, 0.35, 0.2]))
        for t in range(L):
            last = t == L - 1
            rows.append({"obs": 1000 * ep + t, "act": k, "rew": k, "nobs": 1000 * ep + t + 1,
                         "term": last and end == "term", "trunc": last and end == "trunc"})
            k += 1
        if end == "none":
            # episode continues; merge with next by not incrementing ep when not ended
            pass
        ep += 1
    return rows[:n_rows]


def subtraj_per_cases(chk, rng, n_cases):
    from rl_blox.blox import replay_buffer as rbm
    exprs, recs = [], []
    for _ in range(n_cases):
        H = int(rng.integers(1, 4))
        cap = int(rng.integers(H + 1, H + 7))
        buf = rbm.SubtrajectoryReplayBufferPER(cap, horizon=H)
        rows = gen_episode_rows(rng, int(rng.integers(3, 30)))
        mops, outs, case_ops = [], [], []
        sampled = None
        for r in rows:
            buf.add_sample(observation=float(r["obs"]), action=float(r["act"]), reward=float(r["rew"]),
                           next_observation=float(r["nobs"]), terminated=r["term"], truncated=r["trunc"])
            mops.append(("add", r))
            case_ops.append(["add", r])
            n = len(buf)
            outs.append({"len": n, "mask": [bool(x) for x in buf.mask_], "prio": [frac(x) for x in buf.priority.priority[:n]],
                         "maxp": frac(buf.priority.max_priority)})
            rr = rng.random()
            prio_now = [frac(x) * int(m) for x, m in zip(buf.priority.priority[:n], buf.mask_[:n])]
            if rr < 0.4 and sum(prio_now) > 0:
                b = int(rng.choice([1, 2, 4]))
                h = int(rng.integers(1, H + 1))
                us = boundary_us(prio_now, rng, b)
                stub = StubRng()
                stub.uniforms = [float(u) for u in us]
                stored_before = np.array(buf.priority.priority, copy=True)      # whole array, bytes (the tail beyond the filled region is uninitialised)
                okc, batch = chk.impl_call("C08:subtraj_per:sample-raised", {"capacity": cap, "horizon": H, "ops": case_ops + [["sample", [str(u) for u in us], h]]},
                                           buf.sample_batch, b, h, True, stub)
                if not okc:
                    break
                if np.asarray(buf.priority.priority).tobytes() != stored_before.tobytes():
                    chk.fail("C08:subtraj_per:sample-frame", "sampling changed stored priorities: entries that were masked out at the time of a draw lose the "
                             "priority they were given when added, so later draws are not proportional over the valid entries",
                             {"capacity": cap, "horizon": H, "ops": case_ops + [["sample", [str(u) for u in us], h]],
                              "before": [float(x) for x in stored_before[:n]], "after": [float(x) for x in buf.priority.priority[:n]]})
                obs = np.asarray(batch.observation).reshape(b, h)
                # spec oracle: start index is enabled, in the filled region, in its interval
                cs, acc = [], F(0)
                for p in prio_now:
                    acc += p
                    cs.append(acc)
                T = cs[-1]
                # the start slot: find slot whose stored observation equals the window's first obs
                starts = []
                for j in range(b):
                    cand = [i for i in range(n) if float(buf.buffer["observation"][i]) == float(obs[j, 0])
                            and float(buf.buffer["action"][i]) == float(np.asarray(batch.action).reshape(b, h)[j, 0])]
                    s = None
                    for i in cand:
                        lo = cs[i - 1] if i > 0 else F(0)
                        if lo < us[j] * T <= cs[i]:
                            s = i
                    if s is None or not buf.mask_[s]:
                        chk.fail("C08:subtraj_per:sample-interval",
                                 "prioritized subtrajectory start is masked out, beyond the filled region, or not the entry whose interval contains u",
                                 {"capacity": cap, "horizon": H, "ops": case_ops, "u": str(us[j]), "first_obs": float(obs[j, 0]),
                                  "mask": [int(x) for x in buf.mask_], "priorities": [str(frac(x)) for x in buf.priority.priority[:n]]})
                        s = cand[0] if cand else 0
                    starts.append(s)
                sampled = starts
                mops.append(("sample", us, h))
                case_ops.append(["sample", [str(u) for u in us], h])
                outs.append({"len": n, "mask": [bool(x) for x in buf.mask_], "prio": [frac(x) for x in buf.priority.priority[:n]],
                             "maxp": frac(buf.priority.max_priority), "starts": starts,
                             "win_obs": [[int(x) for x in row] for row in obs]})
            elif rr < 0.6 and sampled is not None:
                ps = [dy(rng) for _ in sampled]
                before = [frac(x) for x in buf.priority.priority[:n]]
                buf.update_priority(np.array([float(p) for p in ps]))
                mops.append(("update", ps))
                case_ops.append(["update", [str(p) for p in ps]])
                exp = list(before)
                for s, p in zip(sampled, ps):
                    exp[s] = p
                got = [frac(x) for x in buf.priority.priority[:n]]
                if got != exp:
                    chk.fail("C08:subtraj_per:update-exact", "update_priority did not set exactly the last sampled starts",
                             {"capacity": cap, "horizon": H, "ops": case_ops})
                outs.append({"len": n, "mask": [bool(x) for x in buf.mask_], "prio": got, "maxp": frac(buf.priority.max_priority)})
            elif rr < 0.65:
                buf.reset_max_priority()
                mops.append(("reset",))
                case_ops.append(["reset"])
                outs.append({"len": n, "mask": [bool(x) for x in buf.mask_], "prio": [frac(x) for x in buf.priority.priority[:n]],
                             "maxp": frac(buf.priority.max_priority)})
            pr = [frac(x) for x in buf.priority.priority[:n]]
            if any(p > frac(buf.priority.max_priority) for p in pr):
                chk.fail("C08:subtraj_per:max-dominates", "a stored priority exceeds the tracked maximum",
                         {"capacity": cap, "horizon": H, "ops": case_ops})

        def f(o):
            if o[0] == "add":
                return f"M.PAdd {srow_lit(o[1])}"
            if o[0] == "sample":
                return f"M.PSample ({llit(o[1], qlit)}, {nlit(o[2])})"
            if o[0] == "update":
                return f"M.PUpdate {llit(o[1], qlit)}"
            return "M.PReset"
        exprs.append(
            f'(sl (fun o -> "[" ^ sn o.M.po_state.M.so_len ^ "," ^ sl sb o.M.po_state.M.so_mask ^ "," ^ sl sq o.M.po_prio ^ "," ^ sq o.M.po_maxp '
            f'^ "," ^ sl sn o.M.po_starts ^ "," ^ sl (sl (so (fun r -> sz r.M.r_obs))) o.M.po_windows ^ "]") '
            f'(M.sbp_trace (M.sbp_init {nlit(cap)} {nlit(H)}) {llit(mops, f)}))')
        recs.append((cap, H, case_ops, outs))
        chk.case(("subtraj_per", cap, H, len(mops), hash(str(case_ops))), nontrivial=len(mops) > 3)
        chk.count("subtraj_per_histories")
    res = chk.model_eval(exprs)
    for (cap, H, case_ops, outs), mr in zip(recs, res):
        for k, (out, mo) in enumerate(zip(outs, mr)):
            mlen, mmask, mprio, mmaxp, mstarts, mwin = mo
            got = [out["len"], out["mask"], out["prio"], out["maxp"]]
            mod = [mlen, mmask, [parse_q(x) for x in mprio], parse_q(mmaxp)]
            if got != mod:
                chk.disagree("subtraj_per.state", {"capacity": cap, "horizon": H, "ops": case_ops, "step": k,
                                                   "impl": str(got), "model": str(mod)})
                break
            if "starts" in out and (out["starts"] != mstarts or out["win_obs"] != mwin):
                chk.disagree("subtraj_per.sample", {"capacity": cap, "horizon": H, "ops": case_ops, "step": k,
                                                    "impl": [out["starts"], out["win_obs"]], "model": [mstarts, mwin]})
                break


# ------------------------------------------------------------------ multi-task wrapper
def mt_cases(chk, rng, n_cases):
    from rl_blox.blox import replay_buffer as rbm
    exprs, recs = [], []
    for _ in range(n_cases):
        cap = int(rng.integers(1, 5))
        nt = int(rng.integers(2, 4))
        mt = rbm.MultiTaskReplayBuffer(rbm.LAP(cap), nt)
        mops, outs, case_ops, k = [], [], [], 0
        sampled_task = None
        for _ in range(int(rng.integers(3, 40))):
            r = rng.random()
            if r < 0.2:
                t = int(rng.integers(0, nt))
                mt.select_task(t)
                mops.append(("select", t))
                case_ops.append(["select", t])
            elif r < 0.6:
                mt.add_sample(**make_row(k))
                mops.append(("add", k))
                case_ops.append(["add", k])
                k += 1
            elif r < 0.8 and mt.active_buffers:
                pos = int(rng.integers(0, 4))
                stub = StubRng()
                stub.choice_pos = pos
                t = sorted(mt.active_buffers)[pos % len(mt.active_buffers)]
                nb = len(mt.buffers[t])
                prio = [frac(x) for x in mt.buffers[t].priority.priority[:nb]]
                b = int(rng.choice([1, 2, 3]))
                us = boundary_us(prio, rng, b)
                stub.uniforms = [float(u) for u in us]
                before = [[frac(x) for x in bb.priority.priority[:len(bb)]] for bb in mt.buffers]
                okc, _ = chk.impl_call("C08:multitask:sample-raised", {"capacity": cap, "tasks": nt, "ops": case_ops + [["sample", pos, [str(u) for u in us]]]}, mt.sample_batch, b, stub)
                if not okc:
                    break
                if before != [[frac(x) for x in bb.priority.priority[:len(bb)]] for bb in mt.buffers]:
                    chk.fail("C08:multitask:sample-frame", "sampling changed stored priorities", {"capacity": cap, "tasks": nt, "ops": case_ops + [["sample", pos]]})
                sampled_task = int(mt.sampled_task_idx)
                mops.append(("sample", stub.last_choice_pos, us))
                case_ops.append(["sample", pos, [str(u) for u in us]])
            elif r < 0.95 and sampled_task is not None:
                nb = None
                b = len(mops[[i for i, o in enumerate(mops) if o[0] == "sample"][-1]][2])
                ps = [dy(rng) for _ in range(b)]
                before = [[frac(x) for x in bb.priority.priority[:len(bb)]] for bb in mt.buffers]
                okc, _ = chk.impl_call("C08:multitask:update-raised", {"capacity": cap, "tasks": nt, "ops": case_ops + [["update", [str(p) for p in ps]]],
                                                                      "sampled_task": sampled_task}, mt.update_priority, np.array([float(p) for p in ps]))
                if not okc:
                    break
                after = [[frac(x) for x in bb.priority.priority[:len(bb)]] for bb in mt.buffers]
                mops.append(("update", ps))
                case_ops.append(["update", [str(p) for p in ps]])
                for t in range(nt):
                    if t != sampled_task and before[t] != after[t]:
                        chk.fail("C08:multitask:update-target", "a priority update changed a task other than the one sampled last",
                                 {"capacity": cap, "tasks": nt, "ops": case_ops, "changed_task": t, "sampled_task": sampled_task})
            else:
                mt.reset_max_priority()
                mops.append(("reset",))
                case_ops.append(["reset"])
            outs.append({"lens": [len(bb) for bb in mt.buffers],
                         "prios": [[frac(x) for x in bb.priority.priority[:len(bb)]] for bb in mt.buffers],
                         "maxps": [frac(bb.priority.max_priority) for bb in mt.buffers]})
            if len(outs) != len(mops):
                outs.pop()

        def f(o):
            if o[0] == "select":
                return f"M.MSelect {zlit(o[1])}"
            if o[0] == "add":
                return f"M.MAdd {zlit(o[1])}"
            if o[0] == "sample":
                return f"M.MSample ({nlit(o[1])}, {llit(o[2], qlit)})"
            if o[0] == "update":
                return f"M.MUpdate {llit(o[1], qlit)}"
            return "M.MReset"
        exprs.append(f'(sl (fun o -> "[" ^ sl sn o.M.mo_lens ^ "," ^ sl (sl sq) o.M.mo_prios ^ "," ^ sl sq o.M.mo_maxps ^ "]") '
                     f'(M.mt_trace (M.mt_lap_init {nlit(cap)} {nlit(nt)}) {llit(mops, f)}))')
        recs.append((cap, nt, case_ops, outs))
        chk.case(("mt", cap, nt, hash(str(case_ops))), nontrivial=len(mops) > 3)
        chk.count("multitask_histories")
    res = chk.model_eval(exprs)
    for (cap, nt, case_ops, outs), mr in zip(recs, res):
        for k, (out, mo) in enumerate(zip(outs, mr)):
            mod = {"lens": mo[0], "prios": [[parse_q(x) for x in l] for l in mo[1]], "maxps": [parse_q(x) for x in mo[2]]}
            if out != mod:
                chk.disagree("multitask.priority-state", {"capacity": cap, "tasks": nt, "ops": case_ops, "step": k,
                                                          "impl": str(out), "model": str(mod)})
                break


def main(chk):
    chk.proof_step()
    rng = np.random.default_rng(chk.seed)
    n = 80 if chk.tier == "quick" else 4000
    recs, exprs = [], []
    for kind in ("lap", "per"):
        for _ in range(n):
            cap, ops = gen_hist(rng, kind)
            mops, outs, case_ops = run_hist(chk, rng, kind, cap, ops)
            recs.append((kind, cap, case_ops, outs))
            exprs.append(hist_expr(kind, cap, mops))
            chk.case((kind, cap, hash(str(case_ops))), nontrivial=len(mops) > 3)
            chk.count(f"histories_{kind}")
            for o in mops:
                chk.count("op_" + o[0])
    res = chk.model_eval(exprs)
    for (kind, cap, case_ops, outs), mr in zip(recs, res):
        compare_hist(chk, kind, cap, case_ops, outs, mr)
    chk.sample({"class": recs[0][0], "capacity": recs[0][1], "ops": recs[0][2][:10], "model_trace_head": res[0][:4]})
    subtraj_per_cases(chk, rng, n // 2)
    mt_cases(chk, rng, n // 2)
    weights_cases(chk, rng, n)
    priority_fn_cases(chk, rng, max(20, n // 4))
    return chk.finish(
        rule="add/sample/update/update-scalar/reset histories (capacities 1-8, 2-40 ops) on LAP and PrioritizedReplayBuffer with "
             "dyadic priorities (equal, 2^-20, 2^20) and uniform variates at / next to every CDF boundary; prioritized subtrajectory "
             "buffer histories with masked entries; multi-task LAP wrapper; importance weights (float64, rtol 1e-9) and the jitted "
             "LAP/PER priority functions (float32, rtol 1e-5); distinct = distinct histories with > 3 ops / distinct numeric cases",
        assumptions=["np.cumsum / np.searchsorted / fancy assignment trusted as executed (mirrored in the model)",
                     "exact regime: all priorities and variates are dyadic, so float64 arithmetic is exact",
                     "libm pow trusted in the OCaml float instance"])
