"""C09 translator: Python sources of rl_blox  ->  coq/Gen/Graph.v (effect / call graph).

Run on every C09 check (first thing in harness/c09.py), by bin/setup, and by bin/build when the
generated file is missing.  Fail-closed: any construct that cannot be classified raises `Abort`;
then a graph that can never pass (`[(0, Ambient, [])]`, roots `[0]`) is written, so `C09_graph_ok`
cannot compile, and the harness reports a broken obligation.

Nodes
  one per module body (`<module>`), one per class (= its construction: class body, __init__,
  __new__, __post_init__, the same of rl_blox bases), one per function / method / nested function.
Edges (over-approximation of "may call"):
  * every call AND every bare reference to an rl_blox function / class / module-level name
    (a function handed to jax.jit, partial, nnx.value_and_grad, lax.scan ... may be called),
  * function -> its module body (module initialisation precedes every call),
    module body -> module bodies of imported rl_blox modules, class bodies, decorators, defaults,
  * enclosing function -> nested functions and classes (definition ~ may call),
  * self.m(...)   -> m in the class, its rl_blox ancestors and descendants; else as unknown receiver,
  * super().m(...) -> m in the rl_blox ancestors (none: library),
  * x.m(...) on a parameter / local / expression -> EVERY rl_blox class defining a method m
    (resolution by method name); none -> "Given": the determinism of env / rng / approximator /
    train_st is the premise of the property (label Pure for the graph),
  * x(...) on a parameter / local / expression -> Given, plus every rl_blox `__call__`;
    len(x) -> every rl_blox `__len__`; attribute loads named like an rl_blox @property -> those.
Label of a node = strongest direct read: Ambient > WallClock > Seeded > Pure.

Ambient table (a call or a bare reference counts):
  numpy.random.<module-level anything>, bare numpy.random              Ambient (global generator)
  numpy.random.{default_rng,Generator,RandomState,SeedSequence,PCG64,PCG64DXSM,MT19937,Philox,SFC64,
        BitGenerator}(x, ...) with x not the literal None              Seeded ; without argument / bare: Ambient
  stdlib random.* (random.Random(x) with argument: Seeded)             Ambient
  time.*                                        WallClock inside rl_blox/logging, Ambient elsewhere
  datetime.*.{now,today,utcnow}                                        Ambient
  os.{urandom,getrandom,getpid,getppid,times,listdir,scandir,walk,environ,environb,getenv}  Ambient
  uuid.*, secrets.*                                                    Ambient
  builtins id, hash, input                                             Ambient
  jax.random.{PRNGKey,key}() without argument                          Ambient; with arguments Seeded
        (an argument reading the clock etc. is a hit of the same node by itself)
  iteration over a syntactically visible set with evidently non-numeric elements   Ambient   (class SetRule)
  parameter default that is a list / dict / set display, a comprehension or a constructor call   Ambient (shared between calls)
A use of a name whose dotted root is an imported module that is neither rl_blox, nor in this table,
nor in ALLOWED_LIBS / ALLOWED_OS aborts the translation; so do star imports, eval/exec/__import__,
unresolvable names, a local that shadows an ambient module or builtin, and getattr/vars/dir on numpy or on
a module of the ambient table (getattr on other libraries, e.g. getattr(nnx, activation), is library use).
"""
from __future__ import annotations

import ast
import builtins
import json
import os
import sys

V = os.environ.get("VERIF_ROOT", "/verif")
REPO = os.environ.get("VERIF_REPO", "/repo")

# library roots whose functions are taken as deterministic functions of their arguments
ALLOWED_LIBS = {
    "jax", "numpy", "flax", "optax", "chex", "gymnasium", "tensorflow_probability", "orbax", "scipy",
    "tqdm", "pickle", "copy", "collections", "functools", "dataclasses", "math", "warnings",
    "contextlib", "typing", "builtins",
    # additions over DESIGN.md's list, met in rl_blox/logging and rl_blox/__init__ (see INTEGRATION.md)
    "abc", "atexit", "pprint", "matplotlib", "aim",
}
ALLOWED_OS = {"os.path", "os.makedirs", "os.sep", "os.linesep", "os.PathLike", "os.fspath"}
AMBIENT_OS = {"os.urandom", "os.getrandom", "os.getpid", "os.getppid", "os.times", "os.listdir",
              "os.scandir", "os.walk", "os.environ", "os.environb", "os.getenv"}
NP_RNG_CTORS = {"default_rng", "Generator", "RandomState", "SeedSequence", "PCG64", "PCG64DXSM",
                "MT19937", "Philox", "SFC64", "BitGenerator"}
AMBIENT_ROOTS = {"time", "random", "uuid", "secrets", "datetime", "os"}
AMBIENT_BUILTINS = {"id", "hash", "input"}
IMMUTABLE_CTORS = {"tuple", "frozenset", "int", "float", "str", "bool", "bytes", "complex", "range", "slice"}
FORBIDDEN_BUILTINS = {"eval", "exec", "compile", "__import__", "globals", "breakpoint"}
BUILTIN_NAMES = set(dir(builtins))

LABELS = ["Pure", "Seeded", "WallClock", "Ambient"]
RANK = {l: i for i, l in enumerate(LABELS)}
FAIL_GRAPH_NOTE = "translation aborted - fail-closed graph"


class Abort(Exception):
    pass


# ----------------------------------------------------------------------------- structures
class Node:
    def __init__(self, nid, qual, kind, file, line):
        self.id, self.qual, self.kind, self.file, self.line = nid, qual, kind, file, line
        self.callees = set()
        self.hits = []  # (label, what, "file:line")
        self.is_root = False
        self.module = None

    @property
    def label(self):
        best = "Pure"
        for l, _, _ in self.hits:
            if RANK[l] > RANK[best]:
                best = l
        return best


class ClassInfo:
    def __init__(self, qual, module, astnode, node):
        self.qual, self.module, self.ast, self.node = qual, module, astnode, node
        self.methods = {}  # name -> Node
        self.properties = set()
        self.bases = []  # resolved rl_blox ClassInfo
        self.subclasses = []
        self.attr_assigns = {}  # attr -> [(expr, scope)]   from  self.<attr> = expr  in any method
        self.attr_adds = {}  # attr -> [(expr, scope)]      from  self.<attr>.add(expr) / .update(expr)
        self.owner_scope = None

    def ancestors(self):
        out, todo = [], list(self.bases)
        while todo:
            c = todo.pop(0)
            if c not in out:
                out.append(c)
                todo.extend(c.bases)
        return out

    def descendants(self):
        out, todo = [], list(self.subclasses)
        while todo:
            c = todo.pop(0)
            if c not in out:
                out.append(c)
                todo.extend(c.subclasses)
        return out

    def family(self):
        return [self] + self.ancestors() + self.descendants()


class ModuleInfo:
    def __init__(self, name, path, tree, is_pkg):
        self.name, self.path, self.tree, self.is_pkg = name, path, tree, is_pkg
        self.imports = {}  # local name -> dotted
        self.funcs = {}  # name -> Node
        self.classes = {}  # name -> ClassInfo
        self.globals = set()  # other module-level names
        self.node = None
        self.scope = None
        self.in_logging = "/rl_blox/logging/" in path.replace(os.sep, "/")


def _params(a):
    out = [x.arg for x in a.posonlyargs + a.args + a.kwonlyargs]
    if a.vararg:
        out.append(a.vararg.arg)
    if a.kwarg:
        out.append(a.kwarg.arg)
    return out


def _is_def(n):
    return isinstance(n, (ast.FunctionDef, ast.AsyncFunctionDef, ast.ClassDef))


def walk_shallow(stmts):
    """All AST nodes of a block, not descending into nested function / class definitions (the
    definitions themselves are yielded)."""
    todo = list(stmts)[::-1]
    while todo:
        n = todo.pop()
        yield n
        if _is_def(n):
            continue
        todo.extend(list(ast.iter_child_nodes(n))[::-1])


def import_bindings(n, module):
    out = []
    if isinstance(n, ast.Import):
        for a in n.names:
            if a.asname:
                out.append((a.asname, a.name))
            else:
                out.append((a.name.split(".")[0], a.name.split(".")[0]))
    else:
        if any(a.name == "*" for a in n.names):
            raise Abort(f"{module.path}:{n.lineno}: star import cannot be resolved")
        if n.level:
            pkg = module.name.split(".") if module.is_pkg else module.name.split(".")[:-1]
            if n.level - 1 >= len(pkg) + 1:
                raise Abort(f"{module.path}:{n.lineno}: relative import beyond top level")
            base = pkg[: len(pkg) - (n.level - 1)]
            prefix = ".".join(base + ([n.module] if n.module else []))
        else:
            prefix = n.module
        for a in n.names:
            out.append((a.asname or a.name, f"{prefix}.{a.name}"))
    return out


def chain_of(e):
    """Name.attr.attr -> (root name, [attrs]) or None."""
    attrs = []
    while isinstance(e, ast.Attribute):
        attrs.append(e.attr)
        e = e.value
    if isinstance(e, ast.Name):
        return e.id, attrs[::-1]
    return None


class Scope:
    """Lexical scope: kind 'module' | 'class' | 'function'."""

    def __init__(self, kind, module, node, parent=None, cls=None):
        self.kind, self.module, self.node, self.parent, self.cls = kind, module, node, parent, cls
        self.locals = set()
        self.imports = {}
        self.nested = {}  # name -> Node | ClassInfo, defined directly in this scope
        self.assigns = {}  # name -> [expr]
        self.adds = {}  # name -> [expr]
        self.self_name = None

    def collect(self, stmts, params=()):
        self.locals.update(params)
        declared_global = set()
        for n in walk_shallow(stmts):
            if isinstance(n, ast.Name) and isinstance(n.ctx, (ast.Store, ast.Del)):
                self.locals.add(n.id)
            elif _is_def(n):
                self.locals.add(n.name)
            elif isinstance(n, ast.Lambda):
                self.locals.update(_params(n.args))
            elif isinstance(n, (ast.Import, ast.ImportFrom)):
                for name, dotted in import_bindings(n, self.module):
                    self.imports[name] = dotted
            elif isinstance(n, (ast.Global, ast.Nonlocal)):
                declared_global.update(n.names)
            elif isinstance(n, ast.ExceptHandler) and n.name:
                self.locals.add(n.name)
            elif isinstance(n, (ast.MatchAs, ast.MatchStar)) and n.name:
                self.locals.add(n.name)
            elif isinstance(n, ast.MatchMapping) and n.rest:
                self.locals.add(n.rest)
            if isinstance(n, ast.Assign):
                for t in n.targets:
                    if isinstance(t, ast.Name):
                        self.assigns.setdefault(t.id, []).append(n.value)
            elif isinstance(n, (ast.AnnAssign, ast.AugAssign, ast.NamedExpr)):
                if isinstance(n.target, ast.Name) and n.value is not None:
                    self.assigns.setdefault(n.target.id, []).append(n.value)
            elif isinstance(n, ast.Call) and isinstance(n.func, ast.Attribute) and n.func.attr in ("add", "update") \
                    and isinstance(n.func.value, ast.Name) and n.args:
                self.adds.setdefault(n.func.value.id, []).append(n.args[0] if n.func.attr == "add" else ast.Starred(value=n.args[0]))
        self.locals -= declared_global
        self.locals -= set(self.imports)

    def lookup(self, name):
        """-> ('import', dotted) | ('nested', Node|ClassInfo) | ('local', scope) | None (module level / builtin)."""
        s = self
        while s is not None:
            if s.kind != "module":
                if name in s.imports:
                    return ("import", s.imports[name])
                if name in s.nested:
                    return ("nested", s.nested[name])
                if name in s.locals:
                    return ("local", s)
            s = s.parent
        return None

    def self_class(self, name):
        s = self
        while s is not None:
            if s.kind == "function" and s.self_name == name and s.cls is not None:
                return s.cls
            if s.kind == "function" and name in s.locals and s.self_name != name:
                return None
            s = s.parent
        return None


# ----------------------------------------------------------------------------- translator
class Translator:
    def __init__(self, repo):
        self.repo = os.path.abspath(repo)
        self.pkg_dir = os.path.join(self.repo, "rl_blox")
        self.modules = {}
        self.nodes = []
        self.classes = []
        self.methods_by_name = {}
        self.properties_by_name = {}
        self.stats = {
            "files": 0, "functions": 0, "classes": 0, "modules": 0,
            "call_sites": {k: 0 for k in (
                "rl_blox-direct", "self-method", "super-method", "by-method-name", "given-receiver", "given-callable",
                "library", "builtin", "nested-local", "ambient-table", "module-global", "dynamic-expression")},
            "ambient_table_hits": {},
            "set_iteration": {"numeric": 0, "unknown": 0, "non-numeric": 0, "sites": []},
        }
        self.given_forms = set()
        self.work = []  # (scope, [target nodes], [ast items])

    def new_node(self, qual, kind, m, line):
        n = Node(len(self.nodes), qual, kind, os.path.relpath(m.path, self.repo), line)
        n.module = m
        self.nodes.append(n)
        return n

    # ---- pass 1: declarations
    def load(self):
        files = []
        for root, dirs, fs in os.walk(self.pkg_dir):
            dirs[:] = sorted(d for d in dirs if d != "__pycache__")
            for f in sorted(fs):
                if f.endswith(".py"):
                    files.append(os.path.join(root, f))
        if not files:
            raise Abort(f"no python sources under {self.pkg_dir}")
        for path in files:
            rel = os.path.relpath(path, self.repo)[:-3].split(os.sep)
            is_pkg = rel[-1] == "__init__"
            name = ".".join(rel[:-1] if is_pkg else rel)
            try:
                tree = ast.parse(open(path, encoding="utf-8").read(), filename=path)
            except (SyntaxError, UnicodeDecodeError) as e:
                raise Abort(f"{path}: cannot parse ({e})") from e
            m = ModuleInfo(name, path, tree, is_pkg)
            self.modules[name] = m
            m.node = self.new_node(f"{name}.<module>", "module", m, 1)
            m.scope = Scope("module", m, m.node)
            self.stats["files"] += 1
            self.stats["modules"] += 1
        for m in self.modules.values():
            # module-level names
            for n in walk_shallow(m.tree.body):
                if isinstance(n, (ast.Import, ast.ImportFrom)):
                    for name, dotted in import_bindings(n, m):
                        m.imports[name] = dotted
                elif isinstance(n, ast.Name) and isinstance(n.ctx, (ast.Store, ast.Del)):
                    m.globals.add(n.id)
                elif isinstance(n, ast.ExceptHandler) and n.name:
                    m.globals.add(n.name)
                elif isinstance(n, ast.Lambda):
                    m.globals.update(_params(n.args))
            m.scope.collect([])  # nothing local
            mscope_assign = Scope("function", m, m.node)  # only to reuse the assignment collector
            mscope_assign.collect(m.tree.body)
            m.scope.assigns, m.scope.adds = mscope_assign.assigns, mscope_assign.adds
            self.declare_block(m.tree.body, m.scope, m.name, [m.node])
        for c in self.classes:
            self.link_class(c)

    def fn_parent(self, scope):
        """Enclosing scope for name resolution of a new function / class defined in `scope`:
        class scopes are skipped (Python rule)."""
        s = scope
        while s is not None and s.kind == "class":
            s = s.parent
        return None if s is None or s.kind == "module" else s

    def declare_block(self, stmts, scope, qual, targets):
        rest = []
        for n in walk_shallow(stmts):
            if isinstance(n, (ast.FunctionDef, ast.AsyncFunctionDef)):
                self.declare_function(n, scope, qual, targets)
            elif isinstance(n, ast.ClassDef):
                self.declare_class(n, scope, qual, targets)
        for st in stmts:
            if not _is_def(st):
                rest.append(st)
        self.work.append((scope, targets, rest))

    def declare_function(self, fn, scope, qual, targets):
        m = scope.module
        cls = scope.cls if scope.kind == "class" else None
        node = self.new_node(f"{qual}.{fn.name}", "method" if cls else "function", m, fn.lineno)
        self.stats["functions"] += 1
        node.callees.add(m.node.id)
        fscope = Scope("function", m, node, parent=self.fn_parent(scope), cls=cls)
        params = _params(fn.args)
        fscope.collect(fn.body, params)
        if cls is not None:
            static = any(isinstance(d, ast.Name) and d.id == "staticmethod" for d in fn.decorator_list)
            if params and not static:
                fscope.self_name = params[0]
            cls.methods[fn.name] = node
            self.methods_by_name.setdefault(fn.name, []).append(node)
            if any((isinstance(d, ast.Name) and d.id in ("property", "cached_property")) or
                   (isinstance(d, ast.Attribute) and d.attr in ("cached_property", "setter", "getter", "deleter"))
                   for d in fn.decorator_list):
                cls.properties.add(fn.name)
                self.properties_by_name.setdefault(fn.name, []).append(node)
            self.collect_self_attrs(fn, fscope, cls)
        elif scope.kind == "module":
            m.funcs.setdefault(fn.name, node)
            if m.funcs[fn.name] is not node:  # redefinition: both may be the one called
                m.funcs[fn.name].callees.add(node.id)
        else:
            prev = scope.nested.get(fn.name)
            scope.nested[fn.name] = node
            if isinstance(prev, Node):
                node.callees.add(prev.id)
            for t in targets:
                t.callees.add(node.id)
        # decorators and defaults are evaluated in the enclosing scope; they also matter for each call of fn
        outer = list(fn.decorator_list) + [d for d in fn.args.defaults + fn.args.kw_defaults if d is not None]
        # a default that is a mutable object is created once and shared by every call that omits the argument: state survives
        # between calls, so a later run in the same process is not a function of its arguments alone
        for d in fn.args.defaults + fn.args.kw_defaults:
            if d is None:
                continue
            mutable = isinstance(d, (ast.List, ast.Dict, ast.Set, ast.ListComp, ast.DictComp, ast.SetComp, ast.GeneratorExp)) or (
                isinstance(d, ast.Call) and not (isinstance(d.func, ast.Name) and d.func.id in IMMUTABLE_CTORS))
            if mutable:
                what = "mutable default argument (one object shared by all calls)"
                where = f"{os.path.relpath(m.path, self.repo)}:{getattr(d, 'lineno', fn.lineno)}"
                node.hits.append(("Ambient", what, where))
                e = self.stats["ambient_table_hits"].setdefault(what, {"label": "Ambient", "count": 0, "sites": []})
                e["count"] += 1
                e["sites"].append(where)
        self.work.append((scope, targets + [node], outer))
        self.declare_block(fn.body, fscope, f"{qual}.{fn.name}", [node])
        return node

    def collect_self_attrs(self, fn, fscope, cls):
        s = fscope.self_name
        if not s:
            return
        for k in ast.walk(ast.Module(body=fn.body, type_ignores=[])):
            if isinstance(k, (ast.Assign, ast.AnnAssign, ast.AugAssign)):
                tg = k.targets if isinstance(k, ast.Assign) else [k.target]
                for t in tg:
                    if isinstance(t, ast.Attribute) and isinstance(t.value, ast.Name) and t.value.id == s and k.value is not None:
                        cls.attr_assigns.setdefault(t.attr, []).append((k.value, fscope))
            elif isinstance(k, ast.Call) and isinstance(k.func, ast.Attribute) and k.func.attr in ("add", "update") and k.args:
                r = k.func.value
                if isinstance(r, ast.Attribute) and isinstance(r.value, ast.Name) and r.value.id == s:
                    e = k.args[0] if k.func.attr == "add" else ast.Starred(value=k.args[0])
                    cls.attr_adds.setdefault(r.attr, []).append((e, fscope))

    def declare_class(self, cd, scope, qual, targets):
        m = scope.module
        node = self.new_node(f"{qual}.{cd.name}", "class", m, cd.lineno)
        self.stats["classes"] += 1
        node.callees.add(m.node.id)
        ci = ClassInfo(f"{qual}.{cd.name}", m, cd, node)
        ci.owner_scope = scope
        self.classes.append(ci)
        if scope.kind == "module":
            m.classes[cd.name] = ci
        else:
            scope.nested[cd.name] = ci
        for t in targets:
            if t is not m.node or scope.kind == "module":
                t.callees.add(node.id)
        cscope = Scope("class", m, node, parent=self.fn_parent(scope) if scope.kind != "function" else scope, cls=ci)
        cscope.collect(cd.body)
        outer = list(cd.decorator_list) + list(cd.bases) + [k.value for k in cd.keywords]
        self.work.append((scope, targets + [node], outer))
        # class body runs at definition time: attributed to the class node and to the enclosing node(s)
        self.declare_block(cd.body, cscope, ci.qual, targets + [node])
        return ci

    def link_class(self, c):
        for b in c.ast.bases:
            if isinstance(b, ast.Subscript):
                b = b.value
            ch = chain_of(b)
            if ch is None:
                continue
            tgt = None
            try:
                tgt = self.static_target(c.owner_scope, ch[0], ch[1])
            except Abort:
                tgt = None
            if isinstance(tgt, ClassInfo):
                c.bases.append(tgt)
                tgt.subclasses.append(c)
        for nm in ("__init__", "__new__", "__post_init__", "__init_subclass__", "__set_name__", "__class_getitem__"):
            if nm in c.methods:
                c.node.callees.add(c.methods[nm].id)

    def static_target(self, scope, root, attrs):
        m = scope.module
        hit = scope.lookup(root)
        if hit is not None:
            if hit[0] == "nested" and not attrs:
                return hit[1]
            if hit[0] == "import":
                dotted = hit[1]
            else:
                return None
        elif root in m.classes and not attrs:
            return m.classes[root]
        elif root in m.imports:
            dotted = m.imports[root]
        else:
            return None
        parts = dotted.split(".") + attrs
        if parts[0] != "rl_blox":
            return None
        return self.resolve_rl(parts, "class bases")

    def resolve_rl(self, parts, where, depth=0):
        """-> Node | ClassInfo | ('class-attr', ClassInfo, [attrs]) | ('module', m) | ('global', m) | ('external', dotted)"""
        if depth > 12:
            raise Abort(f"{where}: import cycle while resolving {'.'.join(parts)}")
        for i in range(len(parts), 0, -1):
            mod = ".".join(parts[:i])
            if mod in self.modules:
                m = self.modules[mod]
                rest = parts[i:]
                if not rest:
                    return ("module", m)
                h = rest[0]
                if h in m.funcs:
                    return m.funcs[h]
                if h in m.classes:
                    return m.classes[h] if len(rest) == 1 else ("class-attr", m.classes[h], rest[1:])
                if h in m.imports:
                    tgt = m.imports[h].split(".") + rest[1:]
                    if tgt[0] == "rl_blox":
                        return self.resolve_rl(tgt, where, depth + 1)
                    return ("external", ".".join(tgt))
                if h in m.globals:
                    return ("global", m)
                raise Abort(f"{where}: cannot resolve {'.'.join(parts)}: {h!r} is not defined in {mod}")
        raise Abort(f"{where}: cannot resolve rl_blox name {'.'.join(parts)}")

    # ---- pass 2: bodies
    def run(self):
        self.load()
        for m in self.modules.values():
            for dotted in m.imports.values():
                self.import_edge(m.node, dotted)
        i = 0
        while i < len(self.work):
            scope, targets, items = self.work[i]
            i += 1
            w = Walker(self, scope, targets)
            for it in items:
                w.visit(it)
        # function-level imports also initialise the imported rl_blox module
        self.mark_roots()

    def import_edge(self, node, dotted):
        parts = dotted.split(".")
        if parts[0] != "rl_blox":
            return
        for i in range(len(parts), 0, -1):
            mod = ".".join(parts[:i])
            if mod in self.modules:
                node.callees.add(self.modules[mod].node.id)
                return

    def mark_roots(self):
        """Entry points: every module-level train_* function; every class, every public or dunder method and
        every public function of blox/replay_buffer.py, blox/multitask.py, blox/mapb.py, blox/schedules.py."""
        entry_modules = ("rl_blox.blox.replay_buffer", "rl_blox.blox.multitask", "rl_blox.blox.mapb", "rl_blox.blox.schedules")
        for n in self.nodes:
            mod = n.module.name
            tail = n.qual[len(mod) + 1:]
            last = tail.split(".")[-1]
            depth = tail.count(".")
            if n.kind == "function" and depth == 0 and last.startswith("train_"):
                n.is_root = True
            if mod in entry_modules:
                if n.kind == "function" and depth == 0 and not last.startswith("_"):
                    n.is_root = True
                elif n.kind == "class" and depth == 0:
                    n.is_root = True
                elif n.kind == "method" and depth == 1 and (not last.startswith("_") or (last.startswith("__") and last.endswith("__"))):
                    n.is_root = True
        trains = [n for n in self.nodes if n.is_root and n.kind == "function" and n.qual.split(".")[-1].startswith("train_")]
        if len(trains) < 1:
            raise Abort("no train_* entry point found")
        for mod in entry_modules:
            if mod not in self.modules:
                raise Abort(f"entry module {mod} not found")

    # ---- output
    def public_stats(self):
        s = json.loads(json.dumps(self.stats))
        s["given_distinct_forms"] = len(self.given_forms)
        s["given_forms_examples"] = sorted(self.given_forms)[:60]
        s["nodes"] = len(self.nodes)
        s["edges"] = sum(len(n.callees) for n in self.nodes)
        s["roots"] = sum(1 for n in self.nodes if n.is_root)
        s["train_roots"] = sorted(n.qual for n in self.nodes if n.is_root and n.qual.split(".")[-1].startswith("train_"))
        s["labels"] = {l: sum(1 for n in self.nodes if n.label == l) for l in LABELS}
        s["allowed_libraries"] = sorted(ALLOWED_LIBS) + sorted(ALLOWED_OS)
        return s

    def graph_json(self):
        return {
            "repo": self.repo, "abort": None,
            "nodes": [{"id": n.id, "qual": n.qual, "kind": n.kind, "file": n.file, "line": n.line, "label": n.label,
                       "hits": [list(h) for h in n.hits], "callees": sorted(n.callees), "root": n.is_root}
                      for n in self.nodes],
            "roots": [n.id for n in self.nodes if n.is_root],
            "stats": self.public_stats(),
        }


class SetRule:
    """Set-iteration rule (stated in full; used by Walker.iteration).

    SET-TYPED, syntactically: a set display or set comprehension; a call of the builtins set / frozenset;
    `a | b`, `a & b`, `a - b`, `a ^ b` with a set-typed operand; .union / .intersection / .difference /
    .symmetric_difference / .copy() on a set-typed receiver; copy.copy / copy.deepcopy of a set-typed value; a
    conditional expression with a set-typed branch; a local or module-level name, or self.<attr>, with at least
    one set-typed assignment in the function (module; any method of the class family).
    ITERATION CONTEXTS: the iterable of `for` and of comprehensions; arguments of list, tuple, enumerate, iter,
    next, zip, map, filter, reversed; arguments of <anything>.array / asarray / fromiter / stack / concatenate /
    hstack / vstack / join; starred expressions; .pop() without argument on a set-typed receiver.  (sorted, min,
    max, sum, len, any, all and `in` do not expose the order.)
    ELEMENT KIND of one element expression (value_kind):
      numeric      int / float / bool / complex constants; int() float() len() ord() round() abs() bool()
                   complex(); unary / binary arithmetic of numerics; tuples of numerics
      non-numeric  str / bytes / None / Ellipsis constants; f-strings; "..." % x; str() repr() format() chr()
                   ascii() bytes() object() type() hex() oct() bin(); x.format() .join() .strip() .lower()
                   .upper(); lambdas; tuples containing a non-numeric
      unknown      everything else (names of unknown origin, attribute loads, other calls)
    ELEMENTS of an iterable (iterable_kind): list / tuple / set displays and comprehensions by their element
    expressions; range(...) numeric; a str constant non-numeric; map(f, ...) by f (a builtin of the lists above,
    or a lambda by its body); set / frozenset / list / tuple / sorted / reversed / iter of x like x (empty:
    numeric); dir() / vars() non-numeric; x.split() / rsplit() / splitlines() non-numeric; set algebra combines
    its operands (`&`, `-`: the left operand); a name or self.<attr> combines ALL its assignments and all its
    .add(e) / .update(e) sites.  Combination: one non-numeric source -> non-numeric; all numeric -> numeric;
    otherwise unknown.
    VERDICT: non-numeric -> Ambient hit (iteration order depends on PYTHONHASHSEED or on object addresses);
    numeric -> fine (hash of a number is its value: the order is a function of the insertion history);
    unknown -> counted in the statistics only - the type is invisible to the translator, the behaviour is
    observed by the twin runs under different PYTHONHASHSEED (this is part of the `partial` label).
    """
    SET_METHODS = {"union", "intersection", "difference", "symmetric_difference", "copy"}
    ITER_FUNCS = {"list", "tuple", "enumerate", "iter", "next", "zip", "map", "filter", "reversed"}
    ARRAY_FUNCS = {"array", "asarray", "fromiter", "stack", "concatenate", "hstack", "vstack"}
    NUM_CALLS = {"int", "float", "len", "ord", "round", "abs", "bool", "complex"}
    STR_CALLS = {"str", "repr", "format", "chr", "ascii", "bytes", "object", "type", "hex", "oct", "bin"}
    STR_METHODS = {"split", "splitlines", "format", "join", "strip", "lower", "upper", "encode", "decode"}

    def __init__(self, walker):
        self.w = walker

    def builtin_call(self, e, names):
        return isinstance(e, ast.Call) and isinstance(e.func, ast.Name) and e.func.id in names \
            and self.w.is_plain_builtin(e.func.id)

    def is_set(self, e, scope, seen=()):
        if isinstance(e, (ast.Set, ast.SetComp)):
            return True
        if self.builtin_call(e, {"set", "frozenset"}):
            return True
        if isinstance(e, ast.BinOp) and isinstance(e.op, (ast.BitOr, ast.BitAnd, ast.Sub, ast.BitXor)):
            return self.is_set(e.left, scope, seen) or self.is_set(e.right, scope, seen)
        if isinstance(e, ast.IfExp):
            return self.is_set(e.body, scope, seen) or self.is_set(e.orelse, scope, seen)
        if isinstance(e, ast.Call) and isinstance(e.func, ast.Attribute):
            if e.func.attr in self.SET_METHODS and self.is_set(e.func.value, scope, seen):
                return True
            ch = chain_of(e.func)
            if ch and e.args and self.w.dotted_of(ch[0], ch[1]) in ("copy.copy", "copy.deepcopy"):
                return self.is_set(e.args[0], scope, seen)
            return False
        if isinstance(e, ast.Call) and isinstance(e.func, ast.Name) and e.args \
                and self.w.dotted_of(e.func.id, []) in ("copy.copy", "copy.deepcopy"):
            return self.is_set(e.args[0], scope, seen)
        for exprs, _adds, sc, key in self.sources(e, scope):
            if key in seen:
                return False
            return any(self.is_set(x, sc2, seen + (key,)) for x, sc2 in exprs)
        return False

    def sources(self, e, scope):
        """Assignments / add-sites of a local name or of self.<attr>: yields at most one record."""
        if isinstance(e, ast.Name):
            hit = scope.lookup(e.id)
            if hit and hit[0] == "local":
                sc = hit[1]
                yield ([(x, sc) for x in sc.assigns.get(e.id, [])], [(x, sc) for x in sc.adds.get(e.id, [])], sc, ("n", id(sc), e.id))
            elif hit is None and e.id in scope.module.globals:
                ms = scope.module.scope
                yield ([(x, ms) for x in ms.assigns.get(e.id, [])], [(x, ms) for x in ms.adds.get(e.id, [])], ms, ("g", scope.module.name, e.id))
        elif isinstance(e, ast.Attribute) and isinstance(e.value, ast.Name):
            cls = scope.self_class(e.value.id)
            if cls is not None:
                ass, adds = [], []
                for c in cls.family():
                    ass += c.attr_assigns.get(e.attr, [])
                    adds += c.attr_adds.get(e.attr, [])
                yield (ass, adds, scope, ("a", cls.qual, e.attr))

    def combine(self, kinds):
        kinds = list(kinds)
        if any(k == "non-numeric" for k in kinds):
            return "non-numeric"
        if kinds and all(k == "numeric" for k in kinds):
            return "numeric"
        return "unknown" if kinds else "numeric"

    def value_kind(self, e, scope, seen=()):
        """Kind of ONE element expression."""
        if isinstance(e, ast.Constant):
            if isinstance(e.value, (str, bytes)) or e.value is None or e.value is Ellipsis:
                return "non-numeric"
            return "numeric"
        if isinstance(e, ast.JoinedStr):
            return "non-numeric"
        if isinstance(e, ast.Tuple):
            return self.combine(self.value_kind(x, scope, seen) for x in e.elts) if e.elts else "numeric"
        if isinstance(e, ast.UnaryOp):
            return self.value_kind(e.operand, scope, seen)
        if isinstance(e, ast.BinOp):
            if isinstance(e.op, ast.Mod) and isinstance(e.left, (ast.Constant, ast.JoinedStr)) and self.value_kind(e.left, scope) == "non-numeric":
                return "non-numeric"
            return self.combine([self.value_kind(e.left, scope, seen), self.value_kind(e.right, scope, seen)])
        if self.builtin_call(e, self.NUM_CALLS):
            return "numeric"
        if self.builtin_call(e, self.STR_CALLS):
            return "non-numeric"
        if isinstance(e, ast.Call) and isinstance(e.func, ast.Attribute) and e.func.attr in ("format", "join", "strip", "lower", "upper"):
            return "non-numeric"
        if isinstance(e, ast.Lambda):
            return "non-numeric"
        return "unknown"

    def iterable_kind(self, e, scope, seen=()):
        """Kind of the elements produced by iterating e."""
        if isinstance(e, ast.Starred):
            return self.iterable_kind(e.value, scope, seen)
        if isinstance(e, (ast.List, ast.Tuple, ast.Set)):
            return self.combine(self.value_kind(x, scope, seen) for x in e.elts)
        if isinstance(e, (ast.ListComp, ast.SetComp, ast.GeneratorExp)):
            return self.value_kind(e.elt, scope, seen)
        if isinstance(e, ast.Constant) and isinstance(e.value, (str, bytes)):
            return "non-numeric" if isinstance(e.value, str) else "numeric"
        if self.builtin_call(e, {"range"}):
            return "numeric"
        if self.builtin_call(e, {"map"}) and e.args:
            f = e.args[0]
            if isinstance(f, ast.Name) and self.w.is_plain_builtin(f.id):
                if f.id in self.NUM_CALLS:
                    return "numeric"
                if f.id in self.STR_CALLS:
                    return "non-numeric"
            if isinstance(f, ast.Lambda):
                return self.value_kind(f.body, scope, seen)
            return "unknown"
        if self.builtin_call(e, {"set", "frozenset", "list", "tuple", "sorted", "reversed", "iter"}):
            return self.iterable_kind(e.args[0], scope, seen) if e.args else "numeric"
        if self.builtin_call(e, {"dir", "vars"}):
            return "non-numeric"
        if isinstance(e, ast.Call) and isinstance(e.func, ast.Attribute):
            if e.func.attr in ("split", "splitlines", "rsplit"):
                return "non-numeric"
            if e.func.attr in self.SET_METHODS:
                ks = [self.iterable_kind(e.func.value, scope, seen)] + [self.iterable_kind(a, scope, seen) for a in e.args]
                return self.combine(ks)
            ch = chain_of(e.func)
            if ch and e.args and self.w.dotted_of(ch[0], ch[1]) in ("copy.copy", "copy.deepcopy"):
                return self.iterable_kind(e.args[0], scope, seen)
            return "unknown"
        if isinstance(e, ast.BinOp) and isinstance(e.op, (ast.BitOr, ast.BitAnd, ast.Sub, ast.BitXor, ast.Add)):
            l, r = self.iterable_kind(e.left, scope, seen), self.iterable_kind(e.right, scope, seen)
            if isinstance(e.op, (ast.BitAnd, ast.Sub)):
                return l
            return self.combine([l, r])
        if isinstance(e, ast.IfExp):
            return self.combine([self.iterable_kind(e.body, scope, seen), self.iterable_kind(e.orelse, scope, seen)])
        for exprs, adds, sc, key in self.sources(e, scope):
            if key in seen:
                return "unknown"
            seen2 = seen + (key,)
            ks = [self.iterable_kind(x, s2, seen2) for x, s2 in exprs]
            for x, s2 in adds:
                ks.append(self.iterable_kind(x, s2, seen2) if isinstance(x, ast.Starred) else self.value_kind_deep(x, s2, seen2))
            return self.combine(ks)
        return "unknown"

    def value_kind_deep(self, e, scope, seen):
        """value_kind, following a local name to its assignments / loop origins one level."""
        k = self.value_kind(e, scope, seen)
        if k != "unknown" or not isinstance(e, ast.Name):
            return k
        for exprs, _adds, sc, key in self.sources(e, scope):
            if key in seen or not exprs:
                return "unknown"
            return self.combine(self.value_kind(x, s2, seen + (key,)) for x, s2 in exprs)
        return "unknown"


class Walker:
    def __init__(self, tr, scope, targets):
        self.tr, self.scope, self.targets = tr, scope, targets
        self.m = scope.module
        self.sets = SetRule(self)

    # -- bookkeeping
    def where(self, n):
        return f"{os.path.relpath(self.m.path, self.tr.repo)}:{getattr(n, 'lineno', 0)}"

    def edge(self, target):
        tid = target.node.id if isinstance(target, ClassInfo) else target.id
        for t in self.targets:
            t.callees.add(tid)

    def hit(self, label, what, n):
        for t in self.targets:
            t.hits.append((label, what, self.where(n)))
        d = self.tr.stats["ambient_table_hits"].setdefault(what, {"label": label, "count": 0, "sites": []})
        d["count"] += 1
        if len(d["sites"]) < 40:
            d["sites"].append(self.where(n))
        if RANK[label] > RANK[d["label"]]:
            d["label"] = label

    def count(self, k):
        self.tr.stats["call_sites"][k] += 1

    def is_plain_builtin(self, name):
        return self.scope.lookup(name) is None and name not in self.m.funcs and name not in self.m.classes \
            and name not in self.m.imports and name not in self.m.globals and name in BUILTIN_NAMES

    def dotted_of(self, root, attrs):
        hit = self.scope.lookup(root)
        if hit is not None:
            return ".".join([hit[1]] + attrs) if hit[0] == "import" else None
        if root in self.m.funcs or root in self.m.classes:
            return None
        if root in self.m.imports:
            return ".".join([self.m.imports[root]] + attrs)
        return None

    # -- generic traversal
    def visit(self, n):
        if n is None:
            return
        if isinstance(n, list):
            for x in n:
                self.visit(x)
            return
        if _is_def(n):
            return
        if isinstance(n, ast.Call):
            return self.call(n)
        if isinstance(n, (ast.Attribute, ast.Name)):
            return self.ref(n)
        if isinstance(n, (ast.For, ast.AsyncFor)):
            self.iteration(n.iter, n)
        elif isinstance(n, ast.comprehension):
            self.iteration(n.iter, n.iter)
        elif isinstance(n, ast.Starred):
            self.iteration(n.value, n)
        elif isinstance(n, ast.AnnAssign):
            self.visit(n.target)
            self.visit(n.value)
            return
        elif isinstance(n, ast.arg):
            return
        elif isinstance(n, ast.Lambda):
            self.visit([d for d in n.args.defaults + n.args.kw_defaults if d is not None])
            self.visit(n.body)
            return
        elif isinstance(n, (ast.Import, ast.ImportFrom)):
            for _name, dotted in import_bindings(n, self.m):
                for t in self.targets:
                    self.tr.import_edge(t, dotted)
            return
        for c in ast.iter_child_nodes(n):
            self.visit(c)

    # -- references
    def ref(self, n):
        if isinstance(n.ctx, (ast.Store, ast.Del)):
            if isinstance(n, ast.Attribute):
                self.visit(n.value)
            return
        ch = chain_of(n)
        if ch is None:
            self.visit(n.value)
            self.property_by_name(n.attr)
            return
        self.resolve(ch[0], ch[1], None, n)

    def property_by_name(self, attr):
        for p in self.tr.properties_by_name.get(attr, []):
            self.edge(p)

    def all_dunder(self, name):
        for p in self.tr.methods_by_name.get(name, []):
            self.edge(p)

    def by_method_name(self, name, form):
        ms = self.tr.methods_by_name.get(name, [])
        if ms:
            for p in ms:
                self.edge(p)
            self.count("by-method-name")
        else:
            self.count("given-receiver")
            self.tr.given_forms.add(form)
            self.all_dunder("__call__")

    def class_edge(self, ci):
        self.edge(ci)
        for a in ci.ancestors():
            self.edge(a)

    def method_in_family(self, cls, name, only_ancestors=False):
        fam = cls.ancestors() if only_ancestors else cls.family()
        return [c.methods[name] for c in fam if name in c.methods]

    def resolve(self, root, attrs, call, n):
        """Name chain root.attrs ; call = the ast.Call when in callee position."""
        form = ".".join([root] + attrs)
        scope = self.scope
        cls = scope.self_class(root)
        hit = scope.lookup(root)
        if hit is not None and hit[0] == "local":
            mimp = self.m.imports.get(root, "")
            if root in AMBIENT_BUILTINS or mimp.split(".")[0] in AMBIENT_ROOTS or mimp.startswith("numpy.random"):
                raise Abort(f"{self.where(n)}: local name {root!r} shadows an ambient module / builtin; cannot classify uses")
            if cls is not None:
                return self.self_ref(cls, root, attrs, call, n, form)
            if call is not None:
                if attrs:
                    self.by_method_name(attrs[-1], form)
                else:
                    self.count("given-callable")
                    self.tr.given_forms.add(form)
                    self.all_dunder("__call__")
            elif attrs:
                self.property_by_name(attrs[-1])
            return
        if hit is not None and hit[0] == "nested":
            tgt = hit[1]
            if isinstance(tgt, ClassInfo):
                self.class_edge(tgt)
                if attrs:
                    self.class_attr(tgt, attrs, call, form)
            else:
                self.edge(tgt)
            if call is not None:
                self.count("nested-local")
            return
        if hit is not None and hit[0] == "import":
            return self.dotted(".".join([hit[1]] + attrs), call, n, form)
        m = self.m
        if root in m.funcs:
            self.edge(m.funcs[root])
            if call is not None:
                self.count("rl_blox-direct")
            return
        if root in m.classes:
            self.class_edge(m.classes[root])
            if attrs:
                self.class_attr(m.classes[root], attrs, call, form)
            if call is not None:
                self.count("rl_blox-direct")
            return
        if root in m.imports:
            return self.dotted(".".join([m.imports[root]] + attrs), call, n, form)
        if root in m.globals:
            self.edge(m.node)
            if call is not None:
                self.count("module-global")
                if attrs:
                    self.by_method_name(attrs[-1], form)
                else:
                    self.all_dunder("__call__")
            return
        # names of an enclosing class body (class attributes used inside the class body)
        s = scope
        while s is not None:
            if s.kind == "class" and root in s.locals:
                if call is not None:
                    self.count("given-callable")
                    self.all_dunder("__call__")
                return
            s = s.parent
        if root in BUILTIN_NAMES:
            if root in FORBIDDEN_BUILTINS:
                raise Abort(f"{self.where(n)}: use of builtin {root} cannot be classified")
            if root in AMBIENT_BUILTINS:
                self.hit("Ambient", f"builtins.{root}", n)
                if call is not None:
                    self.count("ambient-table")
                return
            if call is not None:
                self.count("builtin")
                if root == "len" and not attrs:
                    self.all_dunder("__len__")
            return
        raise Abort(f"{self.where(n)}: name {root!r} cannot be resolved (not a local, import, module-level name or builtin)")

    def self_ref(self, cls, root, attrs, call, n, form):
        if not attrs:
            if call is not None:  # cls(...) in a classmethod, or self(...)
                self.class_edge(cls)
                for d in cls.descendants():
                    self.class_edge(d)
                self.all_dunder("__call__")
                self.count("self-method")
            return
        found = self.method_in_family(cls, attrs[0])
        for f in found:
            self.edge(f)
        if found and len(attrs) == 1:
            if call is not None:
                self.count("self-method")
            return
        if call is not None:
            self.by_method_name(attrs[-1], form)
        else:
            self.property_by_name(attrs[-1])

    def class_attr(self, ci, attrs, call, form):
        found = self.method_in_family(ci, attrs[0])
        for f in found:
            self.edge(f)
        if not found and call is not None:
            ms = self.tr.methods_by_name.get(attrs[-1], [])
            for p in ms:
                self.edge(p)

    def dotted(self, full, call, n, form):
        parts = full.split(".")
        root = parts[0]
        tr = self.tr
        if root == "rl_blox":
            r = tr.resolve_rl(parts, self.where(n))
            if isinstance(r, Node):
                self.edge(r)
            elif isinstance(r, ClassInfo):
                self.class_edge(r)
            elif r[0] == "class-attr":
                self.class_edge(r[1])
                self.class_attr(r[1], r[2], call, form)
            elif r[0] in ("module", "global"):
                self.edge(r[1].node)
                if call is not None and r[0] == "global":
                    self.all_dunder("__call__")
            elif r[0] == "external":
                return self.dotted(r[1], call, n, form)
            if call is not None:
                self.count("rl_blox-direct")
            return
        label = self.table(parts, full, call, n)
        if label is not None:
            self.hit(label, self.table_key(parts, full, call, label), n)
            if call is not None:
                self.count("ambient-table")
            return
        if root == "os":
            pref2 = ".".join(parts[:2])
            if pref2 in ALLOWED_OS:
                if call is not None:
                    self.count("library")
                return
            raise Abort(f"{self.where(n)}: use of {full}: os function outside the allowed list and the ambient table")
        if root in ALLOWED_LIBS:
            if call is not None:
                self.count("library")
            return
        raise Abort(f"{self.where(n)}: use of {full}: module {root!r} is neither rl_blox, nor in the ambient table, "
                    f"nor in the allowed-library list")

    def table_key(self, parts, full, call, label):
        if parts[0] == "numpy":
            name = ".".join(parts[:3])
            if len(parts) > 2 and parts[2] in NP_RNG_CTORS:
                return name + ("(seed)" if label == "Seeded" else "() unseeded")
            return name
        if parts[:2] == ["jax", "random"]:
            return full + ("(seed)" if label == "Seeded" else "() without argument")
        if parts[0] == "random" and label == "Seeded":
            return full + "(seed)"
        return full

    def table(self, parts, full, call, n):
        """Ambient table: -> 'Ambient' | 'WallClock' | 'Seeded' | None (not in the table)."""
        root = parts[0]

        def has_seed(c):
            if c is None:
                return False
            first = c.args[0] if c.args else next((k.value for k in c.keywords if k.arg in ("seed", "entropy", "bit_generator")), None)
            if first is None:
                return False
            if isinstance(first, ast.Starred):
                return False
            return not (isinstance(first, ast.Constant) and first.value is None)

        if root == "numpy" and parts[1:2] == ["random"]:
            if len(parts) >= 3 and parts[2] in NP_RNG_CTORS:
                return "Seeded" if has_seed(call) and len(parts) == 3 else "Ambient"
            return "Ambient"
        if root == "random":
            if parts[1:2] in (["Random"], ["SystemRandom"]) and parts[1] == "Random" and has_seed(call) and len(parts) == 2:
                return "Seeded"
            return "Ambient"
        if root == "time":
            return "WallClock" if self.m.in_logging else "Ambient"
        if root == "datetime":
            return "Ambient" if parts[-1] in ("now", "today", "utcnow") else None
        if root == "os":
            return "Ambient" if ".".join(parts[:2]) in AMBIENT_OS else None
        if root in ("uuid", "secrets"):
            return "Ambient"
        if parts[:2] == ["jax", "random"] and parts[2:] in (["PRNGKey"], ["key"]):
            if call is None:
                return None
            return "Seeded" if (call.args or call.keywords) else "Ambient"
        return None

    # -- calls
    def call(self, c):
        f = c.func
        handled = False
        # super().m(...)
        if isinstance(f, ast.Attribute) and isinstance(f.value, ast.Call) and isinstance(f.value.func, ast.Name) \
                and f.value.func.id == "super" and self.is_plain_builtin("super"):
            cls = None
            s = self.scope
            while s is not None and cls is None:
                cls = s.cls
                s = s.parent
            found = self.method_in_family(cls, f.attr, only_ancestors=True) if cls is not None else []
            for t in found:
                self.edge(t)
            self.count("super-method" if found else "library")
            self.visit(f.value.args)
            handled = True
        if not handled:
            ch = chain_of(f)
            if ch is not None:
                self.resolve(ch[0], ch[1], c, c)
            else:
                self.count("dynamic-expression")
                if isinstance(f, ast.Attribute):
                    self.visit(f.value)
                    self.by_method_name(f.attr, "<expr>." + f.attr)
                else:
                    self.visit(f)
                    self.all_dunder("__call__")
        # iteration contexts
        fname = None
        if isinstance(f, ast.Name) and self.is_plain_builtin(f.id):
            fname = f.id
        if fname in ("getattr", "vars", "dir", "setattr", "delattr") and c.args:
            ch0 = chain_of(c.args[0])
            d0 = self.dotted_of(ch0[0], ch0[1]) if ch0 else None
            if d0 and (d0.split(".")[0] in AMBIENT_ROOTS or d0.split(".")[0] == "numpy"):
                raise Abort(f"{self.where(c)}: dynamic attribute access {fname}({d0}, ...) on a module that hosts ambient sources")
        if fname in SetRule.ITER_FUNCS:
            for a in c.args:
                self.iteration(a, c)
        elif isinstance(f, ast.Attribute):
            if f.attr in SetRule.ARRAY_FUNCS or f.attr == "join":
                for a in c.args:
                    self.iteration(a, c)
            if f.attr == "pop" and not c.args:
                self.iteration(f.value, c)
        for a in c.args:
            self.visit(a)
        for k in c.keywords:
            self.visit(k.value)

    def iteration(self, e, n):
        if isinstance(e, ast.Starred):
            e = e.value
        if not self.sets.is_set(e, self.scope):
            return
        kind = self.sets.iterable_kind(e, self.scope)
        st = self.tr.stats["set_iteration"]
        st[kind] += 1
        site = f"{self.where(n)} {ast.unparse(e)[:60]} -> {kind}"
        if site not in st["sites"]:
            st["sites"].append(site)
        if kind == "non-numeric":
            self.hit("Ambient", "set-iteration over non-numeric elements", n)


# ----------------------------------------------------------------------------- emission
def coq_graph(g):
    lines = [
        "(** GENERATED by harness/c09_translate.py - do not edit; regenerated on every C09 run.",
        f"    source tree: {g['repo']}/rl_blox   nodes: {len(g['nodes'])}   roots: {len(g['roots'])}",
    ]
    if g.get("abort"):
        lines.append(f"    {FAIL_GRAPH_NOTE}: {g['abort'][:300].replace('*)', '* )').replace('(*', '( *')}")
    lines += ["    Table id -> (label, kind, qualified name, file:line):"]
    for n in g["nodes"]:
        q = n["qual"].replace("*)", "* )").replace("(*", "( *")
        lines.append(f"    {n['id']:4d} {n['label']:9s} {n['kind']:8s} {'ROOT ' if n['root'] else '     '}{q}  {n['file']}:{n['line']}")
    lines += ["*)", "From Coq Require Import List NArith.", "From RLV Require Import Model.EffectGraph.", "Import ListNotations.",
              "Local Open Scope N_scope.", "", "Definition graph : list node := ["]
    body = []
    for n in g["nodes"]:
        body.append(f"  ({n['id']}, {n['label']}, [{'; '.join(str(c) for c in n['callees'])}])")
    lines.append(";\n".join(body))
    lines += ["].", "", "Definition roots : list N := [" + "; ".join(str(r) for r in g["roots"]) + "].", ""]
    return "\n".join(lines)


def translate(repo=None):
    """-> graph dict (with 'abort' set to the reason if the translation was aborted)."""
    repo = repo or os.environ.get("VERIF_REPO", REPO)
    tr = Translator(repo)
    try:
        tr.run()
        return tr.graph_json()
    except Abort as e:
        return {"repo": os.path.abspath(repo), "abort": str(e),
                "nodes": [{"id": 0, "qual": "<translation aborted>", "kind": "module", "file": "-", "line": 0,
                           "label": "Ambient", "hits": [["Ambient", "translation aborted", "-"]], "callees": [], "root": True}],
                "roots": [0], "stats": {"aborted": str(e)}}
    except RecursionError as e:
        return {"repo": os.path.abspath(repo), "abort": "recursion limit: " + str(e),
                "nodes": [{"id": 0, "qual": "<translation aborted>", "kind": "module", "file": "-", "line": 0,
                           "label": "Ambient", "hits": [], "callees": [], "root": True}],
                "roots": [0], "stats": {"aborted": str(e)}}


def write_outputs(g, root=None):
    """Writes coq/Gen/Graph.v (only when the content changed, atomically, under the build lock) and
    build/c09_graph.json."""
    import fcntl
    root = root or os.environ.get("VERIF_ROOT", V)
    os.makedirs(f"{root}/coq/Gen", exist_ok=True)
    os.makedirs(f"{root}/build", exist_ok=True)
    text = coq_graph(g)
    path = f"{root}/coq/Gen/Graph.v"
    with open(f"{root}/build/.lock", "a") as lk:
        fcntl.flock(lk, fcntl.LOCK_EX)
        old = open(path).read() if os.path.exists(path) else None
        if old != text:
            tmp = f"{path}.{os.getpid()}.tmp"
            with open(tmp, "w") as f:
                f.write(text)
            os.replace(tmp, path)
        tmpj = f"{root}/build/c09_graph.json.{os.getpid()}.tmp"
        with open(tmpj, "w") as f:
            json.dump(g, f, indent=0)
        os.replace(tmpj, f"{root}/build/c09_graph.json")
    return path


def find_paths(g, limit=8):
    """BFS from the roots; shortest path root -> ... -> Ambient node for every reachable Ambient node."""
    nodes = {n["id"]: n for n in g["nodes"]}
    prev = {}
    order = []
    for r in g["roots"]:
        if r not in prev:
            prev[r] = None
            order.append(r)
    i = 0
    while i < len(order):
        u = order[i]
        i += 1
        for v in nodes.get(u, {"callees": []})["callees"]:
            if v not in prev:
                prev[v] = u
                order.append(v)
    out = []
    for u in order:
        if u not in nodes or nodes[u]["label"] == "Ambient":
            path = []
            x = u
            while x is not None:
                path.append(x)
                x = prev[x]
            path = path[::-1]
            out.append({"root": nodes[path[0]]["qual"], "ambient_node": nodes[u]["qual"] if u in nodes else f"<dangling {u}>",
                        "path": [nodes[p]["qual"] if p in nodes else f"<dangling {p}>" for p in path],
                        "reads": [h for h in nodes[u]["hits"] if h[0] == "Ambient"] if u in nodes else []})
    return out[:limit] if limit else out


def path_between(g, root_qual, target_quals):
    """Shortest call path from one root (qualified name) to one of the target nodes, or None."""
    nodes = {n["id"]: n for n in g["nodes"]}
    start = [n["id"] for n in g["nodes"] if n["qual"] == root_qual]
    if not start:
        return None
    prev = {start[0]: None}
    order = [start[0]]
    i = 0
    while i < len(order):
        u = order[i]
        i += 1
        if nodes[u]["qual"] in target_quals:
            path = []
            while u is not None:
                path.append(nodes[u]["qual"])
                u = prev[u]
            return path[::-1]
        for v in nodes[u]["callees"]:
            if v not in prev and v in nodes:
                prev[v] = u
                order.append(v)
    return None


def roots_reaching(g, target_quals):
    """Names of the roots from which one of the given nodes is reachable."""
    nodes = {n["id"]: n for n in g["nodes"]}
    res = []
    for r in g["roots"]:
        seen, todo = {r}, [r]
        while todo:
            u = todo.pop()
            for v in nodes[u]["callees"]:
                if v not in seen and v in nodes:
                    seen.add(v)
                    todo.append(v)
        if any(nodes[u]["qual"] in target_quals for u in seen):
            res.append(nodes[r]["qual"])
    return res


def main(argv):
    g = translate()
    path = write_outputs(g)
    s = g["stats"]
    if g.get("abort"):
        print(f"c09_translate: ABORTED: {g['abort']}")
        print(f"c09_translate: wrote fail-closed {path}")
        return 2
    print(f"c09_translate: {s['files']} files, {s['functions']} functions, {s['classes']} classes, {s['nodes']} nodes, "
          f"{s['edges']} edges, {s['roots']} roots; labels {s['labels']}; wrote {path}")
    if "-v" in argv:
        print(json.dumps({k: v for k, v in s.items() if k not in ("given_forms_examples",)}, indent=1))
        for p in find_paths(g):
            print("AMBIENT PATH:", " -> ".join(p["path"]), p["reads"])
    return 0


if __name__ == "__main__":
    sys.exit(main(sys.argv[1:]))
