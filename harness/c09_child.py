"""C09 twin-run child: runs ONE training routine once and writes a digest of everything it returns.

usage: c09_child.py <routine> <seed> <ambient-id> <out.json> [<init-seed>]

The parent (harness/c09.py) starts this in a fresh process with its own PYTHONHASHSEED / XLA_FLAGS.
Here the remaining ambient conditions are set BEFORE rl_blox is imported:
  * global numpy generator and stdlib random seeded with the ambient id (differs between twins),
  * time.time / time.time_ns shifted by ambient-id * 1e5 seconds (differs between twins).
Everything the property fixes is derived from the two seeds only: function approximators are initialised
from <init-seed> (nnx.Rngs(init) / create_*_state(seed=init); the same in all three runs of a routine, so a
difference of the parameters in the third run is caused by training, not by initialisation), and
env.reset(seed), env.action_space.seed(seed), env.observation_space.seed(seed) and the routine's seed
argument from <seed>.

Digest keys:  param/...  (every leaf of nnx.state of every returned module / optimizer, q-tables),
buffer/... (replay-buffer arrays over the filled region, cursors, priorities), counter/... (returned
ints / floats / arrays that are not modules), log/... (MemoryLogger values and (episode, step); the time
field is dropped).  Values are sha256 of dtype, shape and raw bytes.
"""
import hashlib
import json
import os
import sys
import time as _time

ROUTINE, SEED, AMBIENT, OUT = sys.argv[1], int(sys.argv[2]), int(sys.argv[3]), sys.argv[4]
INIT = int(sys.argv[5]) if len(sys.argv) > 5 else 5

# ---- ambient conditions (different between twins) -------------------------------------------
_real_time, _real_time_ns = _time.time, _time.time_ns
_SHIFT = AMBIENT * 100000.0 + 0.123 * AMBIENT
_time.time = lambda: _real_time() + _SHIFT
_time.time_ns = lambda: _real_time_ns() + int(_SHIFT * 1e9)
import random as _random  # noqa: E402

_random.seed(AMBIENT)
import numpy as np  # noqa: E402

np.random.seed(AMBIENT)
# the content of uninitialised memory is an ambient condition too: np.empty / np.empty_like return arrays filled with a value
# that differs between the twins (what a run reads before it has written it then shows as a difference)
_np_empty, _np_empty_like = np.empty, np.empty_like


def _fill(a):
    if a.dtype.kind in "fc":
        a.fill(0.5 + 2.0 * AMBIENT)
    elif a.dtype.kind in "iu":
        a.fill(AMBIENT)
    elif a.dtype.kind == "b":
        a.fill(bool(AMBIENT % 2))
    return a


np.empty = lambda *a, **k: _fill(_np_empty(*a, **k))
np.empty_like = lambda *a, **k: _fill(_np_empty_like(*a, **k))

os.environ.setdefault("JAX_PLATFORMS", "cpu")
import warnings  # noqa: E402

warnings.filterwarnings("ignore")
from functools import partial  # noqa: E402

import gymnasium as gym  # noqa: E402
import jax  # noqa: E402
import jax.numpy as jnp  # noqa: E402
import optax  # noqa: E402
from flax import nnx  # noqa: E402

from rl_blox.logging.logger import MemoryLogger  # noqa: E402


# ---- digest -------------------------------------------------------------------------------------
NAN_LEAVES = [0]


def h_array(x):
    if isinstance(x, jax.Array) and jnp.issubdtype(x.dtype, jax.dtypes.prng_key):
        x = jax.random.key_data(x)
    a = np.asarray(x)
    if a.dtype.kind == "f" and a.size and not np.isfinite(a).all():
        NAN_LEAVES[0] += 1
    m = hashlib.sha256()
    m.update(str(a.dtype).encode())
    m.update(str(a.shape).encode())
    m.update(np.ascontiguousarray(a).tobytes())
    return m.hexdigest()[:32]


def h_scalar(x):
    if isinstance(x, (bool, np.bool_)):
        return f"bool:{bool(x)}"
    if isinstance(x, (int, np.integer)):
        return f"int:{int(x)}"
    if isinstance(x, (float, np.floating)):
        return f"float:{float(x).hex()}"
    if x is None or isinstance(x, str):
        return f"{type(x).__name__}:{x}"
    return None


def is_buffer(o):
    return type(o).__module__ == "rl_blox.blox.replay_buffer" and not isinstance(o, type)


def dig_buffer(o, path, out, ctx=None):
    d = vars(o)
    size, cur = d.get("buffer_size"), d.get("current_len")
    if size is None and ctx is not None:
        size, cur = ctx
    for k, v in d.items():
        p = f"{path}/{k}"
        if k == "Batch":
            continue
        if isinstance(v, dict):
            out[p + "/<keys>"] = "keys:" + ",".join(map(str, v.keys()))
            for kk, vv in v.items():
                dig_buffer_value(vv, f"{p}/{kk}", out, size, cur)
        else:
            dig_buffer_value(v, p, out, size, cur)


def dig_buffer_value(v, p, out, size, cur):
    if isinstance(v, np.ndarray):
        if size is not None and v.ndim >= 1 and v.shape[0] == size and cur is not None:
            v = v[:cur]
        out[p] = h_array(v)
    elif is_buffer(v):
        dig_buffer(v, p, out, (size, cur))
    elif isinstance(v, (list, tuple)):
        out[p + "/<len>"] = f"int:{len(v)}"
        for i, x in enumerate(v):
            dig_buffer_value(x, f"{p}/{i}", out, size, cur)
    elif isinstance(v, (set, frozenset)):
        if all(isinstance(x, (int, float, str, bool, np.integer, np.floating)) for x in v):
            out[p + "/<insertion-order>"] = "list:" + ",".join(str(x) for x in v)  # iteration order is part of the state
            out[p + "/<sorted>"] = "list:" + ",".join(str(x) for x in sorted(v, key=str))
        else:       # a set of objects: their addresses are not state; what the run does with its iteration order shows elsewhere
            out[p + "/<len>"] = f"int:{len(v)}"
            out[p + "/<element-types>"] = "list:" + ",".join(sorted({type(x).__name__ for x in v}))
    elif isinstance(v, jax.Array):
        out[p] = h_array(v)
    else:
        s = h_scalar(v)
        out[p] = s if s is not None else f"type:{type(v).__name__}"


def dig_logger(lg, out):
    out["log/env_name"] = str(lg.env_name)
    out["log/algorithm_name"] = str(lg.algorithm_name)
    out["log/n_episodes"] = f"int:{lg.n_episodes}"
    out["log/n_steps"] = f"int:{lg.n_steps}"
    out["log/<keys>"] = "keys:" + ",".join(lg.stats.keys())
    for k, vals in lg.stats.items():
        m = hashlib.sha256()
        for v in vals:
            s = h_scalar(v)
            if s is None:
                try:
                    s = h_array(v)
                except Exception:  # noqa: BLE001
                    s = f"type:{type(v).__name__}"
            m.update(s.encode())
            m.update(b";")
        out[f"log/stat/{k}"] = f"n={len(vals)}:" + m.hexdigest()[:32]
        loc = [(e, s) for (e, s, _t) in lg.stats_loc[k]]  # wall-clock field dropped
        out[f"log/loc/{k}"] = hashlib.sha256(repr(loc).encode()).hexdigest()[:32]


def dig(o, path, out, cat, depth=0):
    """cat: 'param' | 'counter' (prefix for non-module leaves)."""
    if depth > 8:
        out[f"{cat}/{path}"] = f"type:{type(o).__name__}(depth)"
        return
    if isinstance(o, (nnx.Module, nnx.Optimizer)):
        st = nnx.state(o)
        leaves = jax.tree_util.tree_flatten_with_path(st)[0]
        out[f"param/{path}/<n_leaves>"] = f"int:{len(leaves)}"
        for kp, leaf in leaves:
            key = jax.tree_util.keystr(kp)
            if hasattr(leaf, "shape"):
                out[f"param/{path}{key}"] = h_array(leaf)
            else:
                s = h_scalar(leaf)
                out[f"param/{path}{key}"] = s if s is not None else f"type:{type(leaf).__name__}"
        return
    if is_buffer(o):
        dig_buffer(o, f"buffer/{path}", out)
        return
    if isinstance(o, MemoryLogger):
        return
    if isinstance(o, (jax.Array, np.ndarray)):
        out[f"{cat}/{path}"] = h_array(o)
        return
    s = h_scalar(o)
    if s is not None:
        out[f"{cat}/{path}"] = s
        return
    if isinstance(o, tuple) and hasattr(o, "_fields"):
        for f in o._fields:
            dig(getattr(o, f), f"{path}.{f}", out, cat, depth + 1)
        return
    if isinstance(o, (list, tuple)):
        out[f"{cat}/{path}/<len>"] = f"int:{len(o)}"
        for i, x in enumerate(o):
            dig(x, f"{path}[{i}]", out, cat, depth + 1)
        return
    if isinstance(o, dict):
        out[f"{cat}/{path}/<keys>"] = "keys:" + ",".join(map(str, o.keys()))
        for k, v in o.items():
            dig(v, f"{path}[{k}]", out, cat, depth + 1)
        return
    import dataclasses
    if dataclasses.is_dataclass(o) and not isinstance(o, type):
        for f in dataclasses.fields(o):
            dig(getattr(o, f.name), f"{path}.{f.name}", out, cat, depth + 1)
        return
    if type(o).__module__.startswith("rl_blox") and hasattr(o, "__dict__") and not callable(o):
        for k, v in vars(o).items():
            dig(v, f"{path}.{k}", out, cat, depth + 1)
        return
    out[f"{cat}/{path}"] = f"type:{type(o).__name__}"


# ---- environments (identically constructed and seeded from SEED) ----------------------------------
def seed_env(env, seed):
    env.reset(seed=seed)
    env.action_space.seed(seed)
    env.observation_space.seed(seed)
    return env


def make_env(name, seed, **kw):
    return seed_env(gym.make(name, **kw), seed)


def mlp(n_in, n_out, hidden, seed, act="relu"):
    from rl_blox.blox.function_approximator.mlp import MLP
    return MLP(n_in, n_out, hidden, act, nnx.Rngs(seed))


# ---- routines -------------------------------------------------------------------------------------
def r_tabular(which, seed, lg):
    from rl_blox.blox.value_policy import make_q_table
    # the tabular routines log info["episode"]["r"]: they need the statistics wrapper when a logger is given
    env = seed_env(gym.wrappers.RecordEpisodeStatistics(gym.make("CliffWalking-v1", max_episode_steps=25)), seed)
    q = make_q_table(env)
    if which == "q_learning":
        from rl_blox.algorithm.q_learning import train_q_learning
        res = train_q_learning(env, q, learning_rate=0.25, epsilon=0.3, total_timesteps=80, seed=seed, logger=lg, progress_bar=False)
    elif which == "sarsa":
        from rl_blox.algorithm.sarsa import train_sarsa
        res = train_sarsa(env, q, learning_rate=0.25, epsilon=0.3, total_timesteps=80, seed=seed, logger=lg, progress_bar=False)
    elif which == "double_q_learning":
        from rl_blox.algorithm.double_q_learning import train_double_q_learning
        res = train_double_q_learning(env, q, make_q_table(env), learning_rate=0.25, epsilon=0.3, total_timesteps=80,
                                      seed=seed, logger=lg, progress_bar=False)
    elif which == "monte_carlo":
        from rl_blox.algorithm.monte_carlo import train_monte_carlo
        res = train_monte_carlo(env, q, total_timesteps=80, epsilon=0.3, seed=seed, logger=lg, progress_bar=False)
    else:
        from rl_blox.algorithm.dynaq import train_dynaq
        res = train_dynaq(env, q, learning_rate=0.25, epsilon=0.3, n_planning_steps=3, buffer_size=50,
                          total_timesteps=60, seed=seed, logger=lg, progress_bar=False)
    return {"param:result": res}


def r_dqn_family(which, seed, lg):
    from rl_blox.blox.replay_buffer import PrioritizedReplayBuffer, ReplayBuffer
    env = make_env("CartPole-v1", seed)
    q_net = mlp(env.observation_space.shape[0], int(env.action_space.n), [12], INIT)
    opt = nnx.Optimizer(q_net, optax.adam(0.003), wrt=nnx.Param)
    kw = dict(batch_size=8, total_timesteps=70, gamma=0.95, seed=seed, logger=lg, progress_bar=False)
    if which == "dqn":
        from rl_blox.algorithm.dqn import train_dqn
        res = train_dqn(q_net, env, ReplayBuffer(200, discrete_actions=True), opt, **kw)
    elif which == "nature_dqn":
        from rl_blox.algorithm.nature_dqn import train_nature_dqn
        res = train_nature_dqn(q_net, env, ReplayBuffer(200, discrete_actions=True), opt, update_frequency=2,
                               target_update_frequency=10, learning_starts=5, **kw)
    elif which == "ddqn":
        from rl_blox.algorithm.ddqn import train_ddqn
        res = train_ddqn(q_net, env, ReplayBuffer(200, discrete_actions=True), opt, update_frequency=2,
                         target_update_frequency=10, learning_starts=5, **kw)
    else:
        from rl_blox.algorithm.per import train_ddqn_per
        rb = PrioritizedReplayBuffer(200, discrete_actions=True)
        res = train_ddqn_per(q_net, env, rb, opt, update_frequency=2, target_update_frequency=10, learning_starts=5, **kw)
        return {"result": res, "replay_buffer": rb}
    return {"result": res}


def pendulum(seed, steps=20, stats=False):
    # with the statistics wrapper the routines that log episode returns only when info carries them (PETS, TD3+LAP) do log them:
    # where (episode, step) a statistic is logged is part of the digest
    if stats:
        return seed_env(gym.wrappers.RecordEpisodeStatistics(gym.make("Pendulum-v1", max_episode_steps=steps)), seed)
    return make_env("Pendulum-v1", seed, max_episode_steps=steps)


SMALL = dict(policy_hidden_nodes=[16, 16], q_hidden_nodes=[16, 16])


def r_ddpg(seed, lg):
    from rl_blox.algorithm.ddpg import create_ddpg_state, train_ddpg
    from rl_blox.blox.replay_buffer import ReplayBuffer
    env = pendulum(seed)
    st = create_ddpg_state(env, seed=INIT, **SMALL)
    env = seed_env(env, seed)
    res = train_ddpg(env, st.policy, st.policy_optimizer, st.q, st.q_optimizer, seed=seed, total_timesteps=60,
                     batch_size=8, learning_starts=10, replay_buffer=ReplayBuffer(200), logger=lg, progress_bar=False)
    return {"result": res}


def r_td3(which, seed, lg):
    from rl_blox.algorithm.td3 import create_td3_state, train_td3
    from rl_blox.blox.replay_buffer import LAP, ReplayBuffer
    env = pendulum(seed, stats=(which == "td3_lap"))
    st = create_td3_state(env, seed=INIT, **SMALL)
    env = seed_env(env, seed)
    kw = dict(seed=seed, total_timesteps=60, batch_size=8, learning_starts=10, policy_delay=2, logger=lg, progress_bar=False)
    if which == "td3":
        res = train_td3(env, st.policy, st.policy_optimizer, st.q, st.q_optimizer, replay_buffer=ReplayBuffer(200), **kw)
    else:
        from rl_blox.algorithm.td3_lap import train_td3_lap
        res = train_td3_lap(env, st.policy, st.policy_optimizer, st.q, st.q_optimizer, replay_buffer=LAP(200), **kw)
    return {"result": res}


def r_sac(seed, lg):
    from rl_blox.algorithm.sac import create_sac_state, train_sac
    from rl_blox.blox.replay_buffer import ReplayBuffer
    env = pendulum(seed)
    st = create_sac_state(env, seed=INIT, **SMALL)
    env = seed_env(env, seed)
    res = train_sac(env, st.policy, st.policy_optimizer, st.q, st.q_optimizer, seed=seed, total_timesteps=60,
                    batch_size=8, learning_starts=10, replay_buffer=ReplayBuffer(200), logger=lg, progress_bar=False)
    return {"result": res}


def r_td7(seed, lg):
    from rl_blox.algorithm.td7 import create_td7_state, train_td7
    from rl_blox.blox.replay_buffer import LAP
    env = pendulum(seed, steps=12)
    st = create_td7_state(env, seed=INIT, n_embedding_dimensions=8, state_embedding_hidden_nodes=[8],
                          state_action_embedding_hidden_nodes=[8], policy_sa_encoding_nodes=8, policy_hidden_nodes=[8],
                          q_sa_encoding_nodes=8, q_hidden_nodes=[8])
    env = seed_env(env, seed)
    res = train_td7(env, embedding=st.embedding, embedding_optimizer=st.embedding_optimizer, actor=st.actor,
                    actor_optimizer=st.actor_optimizer, critic=st.critic, critic_optimizer=st.critic_optimizer,
                    seed=seed, total_timesteps=72, batch_size=8, learning_starts=12, target_delay=5,
                    max_episodes_when_checkpointing=2, steps_before_checkpointing=30, replay_buffer=LAP(200),
                    logger=lg, progress_bar=False)
    return {"result": res}


def r_mrq(seed, lg):
    from rl_blox.algorithm.mrq import create_mrq_state, train_mrq
    from rl_blox.blox.replay_buffer import SubtrajectoryReplayBufferPER
    env = pendulum(seed, steps=15)
    st = create_mrq_state(env, seed=INIT, policy_hidden_nodes=[8], q_hidden_nodes=[8], encoder_n_bins=9,
                          encoder_zs_dim=8, encoder_za_dim=4, encoder_zsa_dim=8, encoder_hidden_nodes=[8])
    env = seed_env(env, seed)
    res = train_mrq(env, st.policy_with_encoder, st.encoder_optimizer, st.policy_optimizer, st.q, st.q_optimizer,
                    st.the_bins, seed=seed, total_timesteps=60, batch_size=8, learning_starts=20, target_delay=5,
                    encoder_horizon=2, q_horizon=2, replay_buffer=SubtrajectoryReplayBufferPER(300, horizon=2),
                    logger=lg, progress_bar=False)
    return {"result": res}


def r_pets(seed, lg):
    from rl_blox.algorithm.pets import create_pets_state, train_pets
    from rl_blox.algorithm.pets_reward_models import pendulum_reward
    from rl_blox.blox.replay_buffer import ReplayBuffer
    env = pendulum(seed, steps=15, stats=True)
    dyn = create_pets_state(env, seed=INIT, n_ensemble=2, hidden_nodes=[8], batch_size=8)
    env = seed_env(env, seed)
    res = train_pets(env, pendulum_reward, dyn, plan_horizon=3, n_particles=4, n_samples=40, n_opt_iter=2, seed=seed,
                     total_timesteps=30, learning_starts=12, learning_starts_gradient_steps=2, n_steps_per_iteration=8,
                     gradient_steps=1, replay_buffer=ReplayBuffer(100), logger=lg, progress_bar=False)
    return {"result": res, "dynamics_model": dyn.model, "dynamics_optimizer": dyn.optimizer}


def pg_state(env, seed):
    from rl_blox.algorithm.reinforce import create_policy_gradient_continuous_state
    return create_policy_gradient_continuous_state(env, policy_shared_head=True, policy_hidden_nodes=[8],
                                                   policy_learning_rate=3e-3, value_network_hidden_nodes=[8],
                                                   value_network_learning_rate=1e-2, seed=INIT)


def r_reinforce(which, seed, lg):
    env = make_env("InvertedPendulum-v5", seed)
    st = pg_state(env, seed)
    env = seed_env(env, seed)
    if which == "reinforce":
        from rl_blox.algorithm.reinforce import train_reinforce
        res = train_reinforce(env, st.policy, st.policy_optimizer, st.value_function, st.value_function_optimizer,
                              seed=seed, total_timesteps=60, steps_per_update=20, gamma=0.99, logger=lg, progress_bar=False)
    else:
        from rl_blox.algorithm.actor_critic import train_ac
        res = train_ac(env, st.policy, st.policy_optimizer, st.value_function, st.value_function_optimizer,
                       seed=seed, total_timesteps=60, steps_per_update=20, gamma=0.99, logger=lg, progress_bar=False)
    return {"result": res}


def r_a2c(seed, lg):
    from rl_blox.algorithm.a2c import train_a2c
    base = gym.make("InvertedPendulum-v5")
    envs = gym.vector.SyncVectorEnv([lambda: gym.make("InvertedPendulum-v5") for _ in range(2)])
    envs = gym.wrappers.vector.RecordEpisodeStatistics(envs)
    envs.reset(seed=seed)
    envs.action_space.seed(seed)
    seed_env(base, seed)
    st = pg_state(base, seed)
    res = train_a2c(envs, st.policy, st.policy_optimizer, st.value_function, st.value_function_optimizer, seed=seed,
                    total_timesteps=60, steps_per_update=5, log_frequency=None, logger=lg, progress_bar=False)
    return {"result": res}


def r_ppo(seed, lg):
    from rl_blox.algorithm.ppo import train_ppo
    from rl_blox.blox.function_approximator.policy_head import SoftmaxPolicy
    envs = gym.make_vec("CartPole-v1", num_envs=2, vectorization_mode="sync",
                        vector_kwargs={"autoreset_mode": gym.vector.AutoresetMode.SAME_STEP})
    envs.reset(seed=seed)
    envs.action_space.seed(seed)
    feats, acts = envs.observation_space.shape[1], int(envs.single_action_space.n)
    actor = SoftmaxPolicy(mlp(feats, acts, [10], INIT))
    critic = mlp(feats, 1, [10], INIT + 1000)
    oa = nnx.Optimizer(actor, optax.adam(0.003), wrt=nnx.Param)
    oc = nnx.Optimizer(critic, optax.adam(0.003), wrt=nnx.Param)
    res = train_ppo(envs, actor, critic, oa, oc, iterations=3, epochs=1, batch_size=16, seed=seed, logger=lg, progress_bar=False)
    return {"actor": res[0], "critic": res[1], "optimizer_actor": res[2], "optimizer_critic": res[3]}


def r_cmaes(seed, lg):
    from rl_blox.algorithm.cmaes import train_cmaes
    from rl_blox.blox.function_approximator.policy_head import DeterministicTanhPolicy
    env = pendulum(seed, steps=10)
    net = mlp(env.observation_space.shape[0], env.action_space.shape[0], [4], INIT)
    policy = DeterministicTanhPolicy(net, env.action_space)
    res = train_cmaes(env, policy, total_episodes=8, seed=seed, variance=0.3, n_samples_per_update=4, active=False,
                      logger=lg, progress_bar=False)
    return {"result": res}


def task_set(seed, steps=10):
    from rl_blox.blox.multitask import DiscreteTaskSet

    def set_context(env, context):
        env.unwrapped.g = context[0]

    base = pendulum(seed, steps=steps)
    contexts = np.linspace(2, 14, 4)[:, np.newaxis]
    return DiscreteTaskSet(base, set_context, contexts, context_aware=True)


def r_uts(seed, lg):
    from rl_blox.algorithm.sac import EntropyControl, create_sac_state, train_sac
    from rl_blox.algorithm.uniform_task_sampling import train_uts
    from rl_blox.blox.replay_buffer import ReplayBuffer
    ts = task_set(seed)
    env = ts.get_task(0)
    st = create_sac_state(env, seed=INIT, **SMALL)
    seed_env(ts.base_env, seed)
    ec = EntropyControl(env, 0.2, True, 1e-3)
    rb = ReplayBuffer(300)
    q_target = nnx.clone(st.q)
    train_st = partial(train_sac, policy=st.policy, policy_optimizer=st.policy_optimizer, q=st.q, q_optimizer=st.q_optimizer,
                       entropy_control=ec, batch_size=8, replay_buffer=rb, q_target=q_target)
    res = train_uts(ts, train_st, total_timesteps=60, episodes_per_task=1, seed=seed, exploring_starts=15,
                    progress_bar=False, logger=lg)
    return {"result": res, "replay_buffer": rb, "q_target": q_target, "alpha": ec}


def mt_ddpg(seed, n_steps):
    from rl_blox.algorithm.ddpg import create_ddpg_state, train_ddpg
    from rl_blox.blox.replay_buffer import MultiTaskReplayBuffer, ReplayBuffer
    ts = task_set(seed)
    env = ts.get_task(0)
    st = create_ddpg_state(env, seed=INIT, **SMALL)
    seed_env(ts.base_env, seed)
    pt, qt = nnx.clone(st.policy), nnx.clone(st.q)
    rb = MultiTaskReplayBuffer(ReplayBuffer(buffer_size=300), len(ts))
    train_st = partial(train_ddpg, policy=st.policy, policy_optimizer=st.policy_optimizer, q=st.q, q_optimizer=st.q_optimizer,
                       policy_target=pt, q_target=qt, batch_size=8)
    return ts, train_st, rb, {"policy": st.policy, "q": st.q, "policy_target": pt, "q_target": qt,
                              "policy_optimizer": st.policy_optimizer, "q_optimizer": st.q_optimizer}


def r_smt(seed, lg):
    from rl_blox.algorithm.smt import train_smt
    ts, train_st, rb, mods = mt_ddpg(seed, 80)
    res = train_smt(ts, train_st, rb, b1=50, b2=30, solved_threshold=-1.0, unsolvable_threshold=-5.0, scheduling_interval=1,
                    kappa=0.3, K=2, n_average=2, learning_starts=15, seed=seed, logger=lg, progress_bar=False)
    return {"result": res, "replay_buffer": rb, **mods}


def r_amt(seed, lg):
    from rl_blox.algorithm.active_mt import train_active_mt
    ts, train_st, rb, mods = mt_ddpg(seed, 80)
    res = train_active_mt(ts, train_st, rb, r_max=0.0, ducb_gamma=0.95, xi=0.002, task_selector="Monotonic Progress",
                          total_timesteps=90, scheduling_interval=1, learning_starts=15, seed=seed, logger=lg, progress_bar=False)
    return {"result": res, "replay_buffer": rb, **mods}


ROUTINES = {
    "train_q_learning": partial(r_tabular, "q_learning"),
    "train_sarsa": partial(r_tabular, "sarsa"),
    "train_double_q_learning": partial(r_tabular, "double_q_learning"),
    "train_monte_carlo": partial(r_tabular, "monte_carlo"),
    "train_dynaq": partial(r_tabular, "dynaq"),
    "train_dqn": partial(r_dqn_family, "dqn"),
    "train_nature_dqn": partial(r_dqn_family, "nature_dqn"),
    "train_ddqn": partial(r_dqn_family, "ddqn"),
    "train_ddqn_per": partial(r_dqn_family, "per"),
    "train_ddpg": r_ddpg,
    "train_td3": partial(r_td3, "td3"),
    "train_td3_lap": partial(r_td3, "td3_lap"),
    "train_sac": r_sac,
    "train_td7": r_td7,
    "train_mrq": r_mrq,
    "train_pets": r_pets,
    "train_reinforce": partial(r_reinforce, "reinforce"),
    "train_ac": partial(r_reinforce, "ac"),
    "train_a2c": r_a2c,
    "train_ppo": r_ppo,
    "train_cmaes": r_cmaes,
    "train_uts": r_uts,
    "train_smt": r_smt,
    "train_active_mt": r_amt,
}


def main():
    t0 = _real_time()
    if os.environ.get("C09_PRIOR_RUN") == "1":      # an earlier call in this process (other seed, result discarded)
        lg0 = MemoryLogger()
        lg0.define_experiment(env_name="c09-prior", algorithm_name=ROUTINE, hparams=None)
        ROUTINES[ROUTINE](SEED + 7, lg0)
        NAN_LEAVES[0] = 0
    lg = MemoryLogger()
    lg.define_experiment(env_name="c09", algorithm_name=ROUTINE, hparams=None)
    objs = ROUTINES[ROUTINE](SEED, lg)
    out = {}
    for name, o in objs.items():
        if name.startswith("param:"):  # tabular routines: the returned arrays ARE the learned parameters
            dig(o, name[6:], out, "param")
        else:
            dig(o, name, out, "counter")
    dig_logger(lg, out)
    n_updates = sum(len(v) for k, v in lg.stats.items() if "loss" in k.lower())
    meta = {"routine": ROUTINE, "seed": SEED, "init_seed": INIT, "ambient": AMBIENT, "hashseed": os.environ.get("PYTHONHASHSEED"),
            "xla_flags": os.environ.get("XLA_FLAGS"), "wall_s": round(_real_time() - t0, 2),
            "logged_keys": list(lg.stats.keys()), "loss_records": n_updates, "nonfinite_leaves": NAN_LEAVES[0],
            "np_global_probe": float(np.random.get_state()[1][0]), "time_probe": _time.time()}
    tmp = OUT + ".tmp"
    with open(tmp, "w") as f:
        json.dump({"meta": meta, "digest": out}, f, indent=0)
    os.replace(tmp, OUT)


if __name__ == "__main__":
    main()
