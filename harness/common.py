"""Shared machinery of the rl-blox verification checks (see DESIGN.md §1.6).

Every check is `harness/cXX.py` exposing `main(check)`; `bin/check` runs it
through `run_check`. A check
  1. runs the proof step (full Coq build + `coqc Props/<ID>.v`, Print Assumptions),
  2. evaluates the extracted model on generated cases (`Check.model_eval`),
  3. runs the implementation (in-process, /repo on sys.path) on the same cases,
  4. reports disagreements (`Check.disagree`) and spec failures (`Check.fail`),
  5. `Check.finish()` prints the verdict, writes evidence and replay files.
"""
from __future__ import annotations

import concurrent.futures as cf
import fractions
import json
import os
import re
import shutil
import subprocess
import sys
import time

V = os.environ.get("VERIF_ROOT", "/verif")
REPO = os.environ.get("VERIF_REPO", "/repo")   # implementation under test
BUILD = f"{V}/build"
FORBIDDEN = re.compile(
    r"\b(Admitted|admit|Axiom|Axioms|Parameter|Parameters|Conjecture|Conjectures|"
    r"Admit Obligations|Unset Guard Checking|bypass_check|type-in-type|"
    r"impredicative-set|Unset Universe Checking|Unset Positivity Checking)\b"
)
SECTION_ONLY = re.compile(r"^\s*(Hypothesis|Hypotheses|Variable|Variables)\b")


def lint_coq(body: str):
    """Forbidden declarations: axioms & co anywhere; Variable/Hypothesis outside a section."""
    hits = [m.group(0) for m in FORBIDDEN.finditer(body)]
    depth = 0
    for line in body.splitlines():
        if re.match(r"^\s*Section\s+\w+\s*\.", line):
            depth += 1
        elif re.match(r"^\s*End\s+\w+\s*\.", line) and depth > 0:
            depth -= 1
        elif depth == 0 and SECTION_ONLY.match(line):
            hits.append(line.strip()[:40] + " (outside a section)")
    return hits


def _big_stack():
    import resource
    try:
        resource.setrlimit(resource.RLIMIT_STACK, (resource.RLIM_INFINITY, resource.RLIM_INFINITY))
    except (ValueError, OSError):
        pass


def _strip_comments(src: str) -> str:
    out, depth, i = [], 0, 0
    while i < len(src):
        if src.startswith("(*", i):
            depth += 1
            i += 2
        elif src.startswith("*)", i) and depth:
            depth -= 1
            i += 2
        else:
            if depth == 0:
                out.append(src[i])
            i += 1
    return "".join(out)


class NonFinite(str):
    """nan / inf / -inf returned by the implementation: equal to no rational, ordered above nothing, printable.
    Arithmetic with it gives it back, comparisons are False, so a spec oracle reports a concrete mismatch instead of crashing."""

    def _same(self, *_):
        return self
    __add__ = __radd__ = __sub__ = __rsub__ = __mul__ = __rmul__ = __truediv__ = __rtruediv__ = __neg__ = __abs__ = _same

    def _false(self, *_):
        return False
    __lt__ = __le__ = __gt__ = __ge__ = _false

    def __eq__(self, other):
        return False

    def __ne__(self, other):
        return True
    __hash__ = str.__hash__


def frac(x):
    """Exact rational value of a float / int / numpy scalar (NonFinite for nan / inf)."""
    if isinstance(x, int):
        return fractions.Fraction(x)
    v = float(x)
    if v != v or v in (float("inf"), float("-inf")):
        return NonFinite(repr(v))
    return fractions.Fraction(v)


def qlit(x) -> str:
    """OCaml expression for a Coq Q literal."""
    f = x if isinstance(x, fractions.Fraction) else frac(x)
    return f'(q "{f.numerator}/{f.denominator}")'


def flit(x) -> str:
    """OCaml float literal (parenthesised so that negative values are safe as arguments)."""
    v = float(x)
    if v != v:
        return "nan"
    if v in (float("inf"), float("-inf")):
        return "infinity" if v > 0 else "neg_infinity"
    return f"({v!r})"


def zlit(i) -> str:
    return f'(z "{int(i)}")'


def nlit(i) -> str:
    return f"(nat {int(i)})"


def blit(b) -> str:
    return "true" if b else "false"


def olit(x, f) -> str:
    return "None" if x is None else f"(Some {f(x)})"


def llit(xs, f) -> str:
    return "[" + "; ".join(f(x) for x in xs) + "]"


def parse_q(s) -> fractions.Fraction:
    return fractions.Fraction(s)


def parse_f(s) -> float:
    return float.fromhex(s)


class Check:
    def __init__(self, pid: str, tier: str, seed: int):
        self.pid = pid
        self.tier = tier
        self.seed = seed
        self.t0 = time.time()
        self.concrete = []  # (key, what, replay dict)
        self.broken = []  # (name, detail) — obligation / correspondence that no longer checks
        self.coverage = {}
        self.samples = []
        self.theorems = []
        self.axioms = {}
        self.assumptions = []
        self.trusted = []
        self.counts = {}
        self.seen_nontrivial = set()
        self.evaluations = 0
        self.rundir = f"{BUILD}/run-{os.getpid()}"
        os.makedirs(self.rundir, exist_ok=True)
        self.known = json.load(open(f"{V}/known_findings.json"))
        self._chunk = 0
        self.proof_ok = False
        self.checker_cmd = ""

    # ------------------------------------------------------------------ counts
    def count(self, name, n=1):
        self.counts[name] = self.counts.get(name, 0) + n

    def case(self, fingerprint=None, nontrivial=True):
        """Register one explored case (fingerprint: hashable summary)."""
        self.evaluations += 1
        if nontrivial and fingerprint is not None:
            self.seen_nontrivial.add(fingerprint)

    def sample(self, obj, limit=4):
        if len(self.samples) < limit:
            self.samples.append(obj)

    # ------------------------------------------------------------------ proof
    def proof_step(self, props_file=None):
        props_file = props_file or f"Props/{self.pid}.v"
        t = time.time()
        rc = subprocess.call([f"{V}/bin/build"])
        self.coverage["coq_build_rc"] = rc
        src_path = f"{V}/coq/{props_file}"
        src = open(src_path).read()
        self.theorems = re.findall(r"^\s*Theorem\s+(\w+)", _strip_comments(src), re.M)
        # lint the whole development
        hits = []
        for root, _, files in os.walk(f"{V}/coq"):
            for fn in files:
                if fn.endswith(".v"):
                    body = _strip_comments(open(os.path.join(root, fn)).read())
                    for h in lint_coq(body):
                        hits.append(f"{os.path.relpath(os.path.join(root, fn), V)}:{h}")
        self.coverage["lint_hits"] = hits
        cmd = ["timeout", "600", "coqc", "-Q", ".", "RLV", props_file]
        self.checker_cmd = f"cd {V}/coq && make (full .vo build) && " + " ".join(cmd[2:])
        p = subprocess.run(cmd, cwd=f"{V}/coq", capture_output=True, text=True)
        out = p.stdout + p.stderr
        vo = src_path[:-2] + ".vo"
        ok = p.returncode == 0 and os.path.exists(vo) and not hits
        # parse Print Assumptions blocks
        blocks = re.split(r"\n(?=Closed under the global context|Axioms:)", "\n" + out)
        axioms = set()
        closed = 0
        for b in blocks:
            if b.startswith("Closed under"):
                closed += 1
            elif b.startswith("Axioms:"):
                for m in re.finditer(r"^([A-Za-z_][\w']*(?:\.[\w']+)+)", b, re.M):
                    axioms.add(m.group(1))
        self.axioms = sorted(axioms)
        self.coverage["theorems"] = self.theorems
        self.coverage["theorems_closed_under_global_context"] = closed
        self.coverage["axioms_reported_by_Print_Assumptions"] = self.axioms
        self.coverage["proof_wall_s"] = round(time.time() - t, 2)
        self.proof_ok = ok
        if not ok:
            detail = (out[-1500:] if p.returncode else "") + (f" lint:{hits}" if hits else "")
            if rc:
                detail += "\nbuild log tail:\n" + open(f"{BUILD}/coq_build.log").read()[-1500:]
            self.broken.append((f"proof:{props_file}", detail))
        return ok

    # ------------------------------------------------------------------ model
    def model_eval(self, exprs, per_file=250, jobs=16):
        """Evaluate OCaml expressions (strings producing a JSON line via Prelude
        printers) against the extracted model; returns parsed JSON values."""
        if not exprs:
            return []
        chunks = [exprs[i:i + per_file] for i in range(0, len(exprs), per_file)]
        base = self._chunk
        self._chunk += len(chunks)

        def run(ci):
            name = f"cases_{base + ci}"
            path = f"{self.rundir}/{name}.ml"
            with open(path, "w") as f:
                f.write("open Prelude\nmodule M = Model\n")
                for e in chunks[ci]:
                    f.write(f"let () = out (try {e} with Failure m -> \"{{\\\"ocaml_failure\\\":\\\"\" ^ m ^ \"\\\"}}\")\n")
            exe = f"{self.rundir}/{name}.exe"
            c = subprocess.run(
                ["bash", "-c", 'ulimit -s unlimited 2>/dev/null; exec "$@"', "sh",
                 "ocamlfind", "ocamlopt", "-package", "zarith", "-linkpkg", "-w", "-a",
                 "-I", f"{BUILD}/ocaml", f"{BUILD}/ocaml/model.cmx", f"{BUILD}/ocaml/prelude.cmx", path, "-o", exe],
                capture_output=True, text=True, cwd=self.rundir)
            if c.returncode:
                raise RuntimeError("ocaml compile failed: " + c.stderr[-2000:])
            r = subprocess.run([exe], capture_output=True, text=True)
            if r.returncode:
                raise RuntimeError("model run failed: " + r.stderr[-2000:])
            lines = [l for l in r.stdout.splitlines() if l.strip()]
            for ext in (".ml", ".exe", ".cmx", ".cmi", ".o"):
                try:
                    os.remove(f"{self.rundir}/{name}{ext}")
                except OSError:
                    pass
            return [json.loads(l) for l in lines]

        with cf.ThreadPoolExecutor(max_workers=jobs) as ex:
            res = list(ex.map(run, range(len(chunks))))
        out = [x for r in res for x in r]
        if len(out) != len(exprs):
            raise RuntimeError(f"model produced {len(out)} results for {len(exprs)} cases")
        return out

    # ------------------------------------------------------------------ verdict
    def fail(self, key, what, replay):
        """Concrete failure of the property's spec on the implementation."""
        self.concrete.append((key, what, replay))

    def impl_call(self, key, case, fn, *a, **kw):
        """Call the implementation on an input inside the property's domain; an exception
        is a concrete failure (no result where the property promises one)."""
        try:
            return True, fn(*a, **kw)
        except Exception as e:  # noqa: BLE001
            import traceback
            self.fail(key, f"implementation raised {type(e).__name__} on a valid input",
                      {"case": case, "exception": repr(e)[:300], "traceback": traceback.format_exc()[-1200:]})
            return False, None

    def disagree(self, name, detail):
        """Model and implementation differ (correspondence broken)."""
        self.broken.append((f"correspondence:{name}", detail))

    def _write_replay(self, tag, obj):
        d = f"{BUILD}/replays"
        os.makedirs(d, exist_ok=True)
        safe = re.sub(r"[^A-Za-z0-9_.-]", "_", tag)[:80]
        path = f"{d}/{self.pid}-{safe}-seed{self.seed}.json"
        with open(path, "w") as f:
            json.dump(obj, f, indent=1, default=str)
        return path

    def finish(self, level="proof", rule="", assumptions=None, extra=None):
        open_keys = {e["key"]: e for e in self.known.get("open", []) if e["property"] == self.pid}
        violations = 0
        lines = []
        seen_known = set()
        unlisted = {}
        for key, what, replay in self.concrete:
            if key in open_keys:
                if key not in seen_known:
                    seen_known.add(key)
                    lines.append(f"KNOWN-FINDING: property={self.pid} {key}: {open_keys[key]['what']}")
            else:
                unlisted.setdefault(key, (what, replay))
        for key, (what, replay) in unlisted.items():
            path = self._write_replay(key, {"property": self.pid, "finding_key": key, "what": what,
                                            "seed": self.seed, "tier": self.tier, "replay": replay})
            lines.append(f"VIOLATION property={self.pid} replay={path}")
            violations += 1
        if self.broken and not unlisted:
            names = [n for n, _ in self.broken]
            path = self._write_replay("broken", {
                "property": self.pid, "seed": self.seed, "tier": self.tier,
                "no_longer_checks": names,
                "details": [{"name": n, "detail": d} for n, d in self.broken[:20]],
                "note": "no concrete failing input of the property's spec was found; the named theorem(s) / "
                        "correspondence(s) no longer check, so the property is no longer shown to hold"})
            lines.append(f"VIOLATION property={self.pid} replay={path} no-failing-input-found")
            violations += 1
        elif self.broken:
            self.coverage["also_broken"] = [n for n, _ in self.broken][:20]
        cov = dict(self.coverage)
        nthm = len(self.theorems)
        cov.update({
            "obligations": max(nthm, 1),
            "discharged": nthm if self.proof_ok else 0,
            "checker_cmd": self.checker_cmd or "none",
            "trusted_base": self.trusted + [
                "Coq 8.16.1 kernel (coqc, full .vo build; vm_compute used only for Examples/refutation witnesses; no native_compute)",
                "axioms (Print Assumptions): " + (", ".join(self.axioms) if self.axioms else "none — closed under the global context"),
                "extraction: ExtrOcamlBasic directives only (bool, option, list, prod, unit, sumbool, sumor); no Extract Constant/Inductive of our own",
                "OCaml glue ocaml/prelude.ml (literal parsing/printing via Zarith), generated case files, Python harness harness/*.py",
            ],
            "evaluations": max(self.evaluations, 1),
            "distinct_nontrivial": len(self.seen_nontrivial),
            "rule": rule,
            "samples": self.samples or [{"note": "no sample recorded"}],
            "counts": self.counts,
            "known_findings_seen": sorted(seen_known),
        })
        if extra:
            cov.update(extra)
        if self.proof_ok is False and nthm:
            cov["discharged"] = 0
        ev = {
            "property_id": self.pid, "tier": self.tier, "seed": self.seed, "level": level,
            "coverage": cov, "assumptions": assumptions or self.assumptions,
            "wall_s": round(time.time() - self.t0, 2), "violations": violations,
        }
        if cov["discharged"] == 0:
            # schema needs discharged >= 1 for a proof claim; a broken proof step is a violation anyway
            cov["discharged_note"] = "proof step failed on this run"
            cov["discharged"] = 0
        evdir = os.environ.get("VERIF_EVIDENCE_DIR", f"{V}/evidence")     # redirected only by the seeded-change evaluation (harness/seed_eval.py)
        os.makedirs(evdir, exist_ok=True)
        tmp = f"{evdir}/.{self.pid}.{os.getpid()}.tmp"
        with open(tmp, "w") as f:
            json.dump(ev, f, indent=1, default=str)
        os.replace(tmp, f"{evdir}/{self.pid}.json")
        shutil.rmtree(self.rundir, ignore_errors=True)
        for l in lines:
            print(l)
        print(f"[{self.pid}] tier={self.tier} seed={self.seed} evaluations={self.evaluations} "
              f"distinct_nontrivial={len(self.seen_nontrivial)} theorems={nthm} proof_ok={self.proof_ok} "
              f"violations={violations} wall={ev['wall_s']}s")
        sys.stdout.flush()
        return 1 if violations else 0


def setup_impl_path():
    """Make /repo's current working tree the imported rl_blox."""
    if REPO not in sys.path:
        sys.path.insert(0, REPO)
    os.environ.setdefault("JAX_PLATFORMS", "cpu")
    os.environ.setdefault("XLA_FLAGS", "--xla_cpu_multi_thread_eigen=false intra_op_parallelism_threads=1")


def run_check(pid, tier):
    import importlib
    seed = int(os.environ.get("VERIF_SEED", "0"))
    setup_impl_path()
    chk = Check(pid, tier, seed)
    mod = importlib.import_module(f"{pid.lower()}")
    try:
        return mod.main(chk)
    except Exception as e:  # harness crash = broken correspondence (fail closed)
        import traceback
        chk.broken.append((f"harness-exception:{type(e).__name__}", traceback.format_exc()[-3000:]))
        return chk.finish(rule="harness raised before completion")
