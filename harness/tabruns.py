"""Runs the tabular training routines on the scripted discrete environment (stubs.TabularEnv) and
records the arguments of every table update, so that the loop-level properties (C01 kept
transitions, C11 budget / episode discipline) can be decided for them as well."""
import importlib

import numpy as np

from stubs import StepAfterDone, TabularEnv

ROUTINES = ["q_learning", "sarsa", "double_q_learning", "monte_carlo", "dynaq"]


def run(name, ns, na, script, total, seed=0, epsilon=0.5):
    import jax.numpy as jnp
    mod = importlib.import_module(f"rl_blox.algorithm.{name}")
    env = TabularEnv(ns, na, script, seed=seed)
    kept, patched = [], []

    tables = []       # (number of environment steps so far, table(s) returned by an update) - the routine's current estimate over time

    def patch(attr, conv):
        orig = getattr(mod, attr)

        def w(*a, **k):
            kept.append(conv(*a, **k))
            out = orig(*a, **k)
            n_steps = sum(1 for e in env.log if e[0] == "step")
            if attr in ("_update_policy", "_dql_update", "q_learning_update"):
                tables.append((n_steps, attr, np.asarray(out, dtype=float), conv(*a, **k)))
            elif attr == "update":
                tables.append((n_steps, attr, np.asarray(out[0], dtype=float), None))
            elif attr == "model_update":
                tables.append((n_steps, attr, (np.asarray(out.transition, dtype=float), np.asarray(out.reward, dtype=float)), conv(*a, **k)))
            return out
        setattr(mod, attr, w)
        patched.append((attr, orig))
    res = {"name": name, "raised": None}
    queries = []      # (environment steps so far, observation the behaviour policy was asked about, action it returned)
    if hasattr(mod, "epsilon_greedy_policy"):
        orig_pol = mod.epsilon_greedy_policy

        def pol(q_table, observation, *a, **k):
            out = orig_pol(q_table, observation, *a, **k)
            queries.append((sum(1 for e in env.log if e[0] == "step"), int(observation), int(out)))
            return out
        mod.epsilon_greedy_policy = pol
        patched.append(("epsilon_greedy_policy", orig_pol))
    try:
        q = jnp.zeros((ns, na))
        if name == "q_learning":
            patch("_update_policy", lambda q_, o, a, r, o2, a2, gamma, term, lr: ("transition", int(o), int(a), float(r), int(o2), bool(term)))
            mod.train_q_learning(env, q, learning_rate=0.5, epsilon=epsilon, gamma=0.5, total_timesteps=total, seed=seed, progress_bar=False)
        elif name == "sarsa":
            patch("_update_policy", lambda q_, o, a, r, o2, a2, gamma, lr, term: ("transition", int(o), int(a), float(r), int(o2), bool(term)))
            mod.train_sarsa(env, q, learning_rate=0.5, epsilon=epsilon, gamma=0.5, total_timesteps=total, seed=seed, progress_bar=False)
        elif name == "double_q_learning":
            patch("_dql_update", lambda key, q1, q2, o, a, r, o2, gamma, lr, term: ("transition", int(o), int(a), float(r), int(o2), bool(term)))
            mod.train_double_q_learning(env, q, jnp.zeros((ns, na)), learning_rate=0.5, epsilon=epsilon, gamma=0.5, total_timesteps=total, seed=seed, progress_bar=False)
        elif name == "monte_carlo":
            patch("update", lambda q_, nv, rew, obs, act, gamma: ("episode", np.asarray(obs).tolist(), np.asarray(act).tolist(), np.asarray(rew, dtype=float).tolist()))
            mod.train_monte_carlo(env, q, total_timesteps=total, gamma=0.5, epsilon=epsilon, seed=seed, progress_bar=False)
        else:
            patch("counter_update", lambda counter, o, a, r, o2: ("transition", int(o), int(a), float(r), int(o2), None))
            # the rewards the model keeps for (s, a, s'), as they are when the model is refreshed
            patch("model_update", lambda model, counter, o, a, o2: ("history", int(o), int(a), int(o2), [float(x) for x in counter.reward_history[int(o)][int(a)][int(o2)]],
                                                                   [int(c) for c in counter.transition_counter[int(o)][int(a)]]))
            patch("q_learning_update", lambda o, a, r, o2, gamma, lr, q_: ("q_update", int(o), int(a), float(r), int(o2)))
            mod.train_dynaq(env, q, gamma=0.5, learning_rate=0.5, epsilon=epsilon, n_planning_steps=2, buffer_size=5, total_timesteps=total, seed=seed, progress_bar=False)
    except StepAfterDone as e:
        res["raised"] = "StepAfterDone: " + str(e)
    finally:
        for attr, orig in patched:
            setattr(mod, attr, orig)
    res.update({"log": env.log, "kept": kept, "env": env, "tables": tables, "n_states": ns, "n_actions": na, "queries": queries})
    return res


def check_kept(res):
    """C01 for the tabular loops. Returns None or (what, detail)."""
    steps = [e for e in res["log"] if e[0] == "step"]
    name = res["name"]
    if name == "monte_carlo":
        eps, cur = [], []
        for e in steps:
            cur.append(e)
            if e[5] or e[6]:
                eps.append(cur)
                cur = []
        got = [k for k in res["kept"] if k[0] == "episode"]
        if len(got) != len(eps):
            return "number of episode records differs from the number of finished episodes", {"records": len(got), "finished_episodes": len(eps)}
        for i, (g, ep) in enumerate(zip(got, eps)):
            exp = ([e[1] for e in ep], [e[2] for e in ep], [e[3] for e in ep])
            if (g[1], g[2], g[3]) != exp:
                return "an episode record differs from the environment's steps of that episode", {"episode": i, "record": g[1:], "environment": exp}
        return None
    got = [k for k in res["kept"] if k[0] == "transition"]
    if len(got) != len(steps):
        return "number of kept transitions differs from the number of environment steps", {"kept": len(got), "steps": len(steps)}
    for i, (g, e) in enumerate(zip(got, steps)):
        exp = (e[1], e[2], e[3], e[4], e[5])
        if g[1:5] != exp[:4] or (g[5] is not None and g[5] != exp[4]):
            return "a kept transition differs from the environment's step", {"index": i, "kept": g[1:], "environment": exp}
    if name == "dynaq":     # the record kept per (s, a, s'): exactly the rewards / counts of the environment steps with that key, in order
        seen = {}
        hist = [k for k in res["kept"] if k[0] == "history"]
        for e, h in zip(steps, hist):
            seen.setdefault((e[1], e[2], e[4]), []).append(e[3])
            counts = [len(seen.get((e[1], e[2], s2), [])) for s2 in range(len(h[5]))]
            if h[1:4] != (e[1], e[2], e[4]) or h[4] != seen[(e[1], e[2], e[4])] or h[5] != counts:
                return "Dyna-Q's record of (s, a, s') differs from the environment's steps with that key", {"key": [e[1], e[2], e[4]], "kept_rewards": h[4],
                                                                                                        "environment_rewards": seen[(e[1], e[2], e[4])], "kept_counts": h[5], "counts": counts}
    if name == "dynaq":     # the real-experience update is the first table update after each environment step
        qs = [k for k in res["kept"] if k[0] in ("q_update", "transition")]
        for i in range(len(qs) - 1):
            if qs[i + 1][0] == "transition" and (qs[i][0] != "q_update" or qs[i][1:5] != qs[i + 1][1:5]):
                return "Dyna-Q's direct update is not applied to the real transition", {"update": qs[i][1:], "transition": qs[i + 1][1:]}
    return None


def check_conditioned(res):
    """C01, last sentence, for the tabular loops: the action passed to environment step k is what the behaviour policy returned
    when it was asked, after step k-1 (or the reset), about the observation the environment returned last - at the start of an
    episode the reset observation, not the previous episode's final observation."""
    steps = [e for e in res["log"] if e[0] == "step"]
    if steps and not res["queries"]:
        return "HOOK", {"what": "epsilon_greedy_policy of the routine's module was never called although steps were executed: the observation device no longer "
                                "sees the behaviour policy (renamed / reached through another name?)"}
    for k, e in enumerate(steps):
        asked = [(o, a) for n, o, a in res["queries"] if n == k]
        if (e[1], e[2]) not in asked:
            boundary = k > 0 and (steps[k - 1][5] or steps[k - 1][6])
            return ("the action passed to the environment was not obtained from the behaviour policy at the current observation"
                    + (" (first step of a new episode)" if boundary else "")), \
                {"step": k, "current_observation": e[1], "action": e[2], "policy_queries_since_the_previous_step": asked,
                 "previous_step_final_observation": steps[k - 1][4] if k else None}
    return None


def conditioned_flags(res):
    """per executed step: was the action obtained from a behaviour-policy query at the current observation made since the previous step?"""
    steps = [e for e in res["log"] if e[0] == "step"]
    return [(e[1], e[2]) in [(o, a) for n, o, a in res["queries"] if n == k] for k, e in enumerate(steps)]


def check_greedy(res):
    """C13 for the tabular loops run with epsilon = 0: every executed action is a maximiser of the routine's current table at the
    current observation (q_learning, sarsa, monte_carlo; the table after the latest update made before that step)."""
    if res["name"] not in ("q_learning", "sarsa", "monte_carlo"):
        return None
    cur = np.zeros((res["n_states"], res["n_actions"]))
    upd = [(n, t) for n, attr, t, _ in res["tables"]]
    k, ui = 0, 0
    for e in res["log"]:
        if e[0] != "step":
            continue
        while ui < len(upd) and upd[ui][0] <= k:      # updates made after k environment steps precede step k
            cur = upd[ui][1]
            ui += 1
        s_, a_ = e[1], e[2]
        if cur[s_, a_] < cur[s_].max():
            return "an executed action is not a maximiser of the current table although epsilon is 0", {"step": k, "state": s_, "action": a_, "row": cur[s_].tolist()}
        k += 1
    return None


def check_dyna_model(res):
    """C14 for train_dynaq: after every environment step the learned model of the visited (s, a) equals the empirical successor
    frequencies, and the reward entry of (s, a, s') the mean observed reward, of the environment's own steps so far."""
    steps = [e for e in res["log"] if e[0] == "step"]
    models = [t for t in res["tables"] if t[1] == "model_update"]
    seen = {}
    for k, (e, m) in enumerate(zip(steps, models)):
        s_, a_, r_, s2 = e[1], e[2], e[3], e[4]
        seen.setdefault((s_, a_), []).append((s2, r_))
        T, Rw = m[2]
        n = len(seen[(s_, a_)])
        freq = np.array([sum(1 for x, _ in seen[(s_, a_)] if x == j) / n for j in range(T.shape[2])])
        mean_r = np.mean([r for x, r in seen[(s_, a_)] if x == s2])
        if not np.allclose(T[s_, a_], freq, atol=1e-6) or abs(Rw[s_, a_, s2] - mean_r) > 1e-5:
            return "the model learned during train_dynaq differs from the empirical successor frequencies / mean rewards of the environment's steps", \
                {"step": k, "state": s_, "action": a_, "model_row": T[s_, a_].tolist(), "empirical": freq.tolist(), "model_reward": float(Rw[s_, a_, s2]), "mean_reward": float(mean_r)}
    return None
