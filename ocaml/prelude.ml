(* Glue between generated case files and the extracted model (module Model).
   Zarith's Z/Q are used only for parsing / printing literals. *)
module M = Model

let rec pos_of (n : Z.t) : M.positive =
  if Z.equal n Z.one then M.XH
  else
    let h = pos_of (Z.shift_right n 1) in
    if Z.testbit n 0 then M.XI h else M.XO h

let z_of (n : Z.t) : M.z =
  if Z.sign n = 0 then M.Z0
  else if Z.sign n > 0 then M.Zpos (pos_of n)
  else M.Zneg (pos_of (Z.neg n))

let z s = z_of (Z.of_string s)
let zi i = z_of (Z.of_int i)

let rec of_pos = function
  | M.XH -> Z.one
  | M.XO p -> Z.shift_left (of_pos p) 1
  | M.XI p -> Z.succ (Z.shift_left (of_pos p) 1)

let of_z = function
  | M.Z0 -> Z.zero
  | M.Zpos p -> of_pos p
  | M.Zneg p -> Z.neg (of_pos p)

let rec nat i = if i <= 0 then M.O else M.S (nat (i - 1))
let rec of_nat = function M.O -> 0 | M.S n -> 1 + of_nat n

let q_of (r : Q.t) : M.q = { M.qnum = z_of (Q.num r); M.qden = pos_of (Q.den r) }
let q s = q_of (Q.of_string s)
let of_q (x : M.q) : Q.t = Q.make (of_z x.M.qnum) (of_pos x.M.qden)

(* exact float <-> rational *)
let q_of_float (f : float) : M.q = q_of (Q.of_float f)
let float_of_q (x : M.q) : float = Q.to_float (of_q x)

(* printers: one JSON value per line *)
let sz x = Z.to_string (of_z x)
let sq x = "\"" ^ Q.to_string (of_q x) ^ "\""
let sb b = if b then "true" else "false"
let sn n = string_of_int (of_nat n)
let sf (x : float) = "\"" ^ Printf.sprintf "%h" x ^ "\""
let sl f l = "[" ^ String.concat "," (List.map f l) ^ "]"
let so f = function None -> "null" | Some x -> f x
let sp f g (a, b) = "[" ^ f a ^ "," ^ g b ^ "]"
let st f g h ((a, b), c) = "[" ^ f a ^ "," ^ g b ^ "," ^ h c ^ "]"
let out s = print_string s; print_newline ()

(* ---- NumOps instances for the polymorphic L2 kernels ---- *)
let float_ops : float M.numOps = {
  M.nzero = 0.0; nunit = 1.0;
  nadd = ( +. ); nsub = ( -. ); nmul = ( *. ); ndiv = ( /. ); nneg = (fun x -> -. x);
  nleb = (fun a b -> a <= b); nofQ = float_of_q;
  nexp = exp; nln = log; ntanh = tanh; nsqrt = sqrt; npow = Float.pow }

let lift1 f x = q_of_float (f (float_of_q x))
let q_ops : M.q M.numOps = {
  M.nzero = q "0"; nunit = q "1";
  nadd = (fun a b -> M.qred (M.qplus a b)); nsub = (fun a b -> M.qred (M.qminus a b));
  nmul = (fun a b -> M.qred (M.qmult a b)); ndiv = (fun a b -> M.qred (M.qdiv a b));
  nneg = (fun a -> M.qopp a);
  nleb = M.qle_bool; nofQ = (fun x -> x);
  nexp = lift1 exp; nln = lift1 log; ntanh = lift1 tanh; nsqrt = lift1 sqrt;
  npow = (fun x a -> q_of_float (Float.pow (float_of_q x) (float_of_q a))) }

(* result / tensor printers *)
let sr f = function M.Ok a -> f a | M.Err -> "\"Err\""
let stensor f = function
  | M.T0 x -> "{\"t0\":" ^ f x ^ "}"
  | M.T1 l -> "{\"t1\":" ^ sl f l ^ "}"
  | M.T2 r -> "{\"t2\":" ^ sl (sl f) r ^ "}"
