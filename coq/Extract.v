(** Extraction of the executable models to OCaml (ExtrOcamlBasic directives only). *)
From Coq Require Extraction.
From Coq Require Import ExtrOcamlBasic.
From Coq Require Import ZArith QArith List.
From RLV Require Import Model.Logger.
Extraction Language OCaml.
Extraction "../build/ocaml/model.ml"
  (* base *) Nat.add Qred Qplus Qmult Qminus Qdiv Qle_bool Qeq_bool
  (* Logger *) mrun get_stat srun spec_get_stat list_run crun fired crossings.
