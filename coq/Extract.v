(** Extraction of the executable models to OCaml (ExtrOcamlBasic directives only). *)
From Coq Require Extraction.
From Coq Require Import ExtrOcamlBasic.
From Coq Require Import ZArith QArith List.
From RLV Require Import Model.Logger Model.Buffers Model.BufferRun Model.Persist Model.Num Model.PrioNum Model.Checkpointing Model.Tabular Model.Tensor Model.Blocks Model.Returns Model.Dual Model.Losses Model.Actor Model.Heads Model.Greedy Model.BlackBox Model.Ensemble Model.Loop Model.Target Model.Bounds Model.Frame Model.Bandit Model.Collect Model.Sched.
Extraction Language OCaml.
Extraction "../build/ocaml/model.ml"
  (* base *) Nat.add Qred Qplus Qmult Qminus Qdiv Qopp Qle_bool Qeq_bool
  (* Logger *) mrun get_stat srun spec_get_stat list_run crun fired crossings
  (* Buffers *) rb_init rb_trace lap_init lap_trace sb_init sb_trace sbp_init sbp_trace mt_lap_init mt_trace mtu_init mtu_trace lastn
  (* PrioNum *) is_weights lap_priority per_priority
  (* Checkpointing *) td7_run cstate_init assess
  (* Tabular *) update_policy q_learning_step dql_update mc_update dyna_q_update dyna_step dyna_init zeros2 greedy planning
  (* Blocks *) two_hot_encoding two_hot_decoding two_hot_ce_row huber masked_mse_loss avg_l1_norm linear_schedule_k transition_steps make_two_hot_bins log_softmax
  (* Returns *) reward_to_go compute_gae n_step_return a2c_batch ppo_gae ppo_flat_gae zip4 rollout_batch_loss rollout_loss
  (* Losses *) dual_ops dual_sg ddpg_loss td3_loss sac_loss td3_lap_loss td7_target td7_critic_loss mrq_loss dqn_loss ddqn_loss ddqn_per_loss sale_loss
  (* Actor *) pg_pseudo_loss reinforce_weights ac_weights a2c_normalise ppo_policy_loss ppo_value_loss ppo_loss dpg_loss sac_actor_loss sac_exploration_loss
  (* Heads *) softmax cat_logprob cat_entropy gauss_std gauss_logpdf gauss_entropy gauss_sample tanh_scaled half_range mid_range eps_greedy dqn_choice greedy_net
  (* BlackBox *) cma_config cma_weights cma_init next_parameters set_feedback cma_update cma_hsig_lhs argsort top_k xsum eye diag cem_sample cem_update cem_elites flat_params set_params
  (* Ensemble *) pe_epoch_batches pe_epoch_positions pe_gmlp_forward pe_relu pe_swish pe_safe_log_var pe_min_log_var pe_max_log_var pe_call2 pe_call3 pe_base_predict pe_base_distribution pe_aggregate pe_gaussian_nll pe_ensemble_loss pe_evaluate_plans pe_norm_angle pe_pendulum_reward pe_gym_pendulum_reward nsum
  (* Loop *) train gate_gt gate_gt_every gate_ge gate_both act_flags sched_run
  (* Target / Bounds *) soft_update hard_update due_dqn_family due_every_update due_delayed due_epoch sample_action explore_pre target_noise sample_target_action cem_candidate
  (* Frame *) frame_check may_change sharing
  (* Bandit *) sel_run rr_run ducb_choose ducb_run dscore
  (* Collect *) ppo_run a2c_run
  (* Persist *) rb_crash lap_crash sb_crash sbp_crash mtl_crash mtu_crash orbax_restore orbax_reload load_pickle save_pickle restore_checkpoint restore_untargeted ck_restore_all name_step_epoch name_step_only ck_saved.
