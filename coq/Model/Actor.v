(** L2 models of the actor objectives (C12): losses.py (stochastic_policy_gradient_pseudo_loss,
    deterministic_policy_gradient_loss), ppo.py (ppo_loss), sac.py (sac_actor_loss,
    sac_exploration_loss), reinforce.py / actor_critic.py / a2c.py (weights). Policies and
    critics enter as the per-sample tensors they output. *)
From Coq Require Import QArith List Arith.
From RLV Require Import Model.Num Model.Tensor Model.Blocks Model.Losses.
Import ListNotations.
Local Close Scope Q_scope.

Section Actor.
  Context {F : Type} {N : NumOps F}.
  Local Open Scope num_scope.

  (** -mean(weight * logp), with chex.assert_equal_shape((weight, logp)) *)
  Definition pg_pseudo_loss (weight logp : tensor F) : res F :=
    if same_shape weight logp then do p <- tmul weight logp; Ok (- tmean p) else Err.

  (** REINFORCE weights: (returns - baseline) * gamma_discount *)
  Definition reinforce_weights (returns baseline gamma_discount : list F) : list F :=
    map (fun x => (fst (fst x) - snd (fst x)) * snd x) (combine (combine returns baseline) gamma_discount).
  (** actor-critic weights: gamma_discount * (r + gamma * v_next - v) *)
  Definition ac_weights (rewards v v_next gamma_discount : list F) (gamma : F) : list F :=
    map (fun x => let '(r, v0, v1, gd) := x in gd * (r + gamma * v1 - v0))
        (combine (combine (combine rewards v) v_next) gamma_discount).
  (** A2C advantage normalisation: (adv - mean) / (std + 1e-8) *)
  Definition a2c_normalise (adv : list F) : list F :=
    let m := nmean adv in
    let sd := nsqrt (nmean (map (fun x => (x - m) * (x - m)) adv)) in
    map (fun x => (x - m) / (sd + nofQ (1 # 100000000))) adv.

  (** PPO: ratio = exp(logp - old_logp); -mean(min(ratio*A, clip(ratio, 1-c, 1+c)*A)) *)
  Definition ppo_term (clip logp old_logp adv : F) : F :=
    let ratio := nexp (logp - old_logp) in
    nmin (ratio * adv) (nclip ratio (nunit - clip) (nunit + clip) * adv).
  Definition ppo_policy_loss (clip : F) (logp old_logp adv : list F) : F :=
    - nmean (map (fun x => ppo_term clip (fst (fst x)) (snd (fst x)) (snd x)) (combine (combine logp old_logp) adv)).
  (** value term: mean((returns - critic(obs).flatten())**2) *)
  Definition ppo_value_loss (returns : list F) (values_out : tensor F) : res F :=
    mse (T1 returns) (T1 (flatten values_out)).
  Definition ppo_loss (clip : F) (logp old_logp adv returns : list F) (values_out : tensor F) (entropy : tensor F) : res F :=
    do vl <- ppo_value_loss returns values_out;
    Ok (ppo_policy_loss clip logp old_logp adv + nhalf * vl - nofQ (1 # 100) * tmean entropy).

  (** deterministic policy gradient: -mean(Q(o, pi(o))) *)
  Definition dpg_loss (q_out : tensor F) : F := - tmean q_out.
  (** SAC actor: mean(alpha * log pi - min Q(o, a).squeeze()) *)
  Definition sac_actor_loss (alpha : F) (logp q_out : tensor F) : res F :=
    do d <- tsub (tmap (fun l => alpha * l) logp) (squeeze q_out); Ok (tmean d).
  (** SAC temperature: mean(-exp(log_alpha) * (log pi + target_entropy)) *)
  Definition sac_exploration_loss (log_alpha target_entropy : F) (logp : list F) : F :=
    nmean (map (fun l => - nexp log_alpha * (l + target_entropy)) logp).
End Actor.
