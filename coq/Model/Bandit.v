(** Task selectors and the discounted-UCB bandit (C11): blox/mapb.py DUCB, blox/multitask.py
    TaskSelector / RoundRobinSelector. *)
From Coq Require Import List Arith Bool.
From RLV Require Import Model.Num.
Import ListNotations.

(** TaskSelector: select and feedback must strictly alternate (assertions in the base class). *)
Inductive sel_op := OpSelect | OpFeedback.
Definition sel_step (waiting : bool) (o : sel_op) : option bool :=
  match o, waiting with
  | OpSelect, false => Some true
  | OpFeedback, true => Some false
  | _, _ => None                         (* AssertionError *)
  end.
Fixpoint sel_run (waiting : bool) (ops : list sel_op) : option bool :=
  match ops with
  | [] => Some waiting
  | o :: ops' => match sel_step waiting o with Some w => sel_run w ops' | None => None end
  end.

(** RoundRobinSelector: self.i += 1; return tasks[self.i % len(tasks)]  (positions in the task array) *)
Definition rr_select (i n : nat) : nat * nat := (S i, S i mod n).
Fixpoint rr_run (i n k : nat) : list nat :=
  match k with 0 => [] | S k' => let '(i', t) := rr_select i n in t :: rr_run i' n k' end.

Section DUCB.
  Context {F : Type} {N : NumOps F}.
  Local Open Scope num_scope.
  Definition window : nat := 250.
  Fixpoint gpow (g : F) (k : nat) : F := match k with 0 => nunit | S k' => g * gpow g k' end.
  (** history = [(arm, reward)] oldest first, one pair per finished round; t = length.
      weights gamma^(t-1-s) for the last [window] rounds. *)
  Fixpoint weighted (g : F) (hist_rev : list (nat * F)) (k : nat) (fuel : nat) : list (nat * F * F) :=
    match fuel, hist_rev with
    | S fuel', (a, r) :: rest => (a, r, gpow g k) :: weighted g rest (S k) fuel'
    | _, _ => []
    end.
  Definition recent (g : F) (hist : list (nat * F)) : list (nat * F * F) := weighted g (rev hist) 0 window.
  Definition dfreq (g : F) (hist : list (nat * F)) (arm : nat) : F :=
    nsum (map (fun e => let '(a, _, w) := e in if Nat.eqb a arm then w else nzero) (recent g hist)).
  Definition dsum (g : F) (hist : list (nat * F)) (arm : nat) : F :=
    nsum (map (fun e => let '(a, r, w) := e in if Nat.eqb a arm then w * r else nzero) (recent g hist)).
  Definition dtotal (g : F) (hist : list (nat * F)) (n : nat) : F := nsum (map (dfreq g hist) (seq 0 n)).
  Definition dscore (ub g zeta : F) (n : nat) (hist : list (nat * F)) (arm : nat) : F :=
    dsum g hist arm / dfreq g hist arm
    + ntwo * ub * nsqrt (zeta * nln (dtotal g hist n) / dfreq g hist arm).
  (** DUCB.choose_arm *)
  Definition ducb_choose (ub g zeta : F) (n : nat) (hist : list (nat * F)) : nat :=
    if Nat.ltb (length hist) (2 * n) then length hist mod n
    else nargmax (map (dscore ub g zeta n hist) (seq 0 n)).
  (** a run of the bandit alone: choose, then receive the reward given by the oracle *)
  Fixpoint ducb_run (ub g zeta : F) (n : nat) (hist : list (nat * F)) (rewards : list F) : list nat :=
    match rewards with
    | [] => []
    | r :: rest => let a := ducb_choose ub g zeta n hist in a :: ducb_run ub g zeta n (hist ++ [(a, r)]) rest
    end.
End DUCB.
