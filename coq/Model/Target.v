(** Target-network laws (C06): blox/target_net.py (soft / hard update) and the cadence
    predicates of the training loops. A parameter tree is a list of leaves (lists of numbers). *)
From Coq Require Import List Arith Bool.
From RLV Require Import Model.Num.
Import ListNotations.

Section Target.
  Context {F : Type} {N : NumOps F}.
  Local Open Scope num_scope.
  Definition tree := list (list F).
  Definition map2 {A B C} (f : A -> B -> C) (a : list A) (b : list B) : list C :=
    map (fun xy => f (fst xy) (snd xy)) (combine a b).
  (** optax.incremental_update(new, old, tau) = tau * new + (1 - tau) * old, leaf by leaf *)
  Definition polyak (tau o t : F) : F := tau * o + (nunit - tau) * t.
  Definition soft_update (tau : F) (online target : tree) : tree := map2 (map2 (polyak tau)) online target.
  Definition hard_update (online target : tree) : tree := online.

  (** Evolution of a target network over the iterations of a training loop: [online k] is
      the online tree after iteration k's update, [due k] the cadence predicate. *)
  Fixpoint target_trace (law : tree -> tree -> tree) (due : nat -> bool) (online : nat -> tree)
           (t0 : tree) (k0 n : nat) : list tree :=
    match n with
    | O => []
    | S n' => let t1 := if due k0 then law (online k0) t0 else t0 in
              t1 :: target_trace law due online t1 (S k0) n'
    end.
End Target.

(** cadence predicates of the routines (step = global step counter, epoch = number of
    training iterations performed so far including the current one) *)
Definition due_dqn_family (batch ls tuf : nat) (step : nat) : bool :=
  Nat.ltb batch step && Nat.leb ls step && Nat.eqb (step mod tuf) 0.
Definition due_every_update (ls : nat) (step : nat) : bool := Nat.leb ls step.                 (* DDPG *)
Definition due_delayed (ls delay : nat) (step : nat) : bool := Nat.leb ls step && Nat.eqb (step mod delay) 0.   (* TD3, TD3+LAP, SAC *)
Definition due_epoch (ls delay : nat) (step : nat) : bool :=                                   (* TD7 (no checkpoints), MR.Q *)
  Nat.leb ls step && Nat.eqb ((step - ls + 1) mod delay) 0.
