(** Greedy / epsilon-greedy action selection (C13): blox/value_policy.py (tabular),
    blox/q_policy.py (network) and the action choice of the DQN-family training loops. *)
From Coq Require Import List Arith Bool.
From RLV Require Import Model.Num Model.Tabular.
Import ListNotations.

Section Greedy.
  Context {F : Type} {N : NumOps F}.
  (** epsilon_greedy_policy(q_table, observation, epsilon, key):
      roll = uniform(subkey); if roll < epsilon: random.choice(...) else greedy *)
  Definition eps_greedy (t : table) (s : nat) (eps roll : F) (random_action : nat) : nat :=
    if nltb roll eps then random_action else greedy t s.
  (** q_policy.greedy_policy(q_net, obs) = argmax(q_net([obs])) over the flattened (1, A) output *)
  Definition greedy_net (q_values : list F) : nat := nargmax q_values.
  (** train_dqn: epsilon_rolls[step] < epsilon[step];
      train_nature_dqn / train_ddqn / train_ddqn_per: step < learning_starts or ... *)
  Definition dqn_choice (step learning_starts : nat) (roll eps : F) (random_action : nat) (q_values : list F) : nat :=
    if Nat.ltb step learning_starts || nltb roll eps then random_action else greedy_net q_values.
End Greedy.
