(** L2 models of the numeric building blocks (C18): blox/preprocessing.py (two-hot coding),
    blox/losses.py (huber_loss, masked_mse_loss), function_approximator/norm.py
    (avg_l1_norm), blox/schedules.py (linear_schedule). *)
From Coq Require Import QArith List Arith.
From RLV Require Import Model.Num Model.Buffers Model.Tensor.
Import ListNotations.
Local Close Scope Q_scope.

Section Blocks.
  Context {F : Type} {N : NumOps F}.
  Local Open Scope num_scope.

  Definition big8 : F := nofQ (100000000 # 1).      (* 1e8 *)

  (** two_hot_encoding for one value x (one row of the batch):
        diff = x - bins;  diff = diff - 1e8 * (sign(diff) - 1)
        ind_lo = argmin(diff); ind_up = clip(ind_lo + 1, 0, len - 1)
        weight = (x - bins[ind_lo]) / (bins[ind_up] - bins[ind_lo])
        row[ind_lo] = 1 - weight; row[ind_up] = weight   (second write wins) *)
  Definition adj_diff (x b : F) : F := let d := x - b in d - big8 * (nsign d - nunit).
  Definition two_hot_lo (bins : list F) (x : F) : nat := nargmin (map (adj_diff x) bins).
  Definition two_hot_row (bins : list F) (x : F) : list F :=
    let lo := two_hot_lo bins x in
    let up := Nat.min (lo + 1) (length bins - 1) in
    let lower := nth lo bins nzero in
    let upper := nth up bins nzero in
    let w := (x - lower) / (upper - lower) in
    upd (upd (repeat nzero (length bins)) lo (nunit - w)) up w.
  Definition two_hot_encoding (bins : list F) (xs : list F) : list (list F) := map (two_hot_row bins) xs.

  (** two_hot_decoding: sum(two_hot * bins, axis=-1) *)
  Definition dot (a b : list F) : F := nsum (map (fun xy => fst xy * snd xy) (combine a b)).
  Definition two_hot_decoding (bins : list F) (rows : list (list F)) : list F := map (fun r => dot r bins) rows.

  (** log_softmax(logits) = logits - log(sum(exp(logits))) (jax subtracts the max first; same value) *)
  Definition log_softmax (l : list F) : list F :=
    let m := nmaxl l in
    let lse := nln (nsum (map (fun x => nexp (x - m)) l)) in
    map (fun x => x - m - lse) l.
  (** two_hot_cross_entropy_loss(bins, logits, target) per row *)
  Definition two_hot_ce_row (bins logits : list F) (target : F) : F :=
    - dot (two_hot_row bins target) (log_softmax logits).

  (** huber_loss(abs_errors, delta) *)
  Definition huber (abs_err delta : F) : F :=
    let quadratic := nmin abs_err delta in
    let linear := abs_err - quadratic in
    nhalf * (quadratic * quadratic) + delta * linear.

  (** masked_mse_loss(predictions, targets, mask): squared error times the mask reshaped to
      mask.shape + (1,) * (sq_err.ndim - mask.ndim), i.e. one mask entry per sample (row). *)
  Definition sqerr (a b : F) : F := (a - b) * (a - b).
  Definition masked_mse_loss (pred target : tensor F) (mask : list F) : res F :=
    do se <- bop sqerr pred target;
    do prod <- match se with
               | T2 _ => tmul se (col mask)
               | _ => tmul se (T1 mask)
               end;
    Ok (tmean prod).

  (** avg_l1_norm(x, eps) = x / max(mean(|x|), eps) *)
  Definition avg_l1_norm (x : list F) (eps : F) : list F :=
    let d := nmax (nmean (map nabs x)) eps in map (fun v => v / d) x.

  (** jnp.linspace(start, end, k) *)
  Definition linspace (start stop : F) (k : nat) : list F :=
    match k with
    | 0 => []
    | 1 => [start]
    | _ => map (fun i => start + nofnat i * ((stop - start) / nofnat (k - 1))) (seq 0 k)
    end.
  (** linear_schedule(total, start, end, fraction) with transition_steps = int(total * fraction)
      passed as [k] (computed over Q by [transition_steps]) *)
  Definition linear_schedule_k (total : nat) (start stop : F) (k : nat) : list F :=
    let ramp := firstn total (linspace start stop k) in
    ramp ++ repeat stop (total - length ramp).
End Blocks.

(** int(total_timesteps * fraction) for a non-negative rational fraction *)
Definition transition_steps (total : nat) (fraction : Q) : nat :=
  let p := (inject_Z (Z.of_nat total) * fraction)%Q in
  Z.to_nat (Qnum p / Zpos (Qden p))%Z.

Section Bins.
  Context {F : Type} {N : NumOps F}.
  Local Open Scope num_scope.
  (** sign(b) * (exp(|b|) - 1) *)
  Definition symexp (b : F) : F := nsign b * (nexp (nabs b) - nunit).
  (** make_two_hot_bins(lower_exponent, upper_exponent, n_bin_edges) *)
  Definition make_two_hot_bins (lo hi : F) (n : nat) : list F := map symexp (linspace lo hi n).
End Bins.
