(** Dual numbers over any [NumOps F]: the same polymorphic kernel evaluated at [F * F]
    (value, tangent) yields directional derivatives (forward mode). [dual_sg] is
    jax.lax.stop_gradient: the value passes, the tangent is cut. Comparisons look at the
    value only, so max / min / abs / clip select the active branch (ties: first branch). *)
From Coq Require Import QArith List.
From RLV Require Import Model.Num.
Local Close Scope Q_scope.

Section Dual.
  Context {F : Type} {N : NumOps F}.
  Local Open Scope num_scope.
  Definition dual := (F * F)%type.
  Definition dconst (x : F) : dual := (x, nzero).
  Definition dual_sg (a : dual) : dual := (fst a, nzero).
  #[export] Instance dual_ops : NumOps dual := {|
    nzero := (nzero, nzero); nunit := (nunit, nzero);
    nadd := fun a b => (fst a + fst b, snd a + snd b);
    nsub := fun a b => (fst a - fst b, snd a - snd b);
    nmul := fun a b => (fst a * fst b, snd a * fst b + fst a * snd b);
    ndiv := fun a b => (fst a / fst b, (snd a * fst b - fst a * snd b) / (fst b * fst b));
    nneg := fun a => (- fst a, - snd a);
    nleb := fun a b => nleb (fst a) (fst b);
    nofQ := fun q => (nofQ q, nzero);
    nexp := fun a => (nexp (fst a), snd a * nexp (fst a));
    nln := fun a => (nln (fst a), snd a / fst a);
    ntanh := fun a => (ntanh (fst a), snd a * (nunit - ntanh (fst a) * ntanh (fst a)));
    nsqrt := fun a => (nsqrt (fst a), snd a / ((nunit + nunit) * nsqrt (fst a)));
    npow := fun a b => (npow (fst a) (fst b),
                        snd a * (fst b * npow (fst a) (fst b - nunit)) + snd b * (npow (fst a) (fst b) * nln (fst a)))
  |}.
End Dual.
