(** C19 — persistence model: what [pickle] stores of a replay buffer and what
    [nnx.split] / Orbax store of a function approximator.  Definitions only.

    A *live* buffer object is a core state of Model/Buffers.v (every attribute
    except the namedtuple type) together with its key list (the order of the
    [buffer] OrderedDict) and its [Batch] type, modelled as the list of the
    namedtuple's field names.  A saved *image* is the record of exactly the
    entries that [__getstate__] keeps (replay_buffer.py:127-130, 353-356:
    [d = dict(self.__dict__); del d["Batch"]]); [load] is [__setstate__]
    (replay_buffer.py:132-134, 358-360: [self.__dict__.update(d);
    self.Batch = namedtuple("Batch", self.buffer)]).  PriorityBuffer and
    MultiTaskReplayBuffer define no [__getstate__]: pickle stores their whole
    [__dict__], recursively through the sub-buffers' [__getstate__]. *)
From Coq Require Import ZArith QArith List Bool Arith.
From RLV Require Import Model.Buffers Model.BufferRun.
Import ListNotations.
Local Close Scope Q_scope.
Local Open Scope nat_scope.

(* ------------------------------------------------------------------ *)
(** ** generic interpreter that also returns the successor state *)
Fixpoint run {T P O : Type} (step : T -> P -> T * O) (s : T) (ops : list P) : T * list O :=
  match ops with
  | [] => (s, [])
  | p :: t => let '(s', out) := step s p in
              let '(sf, outs) := run step s' t in (sf, out :: outs)
  end.

(* ------------------------------------------------------------------ *)
(** ** live objects and images *)
(** Key names are coded by naturals (the harness uses the position in the list
    passed to the constructor). *)
Definition key := nat.
(** [namedtuple("Batch", self.buffer)]: the field names are the keys of the
    OrderedDict, in order. *)
Definition mk_batch (ks : list key) : list key := ks.

Fixpoint keys_eqb (a b : list key) : bool :=
  match a, b with
  | [], [] => true
  | x :: a', y :: b' => Nat.eqb x y && keys_eqb a' b'
  | _, _ => false
  end.

Record live (T : Type) := { l_keys : list key; l_batch : list key; l_core : T }.
Arguments l_keys {T}. Arguments l_batch {T}. Arguments l_core {T}.
Record image (I : Type) := { i_keys : list key; i_fields : I }.
Arguments i_keys {I}. Arguments i_fields {I}.

(** [enc] lists the stored attributes of a core state, [dec] reads them back. *)
Definition save {T I : Type} (enc : T -> I) (o : live T) : image I :=
  {| i_keys := l_keys o; i_fields := enc (l_core o) |}.
Definition load {T I : Type} (dec : I -> T) (i : image I) : live T :=
  {| l_keys := i_keys i; l_batch := mk_batch (i_keys i); l_core := dec (i_fields i) |}.
(** The constructor's invariant: Batch is the namedtuple over the buffer's keys. *)
Definition wf {T : Type} (o : live T) : Prop := l_batch o = mk_batch (l_keys o).
Definition fresh {T : Type} (ks : list key) (s : T) : live T :=
  {| l_keys := ks; l_batch := mk_batch ks; l_core := s |}.

(** What a sampling call returns as the *type* of its batch:
    [self.Batch] applied to the keyword arguments [{k: ... for k in self.buffer}] succeeds with the fields of
    [Batch] when they are the buffer's keys; otherwise the call does not return
    a batch of this buffer's type (TypeError, or fields in another order). *)
Inductive blabel := NoBatch | BatchMismatch | BatchFields (ks : list key).
Definition label {T : Type} (o : live T) : blabel :=
  if keys_eqb (l_batch o) (l_keys o) then BatchFields (l_batch o) else BatchMismatch.

(** Lifting of a BufferRun interpreter step to live objects. *)
Definition lstep {T P O : Type} (step : T -> P -> T * O) (samples : P -> bool)
           (o : live T) (p : P) : live T * (O * blabel) :=
  let '(c', out) := step (l_core o) p in
  ({| l_keys := l_keys o; l_batch := l_batch o; l_core := c' |},
   (out, if samples p then label o else NoBatch)).

(** Run [prefix], save, load, run [cont]: the image at the crash point, the
    continuation's outputs on the reloaded object and the final image. *)
Definition crash_run {T I P O : Type} (enc : T -> I) (dec : I -> T)
           (step : T -> P -> T * O) (samples : P -> bool)
           (o0 : live T) (prefix cont : list P) : image I * list (O * blabel) * image I :=
  let '(o1, _) := run (lstep step samples) o0 prefix in
  let img := save enc o1 in
  let '(o2, outs) := run (lstep step samples) (load dec img) cont in
  (img, outs, save enc o2).
(** ... for every prefix of a history. *)
Definition crash_all {T I P O : Type} (enc : T -> I) (dec : I -> T)
           (step : T -> P -> T * O) (samples : P -> bool)
           (o0 : live T) (ops : list P) : list (image I * list (O * blabel) * image I) :=
  map (fun k => crash_run enc dec step samples o0 (firstn k ops) (skipn k ops))
      (seq 0 (S (length ops))).

(* ------------------------------------------------------------------ *)
(** ** stored attributes per class (the entries of the pickled dict) *)
(** ReplayBuffer.__dict__ minus Batch: buffer, buffer_size, current_len, insert_idx. *)
Record rb_fields := { f_buffer : list (option Z); f_buffer_size : nat;
                      f_current_len : nat; f_insert_idx : nat }.
Definition rb_enc (b : rb Z) : rb_fields :=
  {| f_buffer := slots b; f_buffer_size := cap b; f_current_len := len b; f_insert_idx := ins b |}.
Definition rb_dec (f : rb_fields) : rb Z :=
  {| cap := f_buffer_size f; slots := f_buffer f; ins := f_insert_idx f; len := f_current_len f |}.

(** PriorityBuffer.__dict__: max_priority, priority, sampled_indices. *)
Record pb_fields := { f_priority : list Q; f_max_priority : Q; f_sampled_indices : list nat }.
Definition pb_enc (p : pb) : pb_fields :=
  {| f_priority := prio p; f_max_priority := maxp p; f_sampled_indices := sampled p |}.
Definition pb_dec (f : pb_fields) : pb :=
  {| prio := f_priority f; maxp := f_max_priority f; sampled := f_sampled_indices f |}.

(** LAP / PrioritizedReplayBuffer: the ring's entries plus [priority]. *)
Record lap_fields := { fl_buffer : list (option Z); fl_buffer_size : nat;
                       fl_current_len : nat; fl_insert_idx : nat; fl_priority : pb_fields }.
Definition lap_enc (b : lap Z) : lap_fields :=
  {| fl_buffer := slots (l_rb b); fl_buffer_size := cap (l_rb b); fl_current_len := len (l_rb b);
     fl_insert_idx := ins (l_rb b); fl_priority := pb_enc (l_pb b) |}.
Definition lap_dec (f : lap_fields) : lap Z :=
  {| l_rb := {| cap := fl_buffer_size f; slots := fl_buffer f; ins := fl_insert_idx f;
                len := fl_current_len f |};
     l_pb := pb_dec (fl_priority f) |}.

(** SubtrajectoryReplayBuffer.__dict__ minus Batch. *)
Record sb_fields := { fs_buffer : list (option srow); fs_buffer_size : nat; fs_current_len : nat;
                      fs_insert_idx : nat; fs_episode_timesteps : nat;
                      fs_environment_terminates : bool; fs_horizon : nat; fs_mask : list bool }.
Definition sb_enc (b : sb) : sb_fields :=
  {| fs_buffer := s_slots b; fs_buffer_size := s_cap b; fs_current_len := s_len b;
     fs_insert_idx := s_ins b; fs_episode_timesteps := s_ept b;
     fs_environment_terminates := s_envterm b; fs_horizon := s_H b; fs_mask := s_mask b |}.
Definition sb_dec (f : sb_fields) : sb :=
  {| s_cap := fs_buffer_size f; s_H := fs_horizon f; s_slots := fs_buffer f; s_ins := fs_insert_idx f;
     s_len := fs_current_len f; s_ept := fs_episode_timesteps f; s_mask := fs_mask f;
     s_envterm := fs_environment_terminates f |}.

(** SubtrajectoryReplayBufferPER: the above plus [priority]. *)
Record sbp_fields := { fp_sub : sb_fields; fp_priority : pb_fields }.
Definition sbp_enc (b : sbp) : sbp_fields :=
  {| fp_sub := sb_enc (p_sb b); fp_priority := pb_enc (p_pb b) |}.
Definition sbp_dec (f : sbp_fields) : sbp :=
  {| p_sb := sb_dec (fp_sub f); p_pb := pb_dec (fp_priority f) |}.

(* ------------------------------------------------------------------ *)
(** ** the single-buffer interpreters of BufferRun.v on live objects *)
Definition rop_samples (o : rop) : bool := match o with RSample _ => true | _ => false end.
Definition lapop_samples (o : lapop) : bool := match o with LSample _ => true | _ => false end.
Definition pop_samples (o : pop) : bool := match o with PSample _ _ => true | _ => false end.
(** One step of [sb_trace]: an addition followed by the sampling of every enabled
    window. *)
Definition sb_step (hs : list nat) (b : sb) (x : srow)
  : sb * (sout * list (nat * list (nat * (list (option srow) * reduced)))) :=
  let '(b', at_) := sb_add b x in (b', (sb_obs b' at_, sb_all_windows b' hs)).
Definition srow_samples (_ : srow) : bool := true.

Definition rb_lstep := lstep rb_step rop_samples.
Definition lap_lstep (strat : bool) := lstep (lap_step strat) lapop_samples.
Definition sb_lstep (hs : list nat) := lstep (sb_step hs) srow_samples.
Definition sbp_lstep := lstep sbp_step pop_samples.

Definition rb_live_init (ks : list key) (N : nat) : live (rb Z) := fresh ks (rb_init N).
Definition lap_live_init (ks : list key) (N : nat) : live (lap Z) := fresh ks (lap_init N).
Definition sb_live_init (ks : list key) (N H : nat) : live sb := fresh ks (sb_init N H).
Definition sbp_live_init (ks : list key) (N H : nat) : live sbp := fresh ks (sbp_init N H).

Definition rb_crash (ks : list key) (N : nat) := crash_all rb_enc rb_dec rb_step rop_samples (rb_live_init ks N).
Definition lap_crash (strat : bool) (ks : list key) (N : nat) :=
  crash_all lap_enc lap_dec (lap_step strat) lapop_samples (lap_live_init ks N).
Definition sb_crash (hs : list nat) (ks : list key) (N H : nat) :=
  crash_all sb_enc sb_dec (sb_step hs) srow_samples (sb_live_init ks N H).
Definition sbp_crash (ks : list key) (N H : nat) :=
  crash_all sbp_enc sbp_dec sbp_step pop_samples (sbp_live_init ks N H).

(* ------------------------------------------------------------------ *)
(** ** MultiTaskReplayBuffer: a list of live sub-buffers (each with its own Batch) *)
Section MTLive.
  Context {L IL P O : Type}.
  Variable enc : L -> IL.
  Variable dec : IL -> L.
  Variable step : mt L -> P -> mt L * O.
  (** the task whose buffer produced the batch, for an operation that returned one *)
  Variable batch_of : P -> O -> option nat.

  Definition mt_save (m : mt (live L)) : mt (image IL) :=
    {| bufs := map (save enc) (bufs m); selected := selected m; active := active m;
       sampled_task := sampled_task m |}.
  Definition mt_load (m : mt (image IL)) : mt (live L) :=
    {| bufs := map (load dec) (bufs m); selected := selected m; active := active m;
       sampled_task := sampled_task m |}.
  Definition mt_wf (m : mt (live L)) : Prop := Forall wf (bufs m).
  Definition mt_core (m : mt (live L)) : mt L :=
    {| bufs := map l_core (bufs m); selected := selected m; active := active m;
       sampled_task := sampled_task m |}.
  (** put the successor core states back under their keys / Batch types *)
  Definition retag_buf (oc : live L * L) : live L :=
    {| l_keys := l_keys (fst oc); l_batch := l_batch (fst oc); l_core := snd oc |}.
  Definition mt_retag (m : mt (live L)) (c : mt L) : mt (live L) :=
    {| bufs := map retag_buf (combine (bufs m) (bufs c)); selected := selected c;
       active := active c; sampled_task := sampled_task c |}.
  Definition mt_label (m : mt (live L)) (t : nat) : blabel :=
    match nth_error (bufs m) t with Some o => label o | None => BatchMismatch end.
  Definition mt_lstep (m : mt (live L)) (p : P) : mt (live L) * (O * blabel) :=
    let '(c', out) := step (mt_core m) p in
    (mt_retag m c', (out, match batch_of p out with Some t => mt_label m t | None => NoBatch end)).
  Definition mt_crash_run (m0 : mt (live L)) (prefix cont : list P) :=
    let '(m1, _) := run mt_lstep m0 prefix in
    let img := mt_save m1 in
    let '(m2, outs) := run mt_lstep (mt_load img) cont in
    (img, outs, mt_save m2).
  Definition mt_crash_all (m0 : mt (live L)) (ops : list P) :=
    map (fun k => mt_crash_run m0 (firstn k ops) (skipn k ops)) (seq 0 (S (length ops))).
End MTLive.

Definition mop_batch_of (p : mop) (out : mout) : option nat :=
  match p with MSample _ _ => if mo_ok out then mo_task out else None | _ => None end.
Definition uop_batch_of (p : uop) (out : uout) : option nat :=
  match p with USample _ _ => if uo_ok out then uo_task out else None | _ => None end.
Definition mtl_lstep := mt_lstep mt_step mop_batch_of.
Definition mtu_lstep := mt_lstep mtu_step uop_batch_of.
(** [MultiTaskReplayBuffer(buffer, n)]: n deep copies of one buffer. *)
Definition mtl_live_init (ks : list key) (N n : nat) : mt (live (lap Z)) :=
  mt_init (lap_live_init ks N) n.
Definition mtu_live_init (ks : list key) (N n : nat) : mt (live (rb Z)) :=
  mt_init (rb_live_init ks N) n.
Definition mtl_crash (ks : list key) (N n : nat) :=
  mt_crash_all lap_enc lap_dec mt_step mop_batch_of (mtl_live_init ks N n).
Definition mtu_crash (ks : list key) (N n : nat) :=
  mt_crash_all rb_enc rb_dec mtu_step uop_batch_of (mtu_live_init ks N n).

(* ------------------------------------------------------------------ *)
(** ** images that forget one attribute (for the necessity lemmas): what a reload
    would produce if the attribute were not stored and the constructor's value
    were used instead. *)
Definition forget_ins (b : rb Z) : rb Z :=
  {| cap := cap b; slots := slots b; ins := 0; len := len b |}.
Definition forget_len (b : rb Z) : rb Z :=
  {| cap := cap b; slots := slots b; ins := ins b; len := 0 |}.
Definition forget_maxp (b : lap Z) : lap Z :=
  {| l_rb := l_rb b; l_pb := {| prio := prio (l_pb b); maxp := 1%Q; sampled := sampled (l_pb b) |} |}.
Definition forget_sampled (b : lap Z) : lap Z :=
  {| l_rb := l_rb b; l_pb := {| prio := prio (l_pb b); maxp := maxp (l_pb b); sampled := [] |} |}.
Definition forget_prio (b : lap Z) : lap Z :=
  {| l_rb := l_rb b;
     l_pb := {| prio := repeat 0%Q (length (prio (l_pb b))); maxp := maxp (l_pb b);
                sampled := sampled (l_pb b) |} |}.
Definition forget_ept (b : sb) : sb :=
  {| s_cap := s_cap b; s_H := s_H b; s_slots := s_slots b; s_ins := s_ins b; s_len := s_len b;
     s_ept := 0; s_mask := s_mask b; s_envterm := s_envterm b |}.
Definition forget_mask (b : sb) : sb :=
  {| s_cap := s_cap b; s_H := s_H b; s_slots := s_slots b; s_ins := s_ins b; s_len := s_len b;
     s_ept := s_ept b; s_mask := repeat false (length (s_mask b)); s_envterm := s_envterm b |}.
Definition forget_mask_p (b : sbp) : sbp := {| p_sb := forget_mask (p_sb b); p_pb := p_pb b |}.
Definition forget_active (m : mt (lap Z)) : mt (lap Z) :=
  {| bufs := bufs m; selected := selected m; active := []; sampled_task := sampled_task m |}.
Definition forget_sampled_task (m : mt (lap Z)) : mt (lap Z) :=
  {| bufs := bufs m; selected := selected m; active := active m; sampled_task := None |}.
Definition forget_selected (m : mt (lap Z)) : mt (lap Z) :=
  {| bufs := bufs m; selected := 0; active := active m; sampled_task := sampled_task m |}.

(* ------------------------------------------------------------------ *)
(** ** parameter trees (util/serialize.py, logging/checkpointer.py:214-227,
    logging/logger.py:411-419, blox/probabilistic_ensemble.py:451-471) *)
Section Tree.
  Context {V G : Type}.
  (** a path is a sequence of attribute / list positions; a leaf value stands for
      the array (shape, dtype and bits) *)
  Definition path := list nat.
  Definition tree := list (path * V).
  Record nmodule := { m_graph : G; m_params : tree }.
  Definition nnx_split (m : nmodule) : G * tree := (m_graph m, m_params m).
  Definition nnx_merge (g : G) (t : tree) : nmodule := {| m_graph := g; m_params := t |}.
  Definition nnx_state (m : nmodule) : tree := m_params m.
  Definition nnx_update (m : nmodule) (t : tree) : nmodule := {| m_graph := m_graph m; m_params := t |}.

  (** save_pickle: [graphdef, state = nnx.split(net); pickle.dump(state)];
      load_pickle: [nnx.merge(graphdef, pickle.load(f))]. *)
  Definition save_pickle (m : nmodule) : tree := snd (nnx_split m).
  Definition load_pickle (file : tree) (g : G) : nmodule := nnx_merge g file.

  (** OrbaxCheckpointer.save_model: [checkpointer.save(path, nnx.state(model))]. *)
  Definition orbax_save (m : nmodule) : tree := nnx_state m.
  Definition path_eqb : path -> path -> bool := keys_eqb.
  Fixpoint lookup (p : path) (t : tree) : option V :=
    match t with
    | [] => None
    | (q, v) :: r => if path_eqb p q then Some v else lookup p r
    end.
  (** StandardCheckpointer.restore(path, target): the target's structure filled
      with the stored leaves; a path absent from the file is an error. *)
  Fixpoint orbax_restore (file target : tree) : option tree :=
    match target with
    | [] => Some []
    | (p, _) :: t =>
        match lookup p file, orbax_restore file t with
        | Some w, Some r => Some ((p, w) :: r)
        | _, _ => None
        end
    end.
  (** restore + nnx.update(fresh_module, restored_state) *)
  Definition orbax_reload (file : tree) (fresh_m : nmodule) : option nmodule :=
    option_map (nnx_update fresh_m) (orbax_restore file (nnx_state fresh_m)).
  (** restore_checkpoint(path, model) (after the repair): PyTreeCheckpointer().restore(path, item=state(model))
      fills the model's own state structure with the stored leaves; [nnx.merge(graphdef(model), state)]. *)
  Definition restore_checkpoint (file : tree) (model : nmodule) : option nmodule :=
    option_map (nnx_merge (fst (nnx_split model))) (orbax_restore file (nnx_state model)).

  (** Before the repair: restore(path) without a target returns nested dictionaries whose list
      positions have become *string* keys; nnx.merge then pairs the graph's leaves (numeric
      order) with the dictionary's leaves in sorted-key order, i.e. by the decimal strings. *)
  Fixpoint digits_fuel (fuel n : nat) (acc : list nat) : list nat :=
    match fuel with
    | 0 => acc
    | S f => if Nat.ltb n 10 then n :: acc else digits_fuel f (Nat.div n 10) (Nat.modulo n 10 :: acc)
    end.
  Definition digits (n : nat) : list nat := digits_fuel (S n) n [].
  Fixpoint lex_ltb (a b : list nat) : bool :=
    match a, b with
    | [], [] => false
    | [], _ :: _ => true
    | _ :: _, [] => false
    | x :: a', y :: b' => if Nat.ltb x y then true else if Nat.ltb y x then false else lex_ltb a' b'
    end.
  Fixpoint key_ltb (p q : path) : bool :=
    match p, q with
    | [], [] => false
    | [], _ :: _ => true
    | _ :: _, [] => false
    | x :: p', y :: q' =>
        if lex_ltb (digits x) (digits y) then true else if lex_ltb (digits y) (digits x) then false else key_ltb p' q'
    end.
  Fixpoint insert_key (e : path * V) (t : tree) : tree :=
    match t with
    | [] => [e]
    | f :: r => if key_ltb (fst e) (fst f) then e :: t else f :: insert_key e r
    end.
  Definition string_sort (t : tree) : tree := fold_right insert_key [] t.
  Definition restore_untargeted (file : tree) (model : nmodule) : nmodule :=
    nnx_merge (fst (nnx_split model)) (combine (map fst (nnx_state model)) (map snd (string_sort file))).
End Tree.
Arguments tree : clear implicits.
Arguments nmodule : clear implicits.

(* ------------------------------------------------------------------ *)
(** ** the checkpoint directory of the checkpointing logger (logging/checkpointer.py)

    [record_epoch] counts an epoch for the key on every call and, when the
    frequency rule says so, writes the module's state under a directory named after
    (step, epoch) and appends that name to [checkpoint_path[key]].  A write to an
    existing name replaces what was stored there.  [ck_name] is the naming rule:
    the repository's rule is [name_step_epoch]; [name_step_only] is the variant
    that drops the epoch counter. *)
Definition ck_name := (Z * Z)%type.
Definition name_eqb (a b : ck_name) : bool := (Z.eqb (fst a) (fst b) && Z.eqb (snd a) (snd b))%bool.
Definition name_step_epoch (step epoch : Z) : ck_name := (step, epoch).
Definition name_step_only (step epoch : Z) : ck_name := (step, 0%Z).

Fixpoint ck_lookup {V : Type} (d : list (ck_name * V)) (k : ck_name) : option V :=
  match d with
  | [] => None
  | (k', v) :: r => if name_eqb k' k then Some v else ck_lookup r k
  end.

Record cklog (V : Type) := { ck_dir : list (ck_name * V); ck_epoch : Z; ck_paths : list ck_name }.
Arguments ck_dir {V}. Arguments ck_epoch {V}. Arguments ck_paths {V}.
Definition ck_init {V : Type} : cklog V := {| ck_dir := []; ck_epoch := 0%Z; ck_paths := [] |}.

(** one [record_epoch(key, value, step)] call; [save] is the outcome of the frequency rule *)
Definition ck_record {V : Type} (naming : Z -> Z -> ck_name) (l : cklog V) (c : Z * bool * V) : cklog V :=
  let '(step, save, v) := c in
  let e := (ck_epoch l + 1)%Z in
  if save then {| ck_dir := (naming step e, v) :: ck_dir l; ck_epoch := e; ck_paths := ck_paths l ++ [naming step e] |}
  else {| ck_dir := ck_dir l; ck_epoch := e; ck_paths := ck_paths l |}.

Definition ck_run {V : Type} (naming : Z -> Z -> ck_name) (h : list (Z * bool * V)) : cklog V :=
  fold_left (ck_record naming) h ck_init.

(** the values written, in the order of [ck_paths] *)
Definition ck_saved {V : Type} (h : list (Z * bool * V)) : list V :=
  map snd (filter (fun c => snd (fst c)) h).

(** what every listed path restores to after the whole history *)
Definition ck_restore_all {V : Type} (naming : Z -> Z -> ck_name) (h : list (Z * bool * V)) : list (option V) :=
  let l := ck_run naming h in map (ck_lookup (ck_dir l)) (ck_paths l).
