(** L2 models of the return / advantage estimators (C07): blox/gae.py, blox/return_estimates.py,
    algorithm/reinforce.py (discounted_reward_to_go), the batched preparations of
    algorithm/a2c.py (prepare_a2c_batch) and algorithm/ppo.py (reshape_batch + one GAE). *)
From Coq Require Import List Arith.
From RLV Require Import Model.Num.
Import ListNotations.

Section Returns.
  Context {F : Type} {N : NumOps F}.
  Local Open Scope num_scope.

  (** discounted_reward_to_go(rewards, gamma): acc = acc * gamma + r, backwards *)
  Fixpoint reward_to_go (rs : list F) (gamma : F) : list F :=
    match rs with
    | [] => []
    | r :: t => let rest := reward_to_go t gamma in (hd nzero rest * gamma + r) :: rest
    end.

  (** one time step of GAE input: (reward, value, next_value, terminated) *)
  Definition gstep := (F * F * F * F)%type.
  Definition g_delta (gamma : F) (s : gstep) : F :=
    let '(r, v, nv, d) := s in r + gamma * nv * (nunit - d) - v.
  Definition g_carry (gamma lambda : F) (s : gstep) : F :=
    let '(_, _, _, d) := s in gamma * lambda * (nunit - d).
  (** compute_gae advantages: gae_t = delta_t + gamma*lambda*(1 - d_t) * gae_{t+1}, scanned backwards *)
  Fixpoint gae_adv (steps : list gstep) (gamma lambda : F) : list F :=
    match steps with
    | [] => []
    | s :: t => let rest := gae_adv t gamma lambda in
                (g_delta gamma s + g_carry gamma lambda s * hd nzero rest) :: rest
    end.
  Definition zip4 (a b c d : list F) : list gstep :=
    map (fun x => (fst (fst (fst x)), snd (fst (fst x)), snd (fst x), snd x))
        (combine (combine (combine a b) c) d).
  (** compute_gae(rewards, values, next_values, terminateds) -> (advantages, returns) *)
  Definition compute_gae (r v nv d : list F) (gamma lambda : F) : list F * list F :=
    let adv := gae_adv (zip4 r v nv d) gamma lambda in
    (adv, map (fun av => fst av + snd av) (combine adv v)).

  (** discounted_n_step_return for one row: forward loop with running discount *)
  Fixpoint nstep_from (ret disc : F) (rd : list (F * F)) (gamma : F) : F * F :=
    match rd with
    | [] => (ret, disc)
    | (r, d) :: t => nstep_from (ret + disc * r) (disc * (gamma * (nunit - d))) t gamma
    end.
  Definition n_step_return (rewards terms : list F) (gamma : F) : F * F :=
    nstep_from nzero nunit (combine rewards terms) gamma.

  (** column j of a time-major (T x N) matrix *)
  Definition column (j : nat) (M : list (list F)) : list F := map (fun row => nth j row nzero) M.

  (** prepare_a2c_batch: GAE per environment column (jax.vmap over axis 1), next values =
      values[1:] ++ [bootstrap]; outputs (advantages, returns) as time-major T x N matrices. *)
  Definition a2c_col (j : nat) (R V D : list (list F)) (boot : list F) (gamma lambda : F) : list F * list F :=
    let v := column j V in
    compute_gae (column j R) v (tl v ++ [nth j boot nzero]) (column j D) gamma lambda.
  Definition a2c_batch (nenv : nat) (R V D : list (list F)) (boot : list F) (gamma lambda : F)
    : list (list F) * list (list F) :=
    let cols := map (fun j => a2c_col j R V D boot gamma lambda) (seq 0 nenv) in
    let T := length R in
    (map (fun t => map (fun c => nth t (fst c) nzero) cols) (seq 0 T),
     map (fun t => map (fun c => nth t (snd c) nzero) cols) (seq 0 T)).

  (** PPO: reshape_batch flattens the (steps x envs) rollout environment-major;
      update_ppo reshapes it back to (n_envs, steps) and runs compute_gae per environment
      (jax.vmap), then flattens again. Inputs are per-environment columns. *)
  Definition ppo_gae (cols : list (list gstep)) (gamma lambda : F) : list F :=
    concat (map (fun c => gae_adv c gamma lambda) cols).
  (** The earlier formulation (ONE compute_gae over the flat sequence), kept for the
      documented counterexample. *)
  Definition ppo_flat_gae (cols : list (list gstep)) (gamma lambda : F) : list F :=
    gae_adv (concat cols) gamma lambda.

  (** Model rollout of the MR.Q encoder loss (blox/embedding/model_based_encoder.py, model_based_encoder_loss): the
      prediction error of step t of one sub-trajectory enters weighted by prev_not_done_t, the product of
      (1 - terminated) over the earlier steps; a step is (error, not_done). *)
  Fixpoint masked_rollout (mask : F) (steps : list (F * F)) : F :=
    match steps with
    | [] => nzero
    | (l, nd) :: rest => mask * l + masked_rollout (nd * mask) rest
    end.
  Definition rollout_loss (steps : list (F * F)) : F := masked_rollout nunit steps.
  (** mean over the batch of sub-trajectories *)
  Definition rollout_batch_loss (batch : list (list (F * F))) : F := nmean (map rollout_loss batch).
  (** the variant whose mask is not cumulative (prev_not_done = not_done[:, t]) *)
  Fixpoint rollout_noncum (mask : F) (steps : list (F * F)) : F :=
    match steps with
    | [] => nzero
    | (l, nd) :: rest => mask * l + rollout_noncum nd rest
    end.
End Returns.
