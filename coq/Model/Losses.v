(** L2 models of the critic and representation losses (C03): blox/losses.py, td7.py
    (_sum_of_qnet_losses, td7_update_critic target), mrq.py (mrq_loss), embedding/sale.py
    (state_action_embedding_loss). Networks enter as the tensors they output on the batch
    (shape (N,1) for continuous critics, (N,A) for Q-networks); which network is applied to
    which batch field is part of the *spec side* of the check (harness/c03.py computes those
    outputs from the documented wiring). [sg] is jax.lax.stop_gradient. *)
From Coq Require Import List Arith.
From RLV Require Import Model.Num Model.Tensor Model.Blocks Model.Returns.
Import ListNotations.

Section Losses.
  Context {F : Type} {N : NumOps F}.
  Variable sg : F -> F.
  Local Open Scope num_scope.

  Definition tsg (t : tensor F) : tensor F := tmap sg t.
  Definition same_shape (a b : tensor F) : bool :=
    if list_eq_dec Nat.eq_dec (shape a) (shape b) then true else false.
  Definition one_minus (t : tensor F) : tensor F := tmap (fun d => nunit - d) t.
  Definition tscale (c : F) (t : tensor F) : tensor F := tmap (fun x => c * x) t.

  (** y = reward + (1 - terminated) * gamma * q_next *)
  Definition td_target (reward terminated : tensor F) (gamma : F) (q_next : tensor F) : res (tensor F) :=
    do b <- tmul (tscale gamma (one_minus terminated)) q_next;
    tadd reward b.
  (* the code multiplies ((1 - terminated) * gamma) * q_next, left to right *)

  Definition mse (pred target : tensor F) : res F :=
    do se <- bop sqerr pred target; Ok (tmean se).

  (** mse_continuous_action_value_loss(observation, action, q_target_values, q):
      q_predicted = q(obs_act).squeeze(); chex.assert_equal_shape((q_predicted, targets)) *)
  Definition mse_continuous (q_out target : tensor F) : res (F * F) :=
    let qp := squeeze q_out in
    if same_shape qp target then do l <- mse qp target; Ok (l, tmean qp) else Err.

  (** ddpg_loss: q_next = stop_gradient(q_target(next_obs, pi'(next_obs)).squeeze()) *)
  Definition ddpg_loss (q_out qt_out reward terminated : tensor F) (gamma : F) : res (F * F) :=
    do y <- td_target reward terminated gamma (tsg (squeeze qt_out));
    mse_continuous q_out y.

  (** _mse_clipped_double_q_loss(q_target_value, q, action, observation) *)
  Definition clipped_double_q_loss (q1_out q2_out y : tensor F) : res (F * F) :=
    let q1 := squeeze q1_out in let q2 := squeeze q2_out in
    do l1 <- mse q1 y; do l2 <- mse q2 y;
    do m <- bop nmin q1 q2;
    Ok (l1 + l2, tmean m).

  (** td3_loss: qt_out = min(q1', q2')(next_obs, next_action) *)
  Definition td3_loss (q1_out q2_out qt_out reward terminated : tensor F) (gamma : F) : res (F * F) :=
    do y <- td_target reward terminated gamma (tsg (squeeze qt_out));
    clipped_double_q_loss q1_out q2_out y.

  (** sac_loss: q_next_target = stop_gradient(q_target(..).squeeze() - alpha * next_log_pi) *)
  Definition sac_loss (q1_out q2_out qt_out next_log_pi reward terminated : tensor F) (alpha gamma : F) : res (F * F) :=
    do soft <- tsub (squeeze qt_out) (tscale alpha next_log_pi);
    do y <- td_target reward terminated gamma (tsg soft);
    clipped_double_q_loss q1_out q2_out y.

  Definition thuber (delta : F) (abs_err : tensor F) : tensor F := tmap (fun e => huber e delta) abs_err.

  (** td3_lap_loss: returns (loss, (q_mean, max_abs_td_error)) *)
  Definition td3_lap_loss (q1_out q2_out qt_out reward terminated : tensor F) (gamma min_priority : F)
    : res (F * (F * tensor F)) :=
    do y <- td_target reward terminated gamma (tsg (squeeze qt_out));
    let q1 := squeeze q1_out in let q2 := squeeze q2_out in
    do e1 <- bop (fun a b => nabs (a - b)) q1 y;
    do e2 <- bop (fun a b => nabs (a - b)) q2 y;
    do m <- bop nmin q1 q2;
    do mx <- bop nmax e1 e2;
    Ok (tmean (thuber min_priority e1) + tmean (thuber min_priority e2), (tmean m, mx)).

  (** TD7: target with value clipping, then _sum_of_qnet_losses (optax.huber_loss) *)
  Definition td7_target (qt_out reward terminated : tensor F) (gamma qmin qmax : F) : res (tensor F) :=
    td_target reward terminated gamma (tmap (fun x => nclip x qmin qmax) (squeeze qt_out)).
  Definition td7_critic_loss (q1_out q2_out y : tensor F) (min_priority : F) : res (F * tensor F) :=
    let q1 := squeeze q1_out in let q2 := squeeze q2_out in
    do e1 <- bop (fun a b => nabs (a - b)) q1 y;
    do e2 <- bop (fun a b => nabs (a - b)) q2 y;
    do mx <- bop nmax e1 e2;
    Ok (tmean (thuber min_priority e1) + tmean (thuber min_priority e2), mx).

  (** mrq_loss: target = (n_step_return + discount * q_next * target_reward_scale) / reward_scale,
      Huber with delta 1. reward / terminated are (N, H) matrices. *)
  Definition mrq_loss (q1_out q2_out qt_out : tensor F) (reward terminated : list (list F))
             (gamma reward_scale target_reward_scale : F) : res (F * (F * tensor F)) :=
    let nd := map (fun rd => n_step_return (fst rd) (snd rd) gamma) (combine reward terminated) in
    let ret := T1 (map fst nd) in let disc := T1 (map snd nd) in
    do a <- tmul disc (tsg (squeeze qt_out));
    do b <- tadd ret (tscale target_reward_scale a);
    (* code: discount * q_next * target_reward_scale *)
    let y := tmap (fun x => x / reward_scale) b in
    let q1 := squeeze q1_out in let q2 := squeeze q2_out in
    do e1 <- bop (fun a b => nabs (a - b)) q1 y;
    do e2 <- bop (fun a b => nabs (a - b)) q2 y;
    do m <- bop nmin q1 q2;
    do mx <- bop nmax e1 e2;
    Ok (tmean (thuber nunit e1) + tmean (thuber nunit e2), (tmean m, mx)).

  (** discrete action-value losses; [q_all] = q(obs) (N, A), [actions] row indices *)
  Definition mse_discrete (q_all : list (list F)) (actions : list nat) (target : tensor F) : res (F * F) :=
    let qp := T1 (gather q_all actions) in
    if same_shape qp target then do l <- mse qp target; Ok (l, tmean qp) else Err.
  Definition dqn_loss (q_all next_q : list (list F)) (actions : list nat) (reward terminated : tensor F) (gamma : F) : res (F * F) :=
    do y <- td_target reward terminated gamma (T1 (row_max (map (map sg) next_q)));
    mse_discrete q_all actions y.
  (** ddqn_loss: indices from the online net at next_obs, values from the target net,
      take_along_axis(...).squeeze(); no chex check *)
  Definition ddqn_target (next_q_online next_q_target : list (list F)) (reward terminated : tensor F) (gamma : F) : res (tensor F) :=
    let idx := row_argmax (map (map sg) next_q_online) in
    let vals := squeeze (T1 (gather (map (map sg) next_q_target) idx)) in
    td_target reward terminated gamma vals.
  Definition ddqn_loss (q_all next_q_online next_q_target : list (list F)) (actions : list nat)
             (reward terminated : tensor F) (gamma : F) : res (F * F) :=
    do y <- ddqn_target next_q_online next_q_target reward terminated gamma;
    let pred := T1 (gather q_all actions) in
    do l <- mse pred y; Ok (l, tmean pred).
  Definition ddqn_per_loss (q_all next_q_online next_q_target : list (list F)) (actions : list nat)
             (reward terminated is_ratio : tensor F) (gamma : F) : res (F * (F * F)) :=
    do y <- ddqn_target next_q_online next_q_target reward terminated gamma;
    let pred := T1 (gather q_all actions) in
    do td <- bop (fun a b => nabs (a - b)) pred y;
    do w <- tmul is_ratio (tmap (fun e => e * e) td);
    Ok (tmean w, (tmean pred, tmean td)).

  (** state_action_embedding_loss: mean squared error between zsa (N, Z) and
      stop_gradient(zs(next_obs)) (N, Z) *)
  Definition sale_loss (zsa zsp : tensor F) : res F := mse zsa (tsg zsp).
End Losses.
