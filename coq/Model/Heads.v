(** L2 models of the policy heads (C13 / C10): function_approximator/policy_head.py —
    SoftmaxPolicy, GaussianPolicy, GaussianTanhPolicy, DeterministicTanhPolicy — per sample
    (one observation's network output); batching is a [map]. [c2pi] = 0.5 * ln(2*pi). *)
From Coq Require Import QArith List.
From RLV Require Import Model.Num Model.Blocks.
Import ListNotations.
Local Close Scope Q_scope.

Section Heads.
  Context {F : Type} {N : NumOps F}.
  Variable c2pi : F.
  Local Open Scope num_scope.

  (** nnx.softmax(logits) (jax subtracts the max first) *)
  Definition softmax (l : list F) : list F :=
    let m := nmaxl l in
    let es := map (fun x => nexp (x - m)) l in
    let s := nsum es in map (fun e => e / s) es.
  (** Categorical(logits).log_prob(a) / .entropy() *)
  Definition cat_logprob (logits : list F) (a : nat) : F := nth a (log_softmax logits) nzero.
  Definition cat_entropy (logits : list F) : F :=
    - nsum (map (fun pl => fst pl * snd pl) (combine (softmax logits) (log_softmax logits))).

  (** std = exp(clip(0.5 * log_var, -20, 2)) *)
  Definition m20 : F := nofQ (-20 # 1).
  Definition gauss_std (log_var : F) : F := nexp (nclip (nhalf * log_var) m20 ntwo).
  (** MultivariateNormalDiag(mean, std).log_prob(action): sum over action dimensions *)
  Definition gauss_logpdf (mean log_var action : list F) : F :=
    nsum (map (fun mla =>
      let '(m, lv, a) := mla in
      let s := gauss_std lv in
      let z := (a - m) / s in
      - nln s - c2pi - nhalf * (z * z))
      (combine (combine mean log_var) action)).
  (** Normal(mean, std).entropy(): one value per action dimension *)
  Definition gauss_entropy (log_var : list F) : list F :=
    map (fun lv => nhalf + c2pi + nln (gauss_std lv)) log_var.
  (** sample = mean + std * eps for key-determined standard normal eps *)
  Definition gauss_sample (mean log_var eps : list F) : list F :=
    map (fun mle => let '(m, lv, e) := mle in e * gauss_std lv + m) (combine (combine mean log_var) eps).

  (** tanh(y) * scale + bias (DeterministicTanhPolicy.scale_output, GaussianTanhPolicy mean) *)
  Definition tanh_scaled (y scale bias : list F) : list F :=
    map (fun ysb => let '(y, s, b) := ysb in ntanh y * s + b) (combine (combine y scale) bias).
  Definition half_range (low high : list F) : list F := map (fun lh => (snd lh - fst lh) / ntwo) (combine low high).
  Definition mid_range (low high : list F) : list F := map (fun lh => (snd lh + fst lh) / ntwo) (combine low high).
End Heads.
