(** Action samplers (C10): ddpg.sample_actions, td3.sample_target_actions, the tanh-scaled
    policy output (policy_head.DeterministicTanhPolicy.scale_output, modelled in Heads.v) and
    cross_entropy_method.cem_sample, per action dimension. *)
From Coq Require Import List.
From RLV Require Import Model.Num.
Import ListNotations.

Section Bounds.
  Context {F : Type} {N : NumOps F}.
  Local Open Scope num_scope.
  Definition half : F := nhalf.
  Definition action_scale (low high : F) : F := half * (high - low).
  (** clip(pi(o) + noise * scale * eps, low, high) *)
  Definition explore_pre (pi noise low high eps : F) : F := pi + noise * action_scale low high * eps.
  Definition sample_action (pi noise low high eps : F) : F := nclip (explore_pre pi noise low high eps) low high.
  (** clipped_eps = clip(noise*scale*eps, -scale*c, scale*c); clip(pi + clipped_eps, low, high) *)
  Definition target_noise (noise noise_clip low high eps : F) : F :=
    let sc := action_scale low high in nclip (noise * sc * eps) (- (sc * noise_clip)) (sc * noise_clip).
  Definition sample_target_action (pi noise noise_clip low high eps : F) : F :=
    nclip (pi + target_noise noise noise_clip low high eps) low high.
  (** cem_sample: z * sqrt(min(min((0.5*(mean-lb))^2, (0.5*(ub-mean))^2), var)) + mean *)
  Definition cem_candidate (mean var lb ub z : F) : F :=
    let l := half * (mean - lb) in let u := half * (ub - mean) in
    z * nsqrt (nmin (nmin (l * l) (u * u)) var) + mean.
End Bounds.
