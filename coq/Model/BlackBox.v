(** L2 model of the black-box optimisers: rl_blox/algorithm/cmaes.py (CMA-ES: configuration,
    incumbent bookkeeping, search-distribution update, flat parameter vectors) and
    rl_blox/blox/cross_entropy_method.py (cem_sample, cem_update).

    Definitions only. Numeric code is polymorphic in [NumOps F]; fitness values live in the
    extended type [xval F] (NaN, -inf, +inf, finite) with the comparison semantics of IEEE /
    Python floats ([nan <= x] is False), of [jnp.argsort] (NaN last, stable) and of
    [jax.lax.top_k] (NaN first, stable).
    Oracles (inputs of the model, not modelled): the eigendecomposition [inv_sqrt] (field
    [s_invsqrt]), [jax.random.multivariate_normal] (the population [samples]) and
    [jax.random.truncated_normal] (the draws [z] of [cem_sample]). *)
From Coq Require Import QArith List Bool Arith.
From RLV Require Import Model.Num Model.Buffers.
Import ListNotations.
Local Close Scope Q_scope.

(* ------------------------------------------------------------------ *)
(** Stable insertion sort: [lt y x = true] means "y goes strictly before x". [isort]
    processes the list from the right, so among equivalent elements the original order
    is kept (jnp.argsort(stable=True), lax.top_k: lower index first). *)
Section Sorting.
  Context {A : Type}.
  Variable lt : A -> A -> bool.
  Fixpoint ins (x : A) (l : list A) : list A :=
    match l with
    | [] => [x]
    | y :: t => if lt y x then y :: ins x t else x :: y :: t
    end.
  Definition isort (l : list A) : list A := fold_right ins [] l.
End Sorting.

(* ------------------------------------------------------------------ *)
(** flat_params / set_params (cmaes.py:462-506). A leaf of [nnx.state(net, nnx.Param)] is
    its shape and its row-major data ([leaf.ravel()], [.reshape(leaf.shape)]). *)
Section Flat.
  Context {A : Type}.
  Definition shape := list nat.
  (** np.prod(leaf.shape) *)
  Definition size (s : shape) : nat := fold_right Nat.mul 1 s.
  Definition leaf := (shape * list A)%type.
  (** jnp.concatenate(list(map(lambda x: x.ravel(), leaves))) *)
  Definition flat_params (leaves : list leaf) : list A := concat (map snd leaves).
  (** for leaf in leaves: params[n_params_set : n_params_set + n_params_leaf].reshape(leaf.shape) *)
  Fixpoint set_params_from (n_params_set : nat) (shapes : list shape) (params : list A) : list leaf :=
    match shapes with
    | [] => []
    | s :: t => (s, firstn (size s) (skipn n_params_set params))
                :: set_params_from (n_params_set + size s) t params
    end.
  Definition set_params (shapes : list shape) (params : list A) : list leaf :=
    set_params_from 0 shapes params.
End Flat.

(* ------------------------------------------------------------------ *)
(** Extended fitness values. *)
Inductive xval (F : Type) : Type := XNaN | XNegInf | XPosInf | XFin (x : F).
Arguments XNaN {F}.
Arguments XNegInf {F}.
Arguments XPosInf {F}.
Arguments XFin {F} x.

Section BlackBox.
  Context {F : Type} {N : NumOps F}.
  Local Open Scope num_scope.

  (** IEEE / Python [a <= b] *)
  Definition xleb (a b : xval F) : bool :=
    match a, b with
    | XNaN, _ => false
    | _, XNaN => false
    | XNegInf, _ => true
    | _, XPosInf => true
    | XFin x, XFin y => nleb x y
    | _, _ => false
    end.
  Definition xneg (a : xval F) : xval F :=
    match a with XNaN => XNaN | XNegInf => XPosInf | XPosInf => XNegInf | XFin x => XFin (- x) end.
  Definition xadd (a b : xval F) : xval F :=
    match a, b with
    | XNaN, _ => XNaN
    | _, XNaN => XNaN
    | XNegInf, XPosInf => XNaN
    | XPosInf, XNegInf => XNaN
    | XNegInf, _ => XNegInf
    | _, XNegInf => XNegInf
    | XPosInf, _ => XPosInf
    | _, XPosInf => XPosInf
    | XFin x, XFin y => XFin (x + y)
    end.
  (** jnp.sum(feedback) *)
  Definition xsum (l : list (xval F)) : xval F := fold_left xadd l (XFin nzero).

  (** a strictly before b in jnp.argsort (ascending, NaN last) *)
  Definition xsort_lt (a b : xval F) : bool :=
    match a, b with
    | XNaN, _ => false
    | _, XNaN => true
    | _, _ => negb (xleb b a)
    end.
  (** a strictly before b in jax.lax.top_k (descending, NaN first) *)
  Definition xtop_lt (a b : xval F) : bool :=
    match a, b with
    | _, XNaN => false
    | XNaN, _ => true
    | _, _ => negb (xleb a b)
    end.

  Definition fit_at (fit : list (xval F)) (i : nat) : xval F := nth i fit XNaN.
  (** jnp.argsort(fitness) *)
  Definition argsort (fit : list (xval F)) : list nat :=
    isort (fun i j => xsort_lt (fit_at fit i) (fit_at fit j)) (seq 0 (length fit)).
  (** jax.lax.top_k(fitness, k)[1] *)
  Definition top_k (fit : list (xval F)) (k : nat) : list nat :=
    firstn k (isort (fun i j => xtop_lt (fit_at fit i) (fit_at fit j)) (seq 0 (length fit))).

  (** Python's builtin min(a, b) / max(a, b): the second argument wins only if strictly better. *)
  Definition pymin (a b : F) : F := if nltb b a then b else a.
  Definition pymax (a b : F) : F := if nltb a b then b else a.

  Definition cst (a b : Z) : F := nofQ (Qmake a (Z.to_pos b)).
  Definition vget (v : list F) (j : nat) : F := nth j v nzero.
  Definition mget (M : list (list F)) (j k : nat) : F := nth k (nth j M []) nzero.
  Definition mk_vec (n : nat) (f : nat -> F) : list F := map f (seq 0 n).
  Definition mk_mat (n : nat) (f : nat -> nat -> F) : list (list F) :=
    map (fun j => map (f j) (seq 0 n)) (seq 0 n).
  (** sum_{i < m} f i *)
  Definition sumn (m : nat) (f : nat -> F) : F := nsum (map f (seq 0 m)).
  Definition eye (n : nat) : list (list F) :=
    mk_mat n (fun j k => if Nat.eqb j k then nunit else nzero).
  Definition diag (v : list F) : list (list F) :=
    mk_mat (length v) (fun j k => if Nat.eqb j k then vget v j else nzero).

  (* ---------------- CMAESConfig.create (cmaes.py:68-138) ---------------- *)
  Record cma_cfg := {
    c_lam : nat;       (* n_samples_per_update *)
    c_n : nat;         (* n_params *)
    c_mu : nat;
    c_w : list F;      (* weights *)
    c_mueff : F; c_cc : F; c_cs : F; c_c1 : F; c_cmu : F; c_damps : F;
    c_psw : F;         (* ps_update_weight *)
    c_hsig : F;        (* hsig_threshold *)
    c_alpha : F;       (* alpha_old *)
    c_negcmu : F }.

  (** weights = math.log(mu + 0.5) - jnp.log1p(jnp.arange(int(mu))), mu = n_samples / 2.0 *)
  Definition cma_raw_weights (lam : nat) : list F :=
    let muf := nofnat lam / cst 2 1 in
    map (fun i => nln (muf + cst 1 2) - nln (nunit + nofnat i)) (seq 0 (lam / 2)).
  (** weights = weights / jnp.sum(weights) *)
  Definition cma_weights (lam : nat) : list F :=
    let w := cma_raw_weights lam in
    let s := nsum w in
    map (fun x => x / s) w.

  Definition cma_config (n lam : nat) : cma_cfg :=
    let w := cma_weights lam in
    let mueff := nunit / nsum (map nsq w) in
    let nf := nofnat n in
    let cc := (cst 4 1 + mueff / nf) / (nf + cst 4 1 + cst 2 1 * mueff / nf) in
    let cs := (mueff + cst 2 1) / (nf + mueff + cst 5 1) in
    let c1 := cst 2 1 / (nsq (nf + cst 13 10) + mueff) in
    let cmu := pymin (nunit - c1) (cst 2 1 * mueff - cst 2 1 + nunit / mueff)
               / (nsq (nf + cst 2 1) + mueff) in
    let damps := nunit + cst 2 1 * pymax nzero (nsqrt ((mueff - nunit) / (nf + nunit)) - nunit) + cs in
    {| c_lam := lam; c_n := n; c_mu := lam / 2; c_w := w; c_mueff := mueff;
       c_cc := cc; c_cs := cs; c_c1 := c1; c_cmu := cmu; c_damps := damps;
       c_psw := nsqrt (cs * (cst 2 1 - cs) * mueff);
       c_hsig := cst 2 1 + cst 4 1 / (nf + nunit);
       c_alpha := cst 1 2;
       c_negcmu := (nunit - cmu) * cst 1 4 * mueff / (npow (nf + cst 2 1) (cst 3 2) + cst 2 1 * mueff) |}.

  (* ---------------- CMAESState (cmaes.py:141-208) ---------------- *)
  Record cma_state := {
    s_it : nat;
    s_mean : list F; s_last_mean : list F;
    s_var : F;
    s_cov : list (list F);
    s_invsqrt : list (list F);          (* oracle: inv_sqrt(cov)[0] at the last eigen update *)
    s_pc : list F; s_ps : list F;
    s_best : xval F; s_best_it : nat; s_best_params : list F }.

  (** CMAESState.create: [cov] is eye / diag / the given matrix, [invsqrt] the oracle's value. *)
  Definition cma_init (mean : list F) (variance : F) (cov invsqrt : list (list F)) : cma_state :=
    {| s_it := 0; s_mean := mean; s_last_mean := mean; s_var := variance; s_cov := cov;
       s_invsqrt := invsqrt;
       s_pc := mk_vec (length mean) (fun _ => nzero); s_ps := mk_vec (length mean) (fun _ => nzero);
       s_best := XPosInf; s_best_it := 0; s_best_params := mean |}.

  (** get_next_parameters (cmaes.py:263-286) *)
  Definition next_parameters (lam : nat) (st : cma_state) (samples : list (list F)) : list F :=
    nth (s_it st mod lam) samples [].

  (** set_evaluation_feedback (cmaes.py:289-321): returns the state and population.fitness *)
  Definition set_feedback (lam : nat) (maximize : bool) (st : cma_state) (samples : list (list F))
             (popfit : list (xval F)) (feedback : list (xval F)) : cma_state * list (xval F) :=
    let k := s_it st mod lam in
    let f0 := xsum feedback in
    let fitness_k := if maximize then xneg f0 else f0 in
    let popfit' := upd popfit k fitness_k in
    let upd_best := xleb fitness_k (s_best st) in
    ({| s_it := S (s_it st);
        s_mean := s_mean st; s_last_mean := s_last_mean st; s_var := s_var st; s_cov := s_cov st;
        s_invsqrt := s_invsqrt st; s_pc := s_pc st; s_ps := s_ps st;
        s_best := if upd_best then fitness_k else s_best st;
        s_best_it := if upd_best then s_it st else s_best_it st;
        s_best_params := if upd_best then nth k samples [] else s_best_params st |}, popfit').

  (* ---------------- update_search_distribution (cmaes.py:324-431) ---------------- *)
  (** samples[ranking[:mu]] *)
  Definition select (samples : list (list F)) (idx : list nat) : list (list F) :=
    map (fun i => nth i samples []) idx.
  (** jnp.sum(weights[:, None] * update_samples, axis=0) *)
  Definition recombine (n mu : nat) (w : list F) (sel : list (list F)) : list F :=
    mk_vec n (fun j => sumn mu (fun i => vget w i * vget (nth i sel []) j)).
  (** (x - last_mean) / sigma for each selected sample *)
  Definition normalise (n : nat) (sel : list (list F)) (last_mean : list F) (sigma : F) : list (list F) :=
    map (fun x => mk_vec n (fun j => (vget x j - vget last_mean j) / sigma)) sel.
  (** (Y.T.dot(diag(w)).dot(Y))[j, k] = sum_i (Y[i, j] * w[i]) * Y[i, k] *)
  Definition rank_mu (mu : nat) (w : list F) (Y : list (list F)) (j k : nat) : F :=
    sumn mu (fun i => vget (nth i Y []) j * vget w i * vget (nth i Y []) k).
  (** exp(min((0.6, log_step_size_update))) ** 2 *)
  Definition step_factor (lss : F) : F := nsq (nexp (pymin (cst 6 10) lss)).

  Definition cma_hsig_lhs (cfg : cma_cfg) (it : nat) (ps_norm_2 : F) : F :=
    let generation := nofnat it / nofnat (c_lam cfg) in
    ps_norm_2 / nofnat (c_n cfg)
    / nsqrt (nunit - npow (nunit - c_cs cfg) (cst 2 1 * generation)).

  Definition cma_update (cfg : cma_cfg) (active : bool) (st : cma_state)
             (samples : list (list F)) (fitness : list (xval F)) : cma_state :=
    let n := c_n cfg in
    let mu := c_mu cfg in
    let w := c_w cfg in
    let cc := c_cc cfg in
    let two := cst 2 1 in
    (* 1) mean *)
    let last_mean := s_mean st in
    let ranking := argsort fitness in
    let update_samples := select samples (firstn mu ranking) in
    let mean := recombine n mu w update_samples in
    let mean_diff := mk_vec n (fun j => vget mean j - vget last_mean j) in
    let sigma := nsqrt (s_var st) in
    (* 2) evolution paths *)
    let ps := mk_vec n (fun j =>
                vget (s_ps st) j
                + ((- c_cs cfg) * vget (s_ps st) j
                   + c_psw cfg / sigma * sumn n (fun k => mget (s_invsqrt st) j k * vget mean_diff k))) in
    let ps_norm_2 := nsq (nsqrt (sumn n (fun j => nsq (vget ps j)))) in
    let hsig := nbool (nltb (cma_hsig_lhs cfg (s_it st) ps_norm_2) (c_hsig cfg)) in
    let pc := mk_vec n (fun j =>
                vget (s_pc st) j * (nunit - cc)
                + hsig * nsqrt (cc * (two - cc) * c_mueff cfg) * vget mean_diff j / sigma) in
    (* 3) covariance *)
    let noise := normalise n update_samples last_mean sigma in
    let c1a := c_c1 cfg * (nunit - (nunit - hsig) * cc * (two - cc)) in
    let cov :=
      if active then
        let neg_update := normalise n (select samples (firstn mu (rev ranking))) last_mean sigma in
        mk_mat n (fun j k =>
          mget (s_cov st) j k * (nunit - c1a - c_cmu cfg + c_negcmu cfg * c_alpha cfg)
          + vget pc j * vget pc k * c_c1 cfg
          + rank_mu mu w noise j k * (c_cmu cfg + c_negcmu cfg * (nunit - c_alpha cfg))
          - rank_mu mu w neg_update j k * c_negcmu cfg)
      else
        mk_mat n (fun j k =>
          mget (s_cov st) j k * (nunit - c1a - c_cmu cfg)
          + vget pc j * vget pc k * c_c1 cfg
          + rank_mu mu w noise j k * c_cmu cfg) in
    (* step size *)
    let log_step_size_update := (c_cs cfg / c_damps cfg) * (ps_norm_2 / nofnat n - nunit) in
    {| s_it := s_it st;
       s_mean := mean; s_last_mean := last_mean;
       s_var := s_var st * step_factor log_step_size_update;
       s_cov := cov; s_invsqrt := s_invsqrt st; s_pc := pc; s_ps := ps;
       s_best := s_best st; s_best_it := s_best_it st; s_best_params := s_best_params st |}.

  (* ---------------- cross_entropy_method.py ---------------- *)
  (** constrained_var of cem_sample (lines 142-147), one coordinate *)
  Definition cem_constrained_var (mean var lb ub : F) : F :=
    nmin (nmin (nsq (cst 1 2 * (mean - lb))) (nsq (cst 1 2 * (ub - mean)))) var.
  (** one sample: z * sqrt(constrained_var) + mean, z the truncated-normal draw *)
  Definition cem_sample1 (z mean var lb ub : list F) : list F :=
    mk_vec (length mean) (fun j =>
      vget z j * nsqrt (cem_constrained_var (vget mean j) (vget var j) (vget lb j) (vget ub j))
      + vget mean j).
  Definition cem_sample (zs : list (list F)) (mean var lb ub : list F) : list (list F) :=
    map (fun z => cem_sample1 z mean var lb ub) zs.

  (** cem_update (lines 208-212) *)
  Definition cem_elites (samples : list (list F)) (fitness : list (xval F)) (n_elite : nat) : list (list F) :=
    select samples (top_k fitness n_elite).
  Definition cem_update (samples : list (list F)) (fitness : list (xval F)) (mean var : list F)
             (n_elite : nat) (alpha : F) : list F * list F :=
    let elites := cem_elites samples fitness n_elite in
    let emean := fun j => nmean (map (fun e => vget e j) elites) in
    let evar := fun j => nmean (map (fun e => nsq (vget e j - emean j)) elites) in
    (mk_vec (length mean) (fun j => alpha * vget mean j + (nunit - alpha) * emean j),
     mk_vec (length mean) (fun j => alpha * vget var j + (nunit - alpha) * evar j)).
End BlackBox.
