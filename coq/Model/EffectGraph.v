(** C09 — effect / call graph of the training code (definitions only).

    The graph itself is NOT written by hand: [harness/c09_translate.py] regenerates
    [Gen/Graph.v] from the Python sources of [rl_blox] on every run.  One node per
    function, method, class (constructor) and module body; the callees are the
    resolved call / reference targets (over-approximated, see the translator); the
    label is the strongest *direct* hidden read of the node:

      Pure       no hidden input (calls on parameters / locals are "given": their
                 determinism is the premise of the property)
      Seeded     creates a generator from an explicit seed argument
      WallClock  reads the clock inside rl_blox/logging (the property exempts the
                 wall-clock fields)
      Ambient    reads unseeded global randomness, time, ids/hashes, or iterates a
                 set of non-numeric elements

    This file defines the graph type, the inductive reachability relation, a
    fuel-bounded frontier closure, the boolean check [ambient_free], and a small
    effect semantics (programs that may call their listed callees and may read an
    ambient oracle only where the label says so). *)
From Coq Require Import List Arith NArith Bool.
Import ListNotations.

Inductive Label : Type := Pure | Seeded | WallClock | Ambient.

Definition is_ambient (l : Label) : bool :=
  match l with Ambient => true | _ => false end.

(** (id, label, callees).  Ids are natural numbers in binary representation ([N]): with unary
    [nat] the per-run [vm_compute] over ~500 nodes / ~5500 edges took 50 s instead of < 1 s. *)
Definition node : Type := (N * Label * list N)%type.
Definition graph : Type := list node.

Definition node_id (nd : node) : N := fst (fst nd).
Definition node_label (nd : node) : Label := snd (fst nd).
Definition node_callees (nd : node) : list N := snd nd.

Fixpoint find_node (g : graph) (n : N) : option node :=
  match g with
  | [] => None
  | nd :: g' => if N.eqb (node_id nd) n then Some nd else find_node g' n
  end.

(** Successors of [n]; an id without a node has none ... *)
Definition succs (g : graph) (n : N) : list N :=
  match find_node g n with Some nd => node_callees nd | None => [] end.

(** ... but counts as [Ambient] (fail-closed: a dangling callee is never "clean"). *)
Definition label_of (g : graph) (n : N) : Label :=
  match find_node g n with Some nd => node_label nd | None => Ambient end.

(** Reachability from a list of roots. *)
Inductive Reach (g : graph) (roots : list N) : N -> Prop :=
| Reach_root : forall r, In r roots -> Reach g roots r
| Reach_step : forall n m, Reach g roots n -> In m (succs g n) -> Reach g roots m.

Definition mem (n : N) (l : list N) : bool := existsb (N.eqb n) l.

(** The nodes newly discovered from a frontier: successors not yet visited, no duplicates. *)
Definition new_nodes (g : graph) (visited frontier : list N) : list N :=
  nodup N.eq_dec (filter (fun m => negb (mem m visited)) (flat_map (succs g) frontier)).

(** Iterated frontier; stops as soon as nothing new is found. *)
Fixpoint closure_aux (g : graph) (fuel : nat) (visited frontier : list N) : list N :=
  match fuel with
  | 0 => visited
  | S f =>
      match new_nodes g visited frontier with
      | [] => visited
      | new => closure_aux g f (new ++ visited) new
      end
  end.

Definition closure (g : graph) (roots : list N) (fuel : nat) : list N :=
  closure_aux g fuel (nodup N.eq_dec roots) (nodup N.eq_dec roots).

(** Every id mentioned anywhere: a finite universe that bounds the closure. *)
Definition universe (g : graph) (roots : list N) : list N :=
  roots ++ flat_map (fun nd => node_id nd :: node_callees nd) g.

Definition enough_fuel (g : graph) (roots : list N) : nat := S (length (universe g roots)).

Definition ambient_free (g : graph) (roots : list N) : bool :=
  forallb (fun n => negb (is_ambient (label_of g n))) (closure g roots (enough_fuel g roots)).

(** Closed graph: every root and every callee has a node.  Then [S (length g)] fuel suffices. *)
Definition closed_graph (g : graph) (roots : list N) : bool :=
  forallb (fun n => mem n (map node_id g)) (universe g roots).

(** * Effect semantics

    A function body is a program over values [V]: it returns, calls a function with an
    argument and continues with the result, or reads the ambient world (clock, global
    generator, hash seed, ...) with a query and continues with the answer.  The world is a
    state machine [read : W -> V -> V * W], so successive reads may differ. *)
Section Semantics.
  Variable V : Type.

  Inductive prog : Type :=
  | Ret (v : V)
  | Call (callee : N) (arg : V) (k : V -> prog)
  | ReadAmbient (query : V) (k : V -> prog).

  (** [code n a] is the body of function [n] applied to argument [a]. *)
  Definition code_table : Type := N -> V -> prog.

  (** A program is admissible for node [n] of [g] if it only calls callees listed for [n]
      and only reads the ambient world when [n] is labelled [Ambient]. *)
  Inductive admissible (g : graph) (n : N) : prog -> Prop :=
  | adm_ret : forall v, admissible g n (Ret v)
  | adm_call : forall m a k, In m (succs g n) -> (forall r, admissible g n (k r)) ->
               admissible g n (Call m a k)
  | adm_read : forall q k, label_of g n = Ambient -> (forall r, admissible g n (k r)) ->
               admissible g n (ReadAmbient q k).

  Definition respects (g : graph) (code : code_table) : Prop :=
    forall n a, admissible g n (code n a).

  Section Run.
    Variable W : Type.
    Variable read : W -> V -> V * W.
    Variable code : code_table.

    (** Fuel-bounded evaluation; [None] = out of fuel. *)
    Fixpoint run (fuel : nat) (w : W) (p : prog) : option (V * W) :=
      match fuel with
      | 0 => None
      | S f =>
          match p with
          | Ret v => Some (v, w)
          | Call m a k =>
              match run f w (code m a) with
              | Some (r, w') => run f w' (k r)
              | None => None
              end
          | ReadAmbient q k => let (r, w') := read w q in run f w' (k r)
          end
      end.

    Definition result (fuel : nat) (w : W) (n : N) (a : V) : option V :=
      option_map fst (run fuel w (code n a)).
  End Run.
End Semantics.

Arguments Ret {V}.
Arguments Call {V}.
Arguments ReadAmbient {V}.
