(** C11 — the warm-up handed to the backbone by the multi-task schedulers
    (uniform_task_sampling.py, active_mt.py). Definitions only.

    A backbone call starts at the global step counter [g], executes [len] environment steps
    and, like every single-task routine of the library, updates its parameters in the iteration
    with (absolute) step counter [s] iff [learning_starts <= s].  The scheduler calls the
    backbone once per scheduled episode until the budget is used.  [PassThrough] is the
    repository's rule (the scheduler's warm-up is handed over unchanged); [Remaining] hands over
    "the exploration steps that are still to be performed", [warm - g]. *)
From Coq Require Import List Arith Bool.
Import ListNotations.

Definition backbone_updates (learning_starts g len : nat) : list nat :=
  filter (fun s => Nat.leb learning_starts s) (seq g len).

Inductive warm_rule := PassThrough | Remaining.
Definition ls_for (rule : warm_rule) (warm g : nat) : nat :=
  match rule with PassThrough => warm | Remaining => warm - g end.

(** [lens]: the lengths of the scheduled episodes in order; a call is cut by the budget.
    Returns the update steps of all calls and the final step counter. *)
Fixpoint sched_run (rule : warm_rule) (warm budget : nat) (lens : list nat) (g : nat) : list nat * nat :=
  match lens with
  | [] => ([], g)
  | L :: rest =>
      if Nat.leb budget g then ([], g) else
      let len := Nat.min L (budget - g) in
      let u := backbone_updates (ls_for rule warm g) g len in
      let '(us, gf) := sched_run rule warm budget rest (g + len) in
      (u ++ us, gf)
  end.
