(** Numeric operations record for the L2 kernels. Kernels are written once, polymorphic
    in [NumOps F]; they are *proved* at [F := R] (instance [R_ops]) and *executed* at
    [F := Q] / OCaml floats (records built by the OCaml driver: exact rational arithmetic
    from the extracted QArith, leaf functions from libm). *)
From Coq Require Import QArith List Reals.
Import ListNotations.
Local Close Scope Q_scope.

Class NumOps (F : Type) := {
  nzero : F; nunit : F;
  nadd : F -> F -> F; nsub : F -> F -> F; nmul : F -> F -> F; ndiv : F -> F -> F;
  nneg : F -> F;
  nleb : F -> F -> bool;                     (* a <= b *)
  nofQ : Q -> F;                             (* rational constants *)
  nexp : F -> F; nln : F -> F; ntanh : F -> F; nsqrt : F -> F;
  npow : F -> F -> F                         (* x ** a for x >= 0 (0 ** a = 0 for a > 0, x ** 0 = 1) *)
}.

Declare Scope num_scope.
Delimit Scope num_scope with num.
Infix "+" := nadd : num_scope.
Infix "-" := nsub : num_scope.
Infix "*" := nmul : num_scope.
Infix "/" := ndiv : num_scope.
Notation "- x" := (nneg x) : num_scope.

Section Derived.
  Context {F : Type} {N : NumOps F}.
  Local Open Scope num_scope.
  Definition nmax (a b : F) : F := if nleb a b then b else a.
  Definition nmin (a b : F) : F := if nleb a b then a else b.
  Definition nabs (a : F) : F := if nleb nzero a then a else - a.
  Definition nltb (a b : F) : bool := negb (nleb b a).
  Definition nsq (a : F) : F := a * a.
  Definition nclip (x lo hi : F) : F := nmin (nmax x lo) hi.      (* jnp.clip(x, lo, hi) *)
  Definition nsum (l : list F) : F := fold_left nadd l nzero.
  Definition nofnat (n : nat) : F := nofQ (inject_Z (Z.of_nat n)).
  Definition nmean (l : list F) : F := nsum l / nofnat (length l).
  Definition nmaxl (l : list F) : F := match l with [] => nzero | x :: t => fold_left nmax t x end.
  Definition nminl (l : list F) : F := match l with [] => nzero | x :: t => fold_left nmin t x end.
  Definition nbool (b : bool) : F := if b then nunit else nzero.
  (** first index of a maximal element (jnp.argmax) *)
  Fixpoint argmax_from (best : F) (bi : nat) (k : nat) (l : list F) : nat :=
    match l with
    | [] => bi
    | x :: t => if nltb best x then argmax_from x k (S k) t else argmax_from best bi (S k) t
    end.
  Definition nargmax (l : list F) : nat :=
    match l with [] => 0%nat | x :: t => argmax_from x 0%nat 1%nat t end.
  (** first index of a minimal element (jnp.argmin) *)
  Fixpoint argmin_from (best : F) (bi : nat) (k : nat) (l : list F) : nat :=
    match l with
    | [] => bi
    | x :: t => if nltb x best then argmin_from x k (S k) t else argmin_from best bi (S k) t
    end.
  Definition nargmin (l : list F) : nat :=
    match l with [] => 0%nat | x :: t => argmin_from x 0%nat 1%nat t end.
  (** jnp.sign *)
  Definition nsign (a : F) : F := if nltb nzero a then nunit else if nltb a nzero then - nunit else nzero.
  Definition nhalf : F := nofQ (1 # 2).
  Definition ntwo : F := nunit + nunit.
End Derived.

(* ------------------------------------------------------------------ *)
(** The instance used in theorems. *)
Local Open Scope R_scope.
Definition Rleb (a b : R) : bool := if Rle_dec a b then true else false.
Definition Rpow (x a : R) : R :=
  if Req_EM_T x 0 then (if Req_EM_T a 0 then 1 else 0) else Rpower x a.
Definition Rtanh (x : R) : R := (exp x - exp (- x)) / (exp x + exp (- x)).
#[export] Instance R_ops : NumOps R := {|
  nzero := 0; nunit := 1; nadd := Rplus; nsub := Rminus; nmul := Rmult; ndiv := Rdiv;
  nneg := Ropp; nleb := Rleb; nofQ := Q2R;
  nexp := exp; nln := ln; ntanh := Rtanh; nsqrt := sqrt; npow := Rpow |}.
