(** L1 models of rl_blox/blox/replay_buffer.py: ReplayBuffer, PriorityBuffer, LAP,
    PrioritizedReplayBuffer, SubtrajectoryReplayBuffer(PER), MultiTaskReplayBuffer.
    Definitions only (all total and computable); proofs live in Proofs/. *)
From Coq Require Import ZArith QArith List Bool Arith.
Import ListNotations.
Local Close Scope Q_scope.
Local Open Scope nat_scope.

(* ------------------------------------------------------------------ *)
(** ** list helpers *)
Fixpoint upd {A} (l : list A) (i : nat) (x : A) : list A :=
  match l, i with
  | [], _ => []
  | _ :: t, O => x :: t
  | h :: t, S j => h :: upd t j x
  end.

(* ------------------------------------------------------------------ *)
(** ** ReplayBuffer (replay_buffer.py:11-135). Rows are opaque payloads of type [A]
    (the harness uses an id that it writes into every field). *)
Section Ring.
  Context {A : Type}.
  Record rb := { cap : nat; slots : list (option A); ins : nat; len : nat }.
  Definition rb_init (N : nat) : rb :=
    {| cap := N; slots := repeat None N; ins := 0; len := 0 |}.
  Definition rb_add (b : rb) (x : A) : rb :=
    {| cap := cap b;
       slots := upd (slots b) (ins b) (Some x);
       ins := (ins b + 1) mod cap b;
       len := Nat.min (len b + 1) (cap b) |}.
  (** sample_batch: rng.integers(0, current_len, batch) -> rows at those indices.
      The model *requests* draws from [0, rb_draw_range). *)
  Definition rb_draw_range (b : rb) : nat := len b.
  Definition rb_sample (b : rb) (idxs : list nat) : list (option A) :=
    map (fun i => nth i (slots b) None) idxs.
  Definition rb_run (N : nat) (h : list A) : rb := fold_left rb_add h (rb_init N).
End Ring.
Arguments rb : clear implicits.

(** Abstract spec: the most recent min(n, N) additions. *)
Definition lastn {A} (k : nat) (l : list A) : list A := skipn (length l - k) l.

(* ------------------------------------------------------------------ *)
(** ** PriorityBuffer (replay_buffer.py:363-401), priorities over Q. *)
Record pb := { prio : list Q; maxp : Q; sampled : list nat }.
Definition pb_init (N : nat) : pb := {| prio := repeat 0%Q N; maxp := 1%Q; sampled := [] |}.

Definition pb_init_prio (p : pb) (idxs : list nat) : pb :=
  {| prio := fold_left (fun pr i => upd pr i (maxp p)) idxs (prio p);
     maxp := maxp p; sampled := sampled p |}.

Fixpoint cumsum_from (a : Q) (l : list Q) : list Q :=
  match l with
  | [] => []
  | x :: t => let s := Qred (a + x)%Q in s :: cumsum_from s t
  end.
Definition cumsum := cumsum_from 0%Q.
(** np.searchsorted(c, x) (side='left') on a sorted array: number of leading
    entries strictly below x. *)
Fixpoint search_left (c : list Q) (x : Q) : nat :=
  match c with
  | [] => 0
  | y :: t => if Qlt_le_dec y x then S (search_left t x) else 0
  end.
Definition qlast (l : list Q) : Q := last l 0%Q.

Definition apply_mask (pr : list Q) (mask : option (list bool)) : list Q :=
  match mask with
  | None => pr
  | Some m => map (fun pm : Q * bool => if snd pm then fst pm else 0%Q) (combine pr m)
  end.

(** prioritized_sampling(current_len, batch, rng, mask) with the uniform variates [us]. *)
Definition pb_sample_idx (pr : list Q) (n : nat) (mask : option (list bool)) (us : list Q) : list nat :=
  let c := cumsum (apply_mask (firstn n pr) (option_map (firstn n) mask)) in
  map (fun u => search_left c (u * qlast c)%Q) us.
Definition pb_sample (p : pb) (n : nat) (mask : option (list bool)) (us : list Q) : pb * list nat :=
  let idx := pb_sample_idx (prio p) n mask us in
  ({| prio := prio p; maxp := maxp p; sampled := idx |}, idx).

(** Stratified variant (PrioritizedReplayBuffer.prioritized_sampling_stratified):
    point k = low_k + (high_k - low_k) * u_k with low_k = k*segment. *)
Fixpoint strat_points (seg : Q) (k : nat) (us : list Q) : list Q :=
  match us with
  | [] => []
  | u :: t =>
      let lo := (inject_Z (Z.of_nat k) * seg)%Q in
      let hi := (inject_Z (Z.of_nat (S k)) * seg)%Q in
      (lo + (hi - lo) * u)%Q :: strat_points seg (S k) t
  end.
Definition strat_sample_idx (pr : list Q) (n : nat) (us : list Q) : list nat :=
  let c := cumsum (firstn n pr) in
  let seg := (qlast c / inject_Z (Z.of_nat (length us)))%Q in
  map (search_left c) (strat_points seg 0 us).

Definition qmax (a b : Q) : Q := if Qlt_le_dec a b then b else a.
Definition qmax_list (l : list Q) (d : Q) : Q := fold_left qmax l d.

(** update_priority(priority array): numpy fancy assignment, last write wins. *)
Definition pb_update (p : pb) (ps : list Q) : pb :=
  {| prio := fold_left (fun pr iv => upd pr (fst iv) (snd iv)) (combine (sampled p) ps) (prio p);
     maxp := qmax_list ps (maxp p);
     sampled := sampled p |}.
(** update_priority(scalar): broadcast to every sampled index. *)
Definition pb_update_scalar (p : pb) (v : Q) : pb :=
  {| prio := fold_left (fun pr i => upd pr i v) (sampled p) (prio p);
     maxp := qmax v (maxp p); sampled := sampled p |}.
Definition pb_reset (p : pb) (n : nat) : pb :=
  match firstn n (prio p) with
  | [] => p
  | x :: t => {| prio := prio p; maxp := qmax_list t x; sampled := sampled p |}
  end.

(* ------------------------------------------------------------------ *)
(** ** LAP and PrioritizedReplayBuffer = ring x priorities. *)
Section Lap.
  Context {A : Type}.
  Record lap := { l_rb : rb A; l_pb : pb }.
  Definition lap_init (N : nat) : lap := {| l_rb := rb_init N; l_pb := pb_init N |}.
  Definition lap_add (b : lap) (x : A) : lap :=
    {| l_rb := rb_add (l_rb b) x; l_pb := pb_init_prio (l_pb b) [ins (l_rb b)] |}.
  Definition lap_sample (b : lap) (us : list Q) : lap * list nat * list (option A) :=
    let '(p', idx) := pb_sample (l_pb b) (len (l_rb b)) None us in
    ({| l_rb := l_rb b; l_pb := p' |}, idx, rb_sample (l_rb b) idx).
  (** PrioritizedReplayBuffer.sample_batch: stratified indices, recorded as the
      priority buffer's last sampled batch. *)
  Definition per_sample (b : lap) (us : list Q) : lap * list nat * list (option A) :=
    let idx := strat_sample_idx (prio (l_pb b)) (len (l_rb b)) us in
    ({| l_rb := l_rb b; l_pb := {| prio := prio (l_pb b); maxp := maxp (l_pb b); sampled := idx |} |},
     idx, rb_sample (l_rb b) idx).
  Definition lap_update (b : lap) (ps : list Q) : lap :=
    {| l_rb := l_rb b; l_pb := pb_update (l_pb b) ps |}.
  Definition lap_update_scalar (b : lap) (v : Q) : lap :=
    {| l_rb := l_rb b; l_pb := pb_update_scalar (l_pb b) v |}.
  Definition lap_reset (b : lap) : lap :=
    {| l_rb := l_rb b; l_pb := pb_reset (l_pb b) (len (l_rb b)) |}.
End Lap.
Arguments lap : clear implicits.

(* ------------------------------------------------------------------ *)
(** ** SubtrajectoryReplayBuffer (replay_buffer.py:137-360). *)
Record srow := { r_obs : Z; r_act : Z; r_rew : Z; r_nobs : Z; r_term : bool; r_trunc : bool }.

Record sb := {
  s_cap : nat; s_H : nat;
  s_slots : list (option srow);
  s_ins : nat; s_len : nat;
  s_ept : nat;                 (* episode_timesteps *)
  s_mask : list bool;          (* mask_ *)
  s_envterm : bool             (* environment_terminates *)
}.
Definition sb_init (N H : nat) : sb :=
  {| s_cap := N; s_H := H; s_slots := repeat None N; s_ins := 0; s_len := 0; s_ept := 0;
     s_mask := repeat false N; s_envterm := false |}.

(** Python's (a - b) % n for naturals a < n, b >= 0. *)
Definition subm (a b n : nat) : nat := (a + (n - b mod n)) mod n.

Definition extra_row (x : srow) : srow :=
  {| r_obs := r_nobs x; r_act := r_act x; r_rew := 0%Z; r_nobs := r_nobs x;
     r_term := r_term x; r_trunc := r_trunc x |}.

(** indices (ins - j - 1) % N for j = 0 .. k-1 *)
Fixpoint past_idx (ins N k : nat) : list nat :=
  match k with
  | O => []
  | S k' => past_idx ins N k' ++ [subm ins (S k') N]
  end.

(** add_sample: returns the new state and the list inserted_at. *)
Definition sb_add (b : sb) (x : srow) : sb * list nat :=
  let N := s_cap b in
  let i0 := s_ins b in
  let slots1 := upd (s_slots b) i0 (Some x) in
  let len1 := Nat.min (s_len b + 1) N in
  let ept1 := s_ept b + 1 in
  let envt := s_envterm b || r_term x in
  let mask1 := upd (s_mask b) i0 false in
  let mask2 := if Nat.ltb (s_H b) ept1 then upd mask1 (subm i0 (s_H b) N) true else mask1 in
  let i1 := (i0 + 1) mod N in
  if r_term x || r_trunc x then
    let slots2 := upd slots1 i1 (Some (extra_row x)) in
    let mask3 := upd mask2 i1 false in
    let past := past_idx i1 N (Nat.min ept1 (s_H b)) in
    let mask4 := fold_left (fun m j => upd m j (negb (r_trunc x))) past mask3 in
    ({| s_cap := N; s_H := s_H b; s_slots := slots2; s_ins := (i1 + 1) mod N;
        s_len := Nat.min (len1 + 1) N; s_ept := 0; s_mask := mask4; s_envterm := envt |},
     [i0; i1])
  else
    ({| s_cap := N; s_H := s_H b; s_slots := slots1; s_ins := i1; s_len := len1; s_ept := ept1;
        s_mask := mask2; s_envterm := envt |}, [i0]).

(** np.nonzero(mask_)[0] *)
Fixpoint nonzero_from (k : nat) (m : list bool) : list nat :=
  match m with
  | [] => []
  | b :: t => (if b then [k] else []) ++ nonzero_from (S k) t
  end.
Definition nonzero := nonzero_from 0.
(** _sample_idx draws from [0, len(nz)) *)
Definition sb_draw_range (b : sb) : nat := length (nonzero (s_mask b)).
Definition sb_starts (b : sb) (draws : list nat) : list nat :=
  map (fun d => nth d (nonzero (s_mask b)) 0) draws.

(** indices (start + j) % current_len, j < h *)
Definition window_idx (b : sb) (start h : nat) : list nat :=
  map (fun j => (start + j) mod s_len b) (seq 0 h).
Definition sb_window (b : sb) (start h : nat) : list (option srow) :=
  map (fun i => nth i (s_slots b) None) (window_idx b start h).

(** Reduced (no-intermediate) view of one window:
    (observation, action) of row 0, next_observation of the last row, per-step rest. *)
Record reduced := { v_obs : option Z; v_act : option Z; v_nobs : option Z;
                    v_rew : list (option Z); v_term : list (option bool); v_trunc : list (option bool) }.
Definition sb_reduced (b : sb) (start h : nat) : reduced :=
  let w := sb_window b start h in
  let first := nth 0 w None in
  let lst := nth (h - 1) w None in
  {| v_obs := option_map r_obs first; v_act := option_map r_act first;
     v_nobs := option_map r_nobs lst;
     v_rew := map (option_map r_rew) w; v_term := map (option_map r_term) w;
     v_trunc := map (option_map r_trunc) w |}.

Definition sb_run (N H : nat) (h : list srow) : sb :=
  fold_left (fun b x => fst (sb_add b x)) h (sb_init N H).

(** Prioritized variant: SubtrajectoryReplayBufferPER. *)
Record sbp := { p_sb : sb; p_pb : pb }.
Definition sbp_init N H := {| p_sb := sb_init N H; p_pb := pb_init N |}.
Definition sbp_add (b : sbp) (x : srow) : sbp :=
  let '(s', at_) := sb_add (p_sb b) x in
  {| p_sb := s'; p_pb := pb_init_prio (p_pb b) at_ |}.
Definition sbp_sample_starts (b : sbp) (us : list Q) : sbp * list nat :=
  let '(p', idx) := pb_sample (p_pb b) (s_len (p_sb b)) (Some (s_mask (p_sb b))) us in
  ({| p_sb := p_sb b; p_pb := p' |}, idx).
Definition sbp_update (b : sbp) (ps : list Q) : sbp :=
  {| p_sb := p_sb b; p_pb := pb_update (p_pb b) ps |}.
Definition sbp_reset (b : sbp) : sbp :=
  {| p_sb := p_sb b; p_pb := pb_reset (p_pb b) (s_len (p_sb b)) |}.

(* ------------------------------------------------------------------ *)
(** ** MultiTaskReplayBuffer (replay_buffer.py:818-902), generic in the buffer type. *)
Section Multi.
  Context {B X : Type}.
  Variable badd : B -> X -> B.
  Record mt := { bufs : list B; selected : nat; active : list nat; sampled_task : option nat }.
  Definition mt_init (b0 : B) (n : nat) : mt :=
    {| bufs := repeat b0 n; selected := 0; active := []; sampled_task := None |}.
  (** select_task: None = ValueError *)
  Definition mt_select (m : mt) (t : Z) : option mt :=
    if (0 <=? t)%Z && (t <? Z.of_nat (length (bufs m)))%Z then
      Some {| bufs := bufs m; selected := Z.to_nat t; active := active m; sampled_task := sampled_task m |}
    else None.
  (** Python set of small ints iterates in ascending order: sorted insert without duplicates. *)
  Fixpoint set_add (s : list nat) (t : nat) : list nat :=
    match s with
    | [] => [t]
    | h :: r => if Nat.eqb t h then s else if Nat.ltb t h then t :: s else h :: set_add r t
    end.
  Definition mt_add (m : mt) (x : X) : mt :=
    match nth_error (bufs m) (selected m) with
    | Some b =>
        {| bufs := upd (bufs m) (selected m) (badd b x); selected := selected m;
           active := set_add (active m) (selected m); sampled_task := sampled_task m |}
    | None => m
    end.
  (** sample_batch: rng.choice(list(active), size=1)[0] with scripted position [pos]. *)
  Definition mt_choose (m : mt) (pos : nat) : mt * option nat :=
    let t := nth_error (active m) pos in
    ({| bufs := bufs m; selected := selected m; active := active m; sampled_task := t |}, t).
End Multi.
Arguments mt : clear implicits.
