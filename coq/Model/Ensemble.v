(** L2 model of the PETS probabilistic ensemble (C17). Definitions only.

    Mirrors, as written:
      rl_blox/blox/function_approximator/gaussian_mlp.py   (GaussianMLP.__call__)
      rl_blox/blox/probabilistic_ensemble.py               (GaussianMLPEnsemble, gaussian_nll,
                                                            gaussian_ensemble_loss, train_ensemble's
                                                            index construction)
      rl_blox/algorithm/pets.py                            (evaluate_plans)
      rl_blox/algorithm/pets_reward_models.py              (pendulum_reward, norm_angle)
    and Gymnasium's PendulumEnv reward (classic_control/pendulum.py).

    The vmap ranks of [_safe_log_var_i] / [_safe_log_var] are modelled on a rank-generic nested
    tensor [pe_tens], so that the SAME definition is applied to inputs of different rank, exactly
    as the Python code does (probabilistic_ensemble.py:95-99, 187-189, 214-216).
    All names carry the prefix [pe_] (one flat OCaml file is extracted for all checks). *)
From Coq Require Import QArith List Bool Arith.
From RLV Require Import Model.Num.
Import ListNotations.
Local Close Scope Q_scope.

(* ------------------------------------------------------------------ *)
(** * Shape-generic list plumbing *)
Section Lists.
  Context {A B C D : Type}.
  Fixpoint pe_map2 (f : A -> B -> C) (la : list A) (lb : list B) : list C :=
    match la, lb with
    | a :: ta, b :: tb => f a b :: pe_map2 f ta tb
    | _, _ => []
    end.
  Fixpoint pe_map3 (f : A -> B -> C -> D) (la : list A) (lb : list B) (lc : list C) : list D :=
    match la, lb, lc with
    | a :: ta, b :: tb, c :: tc => f a b c :: pe_map3 f ta tb tc
    | _, _, _ => []
    end.
End Lists.

Fixpoint pe_sequence {A : Type} (l : list (option A)) : option (list A) :=
  match l with
  | [] => Some []
  | None :: _ => None
  | Some x :: t => match pe_sequence t with Some r => Some (x :: r) | None => None end
  end.

(** Row-major reshape of a flat row into [k] consecutive chunks of [n] elements:
    [row.reshape(k, n)]. *)
Fixpoint pe_chunks {A : Type} (k n : nat) (l : list A) : list (list A) :=
  match k with
  | O => []
  | S k' => firstn n l :: pe_chunks k' n (skipn n l)
  end.

(** Transposition of a matrix whose rows have length [n]: the result has [n] rows. *)
Fixpoint pe_transp {A : Type} (n : nat) (M : list (list A)) : list (list A) :=
  match M with
  | [] => repeat [] n
  | r :: M' => pe_map2 cons r (pe_transp n M')
  end.

(* ------------------------------------------------------------------ *)
(** * Bootstrap rows, joint shuffle and per-member batching
      (probabilistic_ensemble.py:420-437; all index data are [nat] lists)

    [boot]  : the matrix returned by [bootstrap] — one row of [nb] data indices per member.
    [perm]  : the permutation of the positions [0..nb) drawn by
              [jax.random.permutation(key, bootstrap_indices, axis=1)]; with the default
              [independent=False] the SAME permutation is applied to every row. *)
Definition pe_shuffle_rows (boot : list (list nat)) (perm : list nat) : list (list nat) :=
  map (fun row => map (fun j => nth j row 0) perm) boot.

Definition pe_boot_width (boot : list (list nat)) : nat :=
  match boot with r :: _ => length r | [] => 0 end.          (* bootstrap_indices.shape[1] *)

(** batched_indices, shape (n_batches, n_ensemble, batch_size) *)
Definition pe_epoch_batches (bs : nat) (boot : list (list nat)) (perm : list nat) : list (list (list nat)) :=
  let nb := pe_boot_width boot in
  let keep := nb - nb mod bs in                 (* remaining = -(nb % bs); [:, :remaining] *)
  let shuffled := map (firstn keep) (pe_shuffle_rows boot perm) in
  let nbatch := keep / bs in                    (* the -1 of reshape(n_ensemble, batch_size, -1) *)
  let resh := map (pe_chunks bs nbatch) shuffled in           (* (E, bs, nbatch) *)
  pe_transp nbatch (map (pe_transp nbatch) resh).             (* .transpose([2, 0, 1]) *)

(** The same pipeline applied to the row of positions themselves: entry [q][p] is the position
    (column of the bootstrap matrix) that slot [p] of batch [q] reads — for every member. *)
Definition pe_epoch_positions (bs nb : nat) (perm : list nat) : list (list nat) :=
  let keep := nb - nb mod bs in
  let nbatch := keep / bs in
  pe_transp nbatch (pe_chunks bs nbatch (firstn keep perm)).

(* ------------------------------------------------------------------ *)
Section Ensemble.
  Context {F : Type} {N : NumOps F}.
  Local Open Scope num_scope.

  Definition pe_half : F := nofQ (1 # 2).
  Definition pe_two : F := nofQ (2 # 1).

  (** ** GaussianMLP (gaussian_mlp.py:81-92), executable member network.
      A layer is (kernel given by COLUMNS, bias): y_j = sum_i x_i K[i][j] + b_j. *)
  Definition pe_dot (x w : list F) : F := nsum (pe_map2 nmul x w).
  Definition pe_linear (layer : list (list F) * list F) (x : list F) : list F :=
    pe_map2 (fun col b => pe_dot x col + b) (fst layer) (snd layer).
  Definition pe_relu (x : F) : F := nmax x nzero.
  Definition pe_swish (x : F) : F := x * (nunit / (nunit + nexp (- x))).

  Record pe_gmlp := {
    pg_hidden : list (list (list F) * list F);
    pg_shared : bool;
    pg_heads : list (list (list F) * list F);
    pg_nout : nat }.

  Definition pe_gmlp_forward (act : F -> F) (m : pe_gmlp) (x : list F) : list F * list F :=
    let h := fold_left (fun x l => map act (pe_linear l x)) (pg_hidden m) x in
    if pg_shared m then
      let y := pe_linear (nth 0 (pg_heads m) ([], [])) h in
      (firstn (pg_nout m) y, skipn (pg_nout m) y)              (* jnp.split(y, (n_outputs,), -1) *)
    else (pe_linear (nth 0 (pg_heads m) ([], [])) h, pe_linear (nth 1 (pg_heads m) ([], [])) h).

  (** ** Learned soft bounds (probabilistic_ensemble.py:14-18, 112-118) *)
  Definition pe_sigmoid (x : F) : F := nunit / (nunit + nexp (- x)).
  Definition pe_constrained_param (x lo hi : F) : F := lo + (hi - lo) * pe_sigmoid x.
  Definition pe_min_log_var (raw : list F) : list F :=
    map (fun x => pe_constrained_param x (nofQ (-20 # 1)) nzero) raw.
  Definition pe_max_log_var (raw : list F) : list F :=
    map (fun x => pe_constrained_param x (nofQ (-4 # 1)) (nofQ (5 # 1))) raw.

  (** ** safe_log_var (probabilistic_ensemble.py:90-93); nnx.softplus z = ln (1 + e^z) *)
  Definition pe_softplus (z : F) : F := nln (nunit + nexp z).
  Definition pe_safe_log_var (lv mn mx : F) : F :=
    let lv1 := mx - pe_softplus (mx - lv) in
    mn + pe_softplus (lv1 - mn).

  (** ** Rank-generic tensors *)
  Inductive pe_tens : Type :=
  | PSc (x : F)
  | PNd (l : list pe_tens).

  Definition pe_of_vec (v : list F) : pe_tens := PNd (map PSc v).
  Definition pe_of_mat (m : list (list F)) : pe_tens := PNd (map pe_of_vec m).
  Definition pe_of_t3 (t : list (list (list F))) : pe_tens := PNd (map pe_of_mat t).

  Fixpoint pe_scalars (l : list pe_tens) : option (list F) :=
    match l with
    | [] => Some []
    | PSc x :: t => match pe_scalars t with Some r => Some (x :: r) | None => None end
    | PNd _ :: _ => None
    end.
  Definition pe_to_vec (t : pe_tens) : option (list F) :=
    match t with PNd l => pe_scalars l | PSc _ => None end.
  Definition pe_to_mat (t : pe_tens) : option (list (list F)) :=
    match t with PNd l => pe_sequence (map pe_to_vec l) | PSc _ => None end.
  Definition pe_to_t3 (t : pe_tens) : option (list (list (list F))) :=
    match t with PNd l => pe_sequence (map pe_to_mat l) | PSc _ => None end.

  Fixpoint pe_tmap (f : F -> F) (t : pe_tens) : pe_tens :=
    match t with
    | PSc x => PSc (f x)
    | PNd l => PNd (map (pe_tmap f) l)
    end.

  (** [safe_log_var(log_var, min_log_var, max_log_var)] with NumPy broadcasting of a log_var of
      any rank against the two (n_outputs,) bound vectors [mn], [mx]:
        rank 0 : a scalar against (n_outputs,) gives a vector — the scalar is used for EVERY dim;
        rank 1 : elementwise (the intended case);
        rank>1 : right-aligned, i.e. applied to every sub-tensor along the leading axis. *)
  Fixpoint pe_safe_bc (mn mx : list F) (t : pe_tens) : pe_tens :=
    match t with
    | PSc x => PNd (pe_map2 (fun a b => PSc (pe_safe_log_var x a b)) mn mx)
    | PNd l =>
        match pe_scalars l with
        | Some xs => PNd (map PSc (pe_map3 pe_safe_log_var xs mn mx))
        | None => PNd (map (pe_safe_bc mn mx) l)
        end
    end.

  (** [nnx.vmap(f, in_axes=(0, None, None))]: maps over the leading axis; raises on a scalar. *)
  Definition pe_vmap0 (f : pe_tens -> option pe_tens) (t : pe_tens) : option pe_tens :=
    match t with
    | PSc _ => None
    | PNd l => match pe_sequence (map f l) with Some r => Some (PNd r) | None => None end
    end.

  (** self._safe_log_var_i and self._safe_log_var AFTER THE FIX: the plain function; NumPy
      broadcasting of (..., n_outputs) against the (n_outputs,) bounds is correct for every rank. *)
  Definition pe_slv_i (mn mx : list F) (t : pe_tens) : option pe_tens := Some (pe_safe_bc mn mx t).
  Definition pe_slv (mn mx : list F) (t : pe_tens) : option pe_tens := Some (pe_safe_bc mn mx t).

  (** ** The ensemble, generic in the member network.
      [fwd m x] = (mean, raw log-variance) of member [m] on ONE input vector; a member applied
      to a batch acts row by row (an MLP has no cross-row coupling). *)
  Section Generic.
    Context {M : Type} (fwd : M -> list F -> list F * list F).

    Record pe_ens := { pe_members : list M; pe_raw_min : list F; pe_raw_max : list F }.
    Definition pe_mn (e : pe_ens) := pe_min_log_var (pe_raw_min e).
    Definition pe_mx (e : pe_ens) := pe_max_log_var (pe_raw_max e).

    Definition pe_fwd_mean_b (m : M) (X : list (list F)) := map (fun x => fst (fwd m x)) X.
    Definition pe_fwd_lv_b (m : M) (X : list (list F)) := map (fun x => snd (fwd m x)) X.

    (** __call__, x.ndim == 2: _forward_ensemble = vmap(forward, in_axes=(0, None)) *)
    Definition pe_call2 (e : pe_ens) (X : list (list F)) : option (pe_tens * pe_tens) :=
      let means := map (fun m => pe_fwd_mean_b m X) (pe_members e) in
      let raw := map (fun m => pe_fwd_lv_b m X) (pe_members e) in
      match pe_slv (pe_mn e) (pe_mx e) (pe_of_t3 raw) with
      | Some lv => Some (pe_of_t3 means, lv)
      | None => None
      end.

    (** __call__, x.ndim == 3: _forward_individual = vmap(forward, in_axes=(0, 0)) *)
    Definition pe_call3 (e : pe_ens) (Xs : list (list (list F))) : option (pe_tens * pe_tens) :=
      let means := pe_map2 pe_fwd_mean_b (pe_members e) Xs in
      let raw := pe_map2 pe_fwd_lv_b (pe_members e) Xs in
      match pe_slv (pe_mn e) (pe_mx e) (pe_of_t3 raw) with
      | Some lv => Some (pe_of_t3 means, lv)
      | None => None
      end.

    (** An input is a single vector or a batch; the Python methods run the same code on both. *)
    Inductive pe_input := PVec (x : list F) | PBatch (X : list (list F)).

    (** base_model(x) after nnx.split / tree.map(x[i]) / nnx.merge (lines 183-186, 210-213) *)
    Definition pe_member_out (m : M) (inp : pe_input) : pe_tens * pe_tens :=
      match inp with
      | PVec x => (pe_of_vec (fst (fwd m x)), pe_of_vec (snd (fwd m x)))
      | PBatch X => (pe_of_mat (pe_fwd_mean_b m X), pe_of_mat (pe_fwd_lv_b m X))
      end.

    (** base_predict (lines 164-190) *)
    Definition pe_base_predict (e : pe_ens) (d : M) (i : nat) (inp : pe_input) : option (pe_tens * pe_tens) :=
      let '(mean_i, lv_i) := pe_member_out (nth i (pe_members e) d) inp in
      match pe_slv (pe_mn e) (pe_mx e) lv_i with
      | Some lv => Some (mean_i, pe_tmap nexp lv)
      | None => None
      end.

    (** base_distribution (lines 192-218): (loc, scale_diag) of the MultivariateNormalDiag;
        *)
    Definition pe_base_distribution (e : pe_ens) (d : M) (i : nat) (inp : pe_input) : option (pe_tens * pe_tens) :=
      let '(mean_i, lv_i) := pe_member_out (nth i (pe_members e) d) inp in
      match pe_slv_i (pe_mn e) (pe_mx e) lv_i with
      | Some lv => Some (mean_i, pe_tmap (fun l => nexp (pe_half * l)) lv)
      | None => None
      end.

    (** Reductions along axis 0 (the ensemble axis): [col] lists the E member values of one
        remaining position; jnp.var is the population variance. *)
    Definition pe_var (l : list F) : F := let m := nmean l in nmean (map (fun x => nsq (x - m)) l).
    Definition pe_col1 (t : list (list F)) (k : nat) : list F := map (fun v => nth k v nzero) t.
    Definition pe_col2 (t : list (list (list F))) (b k : nat) : list F :=
      map (fun m => nth k (nth b m []) nzero) t.

    (** aggregate on a batch (lines 153-162): means, log_vars of shape (E, B, n_out) *)
    Definition pe_aggregate_batch (e : pe_ens) (X : list (list F)) : option (pe_tens * pe_tens) :=
      let means := map (fun m => pe_fwd_mean_b m X) (pe_members e) in
      let raw := map (fun m => pe_fwd_lv_b m X) (pe_members e) in
      let B := length X in
      let n := length (nth 0 (nth 0 means []) []) in
      match pe_slv (pe_mn e) (pe_mx e) (pe_of_t3 raw) with
      | Some lvt =>
          match pe_to_t3 lvt with
          | Some lvs =>
              let mean := map (fun b => map (fun k => nmean (pe_col2 means b k)) (seq 0 n)) (seq 0 B) in
              let var := map (fun b => map (fun k =>
                            nmean (map nexp (pe_col2 lvs b k)) + pe_var (pe_col2 means b k)) (seq 0 n)) (seq 0 B) in
              Some (pe_of_mat mean, pe_of_mat var)
          | None => None
          end
      | None => None
      end.

    (** aggregate on a single vector: means, log_vars have shape (E, n_out). *)
    Definition pe_aggregate_vec (e : pe_ens) (x : list F) : option (pe_tens * pe_tens) :=
      let means := map (fun m => fst (fwd m x)) (pe_members e) in
      let raw := map (fun m => snd (fwd m x)) (pe_members e) in
      let n := length (nth 0 means []) in
      match pe_slv (pe_mn e) (pe_mx e) (pe_of_mat raw) with
      | Some lvt =>
          match pe_to_mat lvt with
          | Some lvs =>
              let mean := map (fun k => nmean (pe_col1 means k)) (seq 0 n) in
              let var := map (fun k => nmean (map nexp (pe_col1 lvs k)) + pe_var (pe_col1 means k)) (seq 0 n) in
              Some (pe_of_vec mean, pe_of_vec var)
          | None => None
          end
      | None => None
      end.

    Definition pe_aggregate (e : pe_ens) (inp : pe_input) : option (pe_tens * pe_tens) :=
      match inp with PVec x => pe_aggregate_vec e x | PBatch X => pe_aggregate_batch e X end.
  End Generic.

  (** ** gaussian_nll (lines 271-276) on flattened arguments (jnp.mean runs over all entries;
      chex asserts the three shapes equal). optax.l2_loss(p, y) = 0.5 (p - y)^2. *)
  Definition pe_l2_loss (p y : F) : F := pe_half * nsq (p - y).
  Definition pe_gaussian_nll (mu lv y : list F) : F :=
    nmean (pe_map3 (fun m l t => pe_l2_loss m t * nexp (- l)) mu lv y) + pe_half * nmean lv.
  (** gaussian_ensemble_loss (lines 318-320) *)
  Definition pe_ensemble_loss (mu lv y mn mx : list F) : F :=
    pe_gaussian_nll mu lv y + nofQ (1 # 100) * (nsum mx - nsum mn).

  (** ** evaluate_plans (pets.py:319-333): [actions] (S, H), [trajs] (S, P, H+1);
      the actions are broadcast along the particle axis, the last observation is dropped,
      rewards are summed over the horizon (axis -1) and averaged over the particles. *)
  Definition pe_evaluate_plans {Act Obs : Type} (r : Act -> Obs -> F)
      (actions : list (list Act)) (trajs : list (list (list Obs))) : list F :=
    pe_map2 (fun acts parts => nmean (map (fun traj => nsum (pe_map2 r acts (removelast traj))) parts))
            actions trajs.

  (** ** pendulum_reward (pets_reward_models.py:28-43) and Gymnasium's PendulumEnv.
      arccos, floor and pi are not NumOps fields; they are explicit arguments. *)
  Section Pendulum.
    Context (nacos nfloor : F -> F) (npi : F).
    Definition pe_fmod (a m : F) : F := a - m * nfloor (a / m).       (* floored %, jnp.remainder *)
    Definition pe_norm_angle (x : F) : F := pe_fmod (x + npi) (pe_two * npi) - npi.
    Definition pe_pendulum_reward (act obs : list F) : F :=
      let theta := nacos (nclip (nth 0 obs nzero) (- nunit) nunit) in
      let theta_dot := nth 2 obs nzero in
      let a := nclip (nth 0 act nzero) (- pe_two) pe_two in
      - (nsq (pe_norm_angle theta) + nofQ (1 # 10) * nsq theta_dot + nofQ (1 # 1000) * nsq a).
    (** PendulumEnv.step: u = clip(u, -2, 2)[0]; costs = angle_normalize(th)^2 + .1 thdot^2 + .001 u^2;
        reward = -costs, computed from the state BEFORE the step. *)
    Definition pe_gym_pendulum_reward (th thdot : F) (u : list F) : F :=
      let a := nclip (nth 0 u nzero) (- pe_two) pe_two in
      - (nsq (pe_norm_angle th) + nofQ (1 # 10) * nsq thdot + nofQ (1 # 1000) * nsq a).
  End Pendulum.
End Ensemble.
