(** L1 model of rl_blox/blox/checkpointing.py (TD7 deferred training / checkpoints)
    and of the epoch bookkeeping around it in train_td7. Definitions only. *)
From Coq Require Import ZArith QArith List Bool.
Import ListNotations.
Local Close Scope Q_scope.
Local Open Scope Z_scope.

Record cstate := {
  c_eps : Z;        (* episodes_since_udpate *)
  c_ts : Z;         (* timesteps_since_upate *)
  c_maxeps : Z;     (* max_episodes_before_update *)
  c_minret : Q;     (* min_return *)
  c_best : Q        (* best_min_return *)
}.
Definition big : Q := 100000000%Q.   (* 1e8 *)
Definition cstate_init : cstate :=
  {| c_eps := 0; c_ts := 0; c_maxeps := 1; c_minret := big; c_best := (- big)%Q |}.

Definition qmin (a b : Q) : Q := if Qlt_le_dec b a then b else a.   (* Python min(a, b) *)

Record cfg := { k_weight : Q; k_maxeps : Z; k_threshold : Z }.

(** assess_performance_and_checkpoint(state, steps_per_episode, episode_return, epoch, ...)
    returns (new state, update_checkpoint, training_steps). *)
Definition assess (k : cfg) (s : cstate) (steps : Z) (ret : Q) (epoch : Z) : cstate * bool * Z :=
  let eps := c_eps s + 1 in
  let ts := c_ts s + steps in
  let mr := qmin (c_minret s) ret in
  let below := if Qlt_le_dec mr (c_best s) then true else false in
  let full := Z.eqb eps (c_maxeps s) in
  let best1 := if below then c_best s else if full then mr else c_best s in
  let upd := negb below && full in
  let train := if below then ts else if full then ts else 0 in
  if 0 <? train then
    let switch := (epoch <? k_threshold k) && (k_threshold k <=? epoch + ts) in
    ({| c_eps := 0; c_ts := 0;
        c_maxeps := if switch then k_maxeps k else c_maxeps s;
        c_minret := big;
        c_best := if switch then (best1 * k_weight k)%Q else best1 |}, upd, train)
  else
    ({| c_eps := eps; c_ts := ts; c_maxeps := c_maxeps s; c_minret := mr; c_best := best1 |}, upd, train).

(** The TD7 wrapper: after each finished episode the released training steps are
    executed and the epoch counter advances by that many. *)
Fixpoint td7_run (k : cfg) (s : cstate) (epoch : Z) (hist : list (Z * Q)) : list (bool * Z) * cstate * Z :=
  match hist with
  | [] => ([], s, epoch)
  | (steps, ret) :: t =>
      let '(s', u, tr) := assess k s steps ret epoch in
      let '(outs, sf, ef) := td7_run k s' (epoch + tr) t in
      ((u, tr) :: outs, sf, ef)
  end.
