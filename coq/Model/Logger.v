(** L1 model of rl_blox/logging/logger.py (MemoryLogger / StandardLogger /
    LoggerList) and rl_blox/logging/checkpointer.py (OrbaxCheckpointer cadence).
    Definitions only; proofs are in Proofs/LoggerProofs.v. *)
From Coq Require Import ZArith List Bool.
Import ListNotations.
Open Scope Z_scope.

(** Keys and values are opaque ids / payloads of type Z. *)
Inductive lop :=
| LStart                                   (* start_new_episode()          *)
| LStop (total : Z)                        (* stop_episode(total_steps)    *)
| LRecord (key val : Z) (ep st : option Z) (* record_stat(key, value, episode, step) *)
| LEpoch (key : Z) (ep st : option Z)      (* record_epoch(key, value, episode, step) *)
| LDefFreq (key f : Z).                    (* define_checkpoint_frequency(key, f) *)

(** Key 0 is reserved for "episode_length" (recorded by stop_episode). *)
Definition k_episode_length : Z := 0.

(* ---- assoc-list dictionary keyed by Z, insertion ordered (Python dict) ---- *)
Fixpoint dget {A} (d : list (Z * A)) (k : Z) : option A :=
  match d with
  | [] => None
  | (k', v) :: t => if Z.eqb k k' then Some v else dget t k
  end.
Fixpoint dset {A} (d : list (Z * A)) (k : Z) (v : A) : list (Z * A) :=
  match d with
  | [] => [(k, v)]
  | (k', v') :: t => if Z.eqb k k' then (k, v) :: t else (k', v') :: dset t k v
  end.

(** MemoryLogger / StandardLogger statistics state: two parallel dicts of lists
    (stats_loc : (episode, step), stats : value), as in the Python. *)
Record mlog := {
  m_episodes : Z;
  m_steps : Z;
  m_loc : list (Z * list (Z * Z));
  m_val : list (Z * list Z);
  m_epoch : list (Z * Z);          (* StandardLogger.epoch[key]          *)
  m_freq : list (Z * Z);           (* StandardLogger.checkpoint_frequencies *)
  m_ckpt : list (Z * Z)            (* chronological (key, epoch) of saved checkpoints *)
}.
Definition mlog_init : mlog :=
  {| m_episodes := 0; m_steps := 0; m_loc := []; m_val := [];
     m_epoch := []; m_freq := []; m_ckpt := [] |}.

Definition odefault (o : option Z) (d : Z) : Z :=
  match o with Some x => x | None => d end.
Definition lget {A} (d : list (Z * list A)) (k : Z) : list A :=
  match dget d k with Some l => l | None => [] end.

Definition record_stat (s : mlog) (key val : Z) (ep st : option Z) : mlog :=
  let e := odefault ep (m_episodes s) in
  let t := odefault st (m_steps s) in
  {| m_episodes := m_episodes s; m_steps := m_steps s;
     m_loc := dset (m_loc s) key (lget (m_loc s) key ++ [(e, t)]);
     m_val := dset (m_val s) key (lget (m_val s) key ++ [val]);
     m_epoch := m_epoch s; m_freq := m_freq s; m_ckpt := m_ckpt s |}.

(** [standard] = true: StandardLogger (has record_epoch / checkpoints);
    false: MemoryLogger (record_epoch and define_checkpoint_frequency do nothing). *)
Definition mstep (standard : bool) (s : mlog) (o : lop) : mlog :=
  match o with
  | LStart =>
      {| m_episodes := m_episodes s + 1; m_steps := m_steps s; m_loc := m_loc s;
         m_val := m_val s; m_epoch := m_epoch s; m_freq := m_freq s; m_ckpt := m_ckpt s |}
  | LStop total =>
      let s' := {| m_episodes := m_episodes s; m_steps := m_steps s + total;
                   m_loc := m_loc s; m_val := m_val s; m_epoch := m_epoch s;
                   m_freq := m_freq s; m_ckpt := m_ckpt s |} in
      record_stat s' k_episode_length total None None
  | LRecord key val ep st => record_stat s key val ep st
  | LEpoch key ep st =>
      if standard then
        let n := odefault (dget (m_epoch s) key) 0 + 1 in
        let fire := match dget (m_freq s) key with
                    | Some f => Z.eqb (n mod f) 0
                    | None => false end in
        {| m_episodes := m_episodes s; m_steps := m_steps s; m_loc := m_loc s;
           m_val := m_val s; m_epoch := dset (m_epoch s) key n; m_freq := m_freq s;
           m_ckpt := if fire then m_ckpt s ++ [(key, n)] else m_ckpt s |}
      else s
  | LDefFreq key f =>
      if standard then
        {| m_episodes := m_episodes s; m_steps := m_steps s; m_loc := m_loc s;
           m_val := m_val s; m_epoch := m_epoch s; m_freq := dset (m_freq s) key f;
           m_ckpt := m_ckpt s |}
      else s
  end.

Definition mrun (standard : bool) (ops : list lop) : mlog :=
  fold_left (mstep standard) ops mlog_init.

(** get_stat(key): the (episode, step, value) triples in recording order. *)
Definition get_stat (s : mlog) (key : Z) : list (Z * Z * Z) :=
  combine (lget (m_loc s) key) (lget (m_val s) key).

(* ------------------------------------------------------------------ *)
(** Abstract spec: a chronological log of resolved records. *)
Record slog := { s_episodes : Z; s_steps : Z; s_log : list (Z * (Z * Z * Z)) }.
Definition slog_init := {| s_episodes := 0; s_steps := 0; s_log := [] |}.
Definition sstep (s : slog) (o : lop) : slog :=
  match o with
  | LStart => {| s_episodes := s_episodes s + 1; s_steps := s_steps s; s_log := s_log s |}
  | LStop total =>
      {| s_episodes := s_episodes s; s_steps := s_steps s + total;
         s_log := s_log s ++ [(k_episode_length, (s_episodes s, s_steps s + total, total))] |}
  | LRecord key val ep st =>
      {| s_episodes := s_episodes s; s_steps := s_steps s;
         s_log := s_log s ++ [(key, (odefault ep (s_episodes s), odefault st (s_steps s), val))] |}
  | _ => s
  end.
Definition srun (ops : list lop) : slog := fold_left sstep ops slog_init.
Definition spec_get_stat (s : slog) (key : Z) : list (Z * Z * Z) :=
  map snd (filter (fun kv => Z.eqb key (fst kv)) (s_log s)).

Definition count_start (ops : list lop) : Z :=
  fold_left (fun a o => match o with LStart => a + 1 | _ => a end) ops 0.
Definition sum_stop (ops : list lop) : Z :=
  fold_left (fun a o => match o with LStop t => a + t | _ => a end) ops 0.

(** LoggerList: every member receives every call. *)
Definition list_step (kinds : list bool) (ss : list mlog) (o : lop) : list mlog :=
  map (fun ks => mstep (fst ks) (snd ks) o) (combine kinds ss).
Definition list_run (kinds : list bool) (ops : list lop) : list mlog :=
  fold_left (list_step kinds) ops (map (fun _ => mlog_init) kinds).

(* ------------------------------------------------------------------ *)
(** OrbaxCheckpointer.record_epoch cadence (checkpointer.py:185-196). *)
Definition due (f last step : Z) : bool :=
  (step mod f <? last mod f) || (f <=? step - last).

Record ckpt := {
  c_episodes : Z; c_steps : Z;
  c_epoch : list (Z * Z);
  c_last : list (Z * Z);           (* last_step[key]        *)
  c_freq : list (Z * Z);
  c_saved : list (Z * (Z * Z))     (* chronological (key, (step, epoch)) *)
}.
Definition ckpt_init :=
  {| c_episodes := 0; c_steps := 0; c_epoch := []; c_last := []; c_freq := []; c_saved := [] |}.

Definition cstep (s : ckpt) (o : lop) : ckpt :=
  match o with
  | LStart => {| c_episodes := c_episodes s + 1; c_steps := c_steps s; c_epoch := c_epoch s;
                 c_last := c_last s; c_freq := c_freq s; c_saved := c_saved s |}
  | LStop t => {| c_episodes := c_episodes s; c_steps := c_steps s + t; c_epoch := c_epoch s;
                  c_last := c_last s; c_freq := c_freq s; c_saved := c_saved s |}
  | LRecord _ _ _ _ => s
  | LDefFreq key f =>
      {| c_episodes := c_episodes s; c_steps := c_steps s; c_epoch := c_epoch s;
         c_last := dset (c_last s) key 0; c_freq := dset (c_freq s) key f;
         c_saved := c_saved s |}
  | LEpoch key ep st =>
      let n := odefault (dget (c_epoch s) key) 0 + 1 in
      let step := odefault st (c_steps s) in
      let last := odefault (dget (c_last s) key) 0 in
      let fire := match dget (c_freq s) key with
                  | Some f => due f last step
                  | None => false end in
      {| c_episodes := c_episodes s; c_steps := c_steps s;
         c_epoch := dset (c_epoch s) key n;
         c_last := dset (c_last s) key step;
         c_freq := c_freq s;
         c_saved := if fire then c_saved s ++ [(key, (step, n))] else c_saved s |}
  end.
Definition crun (ops : list lop) : ckpt := fold_left cstep ops ckpt_init.

(** Single-key cadence over a sequence of recorded steps (spec side). *)
Fixpoint fired (f last : Z) (steps : list Z) : list bool :=
  match steps with
  | [] => []
  | s :: t => due f last s :: fired f s t
  end.
Fixpoint crossings (f last : Z) (steps : list Z) : list bool :=
  match steps with
  | [] => []
  | s :: t => (last / f <? s / f) :: crossings f s t
  end.
Fixpoint nondecreasing_from (last : Z) (steps : list Z) : Prop :=
  match steps with
  | [] => True
  | s :: t => last <= s /\ nondecreasing_from s t
  end.
