(** Frame model for update routines (C05).  Parameters live in a heap indexed by leaf
    identities (the identity of an nnx.Variable in the live objects); an object (module,
    optimizer, bare variable) is a list of (path, leaf) pairs; an update routine writes
    oracle values to the leaves of its trained component and of its optimizer state. *)
From Coq Require Import List Arith Bool.
Import ListNotations.

Definition leaf := nat.
Definition obj := list (nat * leaf).

Definition mem (x : nat) (l : list nat) : bool := existsb (Nat.eqb x) l.

Record routine := { trained : list leaf; opt : list leaf }.
Definition write_set (r : routine) : list leaf := trained r ++ opt r.

(** paths of an object that a routine with write-set [ws] may change *)
Definition may_change (ws : list leaf) (o : obj) : list nat :=
  map fst (filter (fun pl => mem (snd pl) ws) o).

(** observed changed paths that the write-set does not explain *)
Definition frame_violations (ws : list leaf) (o : obj) (changed : list nat) : list nat :=
  filter (fun p => negb (mem p (may_change ws o))) changed.

Fixpoint frame_check_from (i : nat) (ws : list leaf) (objs : list obj) (changed : list (list nat)) : list (nat * nat) :=
  match objs, changed with
  | o :: objs', c :: changed' => map (fun p => (i, p)) (frame_violations ws o c) ++ frame_check_from (S i) ws objs' changed'
  | _, _ => []
  end.
Definition frame_check := frame_check_from 0.

(** two objects share storage when some leaf occurs in both *)
Definition shares (o1 o2 : obj) : bool := existsb (fun pl => mem (snd pl) (map snd o2)) o1.
(** pairs (i, j), i < j, of objects in the list that share storage *)
Fixpoint sharing_from (i : nat) (objs : list obj) : list (nat * nat) :=
  match objs with
  | [] => []
  | o :: rest =>
      map (fun j => (i, S i + j)) (filter (fun j => shares o (nth j rest [])) (seq 0 (length rest))) ++ sharing_from (S i) rest
  end.
Definition sharing := sharing_from 0.

Section Heap.
  Variable V : Type.
  Definition heap := leaf -> V.
  Definition apply (r : routine) (oracle : leaf -> V) (h : heap) : heap :=
    fun l => if mem l (write_set r) then oracle l else h l.
  Definition apply_all (rs : list (routine * (leaf -> V))) (h : heap) : heap :=
    fold_left (fun h ro => apply (fst ro) (snd ro) h) rs h.
  Definition read (h : heap) (o : obj) : list (nat * V) := map (fun pl => (fst pl, h (snd pl))) o.
  Variable eqb : V -> V -> bool.
  Definition changed_paths (h h' : heap) (o : obj) : list nat :=
    map fst (filter (fun pl => negb (eqb (h (snd pl)) (h' (snd pl)))) o).
End Heap.
