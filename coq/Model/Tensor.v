(** A small shaped-tensor calculus (rank <= 2) with NumPy's right-aligned broadcasting.
    Half of the numeric properties are *about* broadcasting ((N,) against (N,1), batch size
    1, squeeze), so shapes are explicit and a shape mismatch is an explicit [Err]. *)
From Coq Require Import List Arith.
From RLV Require Import Model.Num.
Import ListNotations.

Inductive res (A : Type) := Ok (a : A) | Err.
Arguments Ok {A} a. Arguments Err {A}.
Definition rbind {A B} (r : res A) (f : A -> res B) : res B := match r with Ok a => f a | Err => Err end.
Definition rmap {A B} (f : A -> B) (r : res A) : res B := match r with Ok a => Ok (f a) | Err => Err end.
Notation "'do' x <- r ; k" := (rbind r (fun x => k)) (at level 200, x name, r at level 100, k at level 200).

Fixpoint rall {A} (l : list (res A)) : res (list A) :=
  match l with
  | [] => Ok []
  | r :: t => do a <- r; do rest <- rall t; Ok (a :: rest)
  end.

Section Tensor.
  Context {F : Type} {N : NumOps F}.

  Inductive tensor := T0 (x : F) | T1 (l : list F) | T2 (rows : list (list F)).

  (** shape as NumPy reports it (rows of a T2 are assumed rectangular; [rect] checks) *)
  Definition shape (t : tensor) : list nat :=
    match t with
    | T0 _ => []
    | T1 l => [length l]
    | T2 rows => [length rows; match rows with [] => 0 | r :: _ => length r end]
    end.
  Definition rect (rows : list (list F)) : bool :=
    match rows with [] => true | r :: t => forallb (fun r' => Nat.eqb (length r') (length r)) t end.

  (** 1-D broadcast: equal lengths, or one side of length 1 *)
  Definition bzip {A B C} (f : A -> B -> C) (a : list A) (b : list B) : res (list C) :=
    if Nat.eqb (length a) (length b) then Ok (map (fun xy => f (fst xy) (snd xy)) (combine a b))
    else match a, b with
         | [x], _ => Ok (map (f x) b)
         | _, [y] => Ok (map (fun x => f x y) a)
         | _, _ => Err
         end.

  (** elementwise binary operation with NumPy broadcasting *)
  Definition bop (f : F -> F -> F) (a b : tensor) : res tensor :=
    match a, b with
    | T0 x, T0 y => Ok (T0 (f x y))
    | T0 x, T1 l => Ok (T1 (map (f x) l))
    | T1 l, T0 y => Ok (T1 (map (fun x => f x y) l))
    | T0 x, T2 r => Ok (T2 (map (map (f x)) r))
    | T2 r, T0 y => Ok (T2 (map (map (fun x => f x y)) r))
    | T1 l1, T1 l2 => rmap T1 (bzip f l1 l2)
    | T1 l, T2 r => rmap T2 (rall (map (fun row => bzip f l row) r))
    | T2 r, T1 l => rmap T2 (rall (map (fun row => bzip f row l) r))
    | T2 r1, T2 r2 => do rows <- bzip (fun x y => bzip f x y) r1 r2; rmap T2 (rall rows)
    end.

  Definition tadd := bop nadd.
  Definition tsub := bop nsub.
  Definition tmul := bop nmul.
  Definition tmap (f : F -> F) (t : tensor) : tensor :=
    match t with T0 x => T0 (f x) | T1 l => T1 (map f l) | T2 r => T2 (map (map f) r) end.

  (** x.squeeze(): drop every axis of size 1 *)
  Definition squeeze (t : tensor) : tensor :=
    match t with
    | T0 x => T0 x
    | T1 [x] => T0 x
    | T1 l => T1 l
    | T2 [[x]] => T0 x
    | T2 [r] => T1 r
    | T2 rows => if forallb (fun r => Nat.eqb (length r) 1) rows then T1 (map (fun r => hd nzero r) rows) else T2 rows
    end.
  (** x[:, None] *)
  Definition col (l : list F) : tensor := T2 (map (fun x => [x]) l).
  (** x.flatten() *)
  Definition flatten (t : tensor) : list F :=
    match t with T0 x => [x] | T1 l => l | T2 r => concat r end.
  (** jnp.mean(x) over all elements *)
  Definition tmean (t : tensor) : F := nmean (flatten t).
  Definition tsum (t : tensor) : F := nsum (flatten t).
  (** reductions over the last axis of a matrix *)
  Definition row_sums (r : list (list F)) : list F := map nsum r.
  Definition row_max (r : list (list F)) : list F := map nmaxl r.
  Definition row_argmax (r : list (list F)) : list nat := map nargmax r.
  (** q[arange(n), idx] *)
  Definition gather (r : list (list F)) (idx : list nat) : list F :=
    map (fun ri => nth (snd ri) (fst ri) nzero) (combine r idx).
End Tensor.
Arguments tensor F : clear implicits.
