(** L2/L1 model of the tabular learners: q_learning.py, sarsa.py, double_q_learning.py,
    monte_carlo.py, dynaq.py, util/error_functions.py, blox/value_policy.py (greedy). *)
From Coq Require Import QArith List Bool Arith.
From RLV Require Import Model.Num Model.Buffers.
Import ListNotations.
Local Close Scope Q_scope.

Section Tabular.
  Context {F : Type} {N : NumOps F}.
  Local Open Scope num_scope.

  Definition table := list (list F).
  Definition trow (t : table) (s : nat) : list F := nth s t [].
  Definition tget (t : table) (s a : nat) : F := nth a (trow t s) nzero.
  Definition tset (t : table) (s a : nat) (v : F) : table := upd t s (upd (trow t s) a v).

  (** greedy_policy: jnp.argmax(q_table[observation]) (first maximiser) *)
  Definition greedy (t : table) (s : nat) : nat := nargmax (trow t s).

  (** td_error(reward, gamma, value, next_value) *)
  Definition td_error (r gamma v nv : F) : F := r + gamma * nv - v.

  (** _update_policy of q_learning.py / sarsa.py *)
  Definition update_policy (t : table) (s a : nat) (r : F) (s' a' : nat) (gamma : F) (term : bool) (lr : F) : table :=
    let v := tget t s a in
    let nv := (nunit - nbool term) * tget t s' a' in
    tset t s a (v + lr * td_error r gamma v nv).

  (** One Q-learning step as the training loop performs it: next_action = greedy(q, s'). *)
  Definition q_learning_step (t : table) (s a : nat) (r : F) (s' : nat) (gamma : F) (term : bool) (lr : F) : table :=
    update_policy t s a r s' (greedy t s') gamma term lr.

  (** _dql_update(q_table1 := updated table, q_table2 := other table) *)
  Definition dql_update (t1 t2 : table) (s a : nat) (r : F) (s' : nat) (gamma lr : F) (term : bool) : table :=
    let a' := greedy t1 s' in
    let v := tget t1 s a in
    let nv := (nunit - nbool term) * tget t2 s' a' in
    tset t1 s a (v + lr * td_error r gamma v nv).

  (** monte_carlo.update: backward loop over one episode (every-visit running mean). *)
  Fixpoint mc_back (q n : table) (ret : F) (steps : list (nat * nat * F)) (gamma : F) : table * table :=
    match steps with
    | [] => (q, n)
    | (s, a, r) :: rest =>
        let ret' := r + gamma * ret in
        let n' := tset n s a (tget n s a + nunit) in
        let q' := tset q s a (tget q s a + nunit / tget n' s a * (ret' - tget q s a)) in
        mc_back q' n' ret' rest gamma
    end.
  (** [episode] in chronological order *)
  Definition mc_update (q n : table) (episode : list (nat * nat * F)) (gamma : F) : table * table :=
    mc_back q n nzero (rev episode) gamma.

  (** dynaq.q_learning_update (no termination mask, as written) *)
  Definition dyna_q_update (t : table) (s a : nat) (r : F) (s' : nat) (gamma lr : F) : table :=
    let a' := greedy t s' in
    let target := r + gamma * tget t s' a' - tget t s a in
    tset t s a (tget t s a + lr * target).

  (** Dyna-Q counters and forward model: indexed [s][a][s']. *)
  Definition cube (X : Type) := list (list (list X)).
  Definition cget {X} (c : cube X) (d : X) (s a s' : nat) : X := nth s' (nth a (nth s c []) []) d.
  Definition cset {X} (c : cube X) (s a s' : nat) (v : X) : cube X :=
    upd c s (upd (nth s c []) a (upd (nth a (nth s c []) []) s' v)).
  Definition crow_set {X} (c : cube X) (s a : nat) (row : list X) : cube X :=
    upd c s (upd (nth s c []) a row).

  Record dyna := { d_count : cube nat; d_rewards : cube (list F); d_trans : cube F; d_rew : cube F }.

  Definition counter_update (d : dyna) (s a : nat) (r : F) (s' : nat) : dyna :=
    {| d_count := cset (d_count d) s a s' (S (cget (d_count d) 0%nat s a s'));
       d_rewards := cset (d_rewards d) s a s' (cget (d_rewards d) [] s a s' ++ [r]);
       d_trans := d_trans d; d_rew := d_rew d |}.

  (** model_update: empirical successor frequencies of (s, a) and mean reward of (s, a, s'). *)
  Definition model_update (d : dyna) (s a s' : nat) : dyna :=
    let counts := nth a (nth s (d_count d) []) [] in
    let total := fold_left Nat.add counts 0%nat in
    {| d_count := d_count d; d_rewards := d_rewards d;
       d_trans := crow_set (d_trans d) s a (map (fun c => nofnat c / nofnat total) counts);
       d_rew := cset (d_rew d) s a s' (nmean (cget (d_rewards d) [] s a s')) |}.

  (** planning: for each sampled (s, a): successor = argmax of the model row, model reward. *)
  Definition plan_step (d : dyna) (gamma lr : F) (t : table) (sa : nat * nat) : table :=
    let '(s, a) := sa in
    let s' := nargmax (nth a (nth s (d_trans d) []) []) in
    dyna_q_update t s a (cget (d_rew d) nzero s a s') s' gamma lr.
  Definition planning (d : dyna) (samples : list (nat * nat)) (gamma lr : F) (t : table) : table :=
    fold_left (plan_step d gamma lr) samples t.

  (** One Dyna-Q environment step (direct RL, counters, model, planning on given samples). *)
  Definition dyna_step (gamma lr : F) (st : table * dyna) (tr : nat * nat * F * nat * list (nat * nat)) : table * dyna :=
    let '(t, d) := st in
    let '(s, a, r, s', samples) := tr in
    let t1 := dyna_q_update t s a r s' gamma lr in
    let d1 := model_update (counter_update d s a r s') s a s' in
    (planning d1 samples gamma lr t1, d1).

  Definition zeros2 (ns na : nat) : table := repeat (repeat nzero na) ns.
  Definition dyna_init (ns na : nat) : dyna :=
    {| d_count := repeat (repeat (repeat 0%nat ns) na) ns;
       d_rewards := repeat (repeat (repeat [] ns) na) ns;
       d_trans := repeat (repeat (repeat nzero ns) na) ns;
       d_rew := repeat (repeat (repeat nzero ns) na) ns |}.
End Tabular.
