(** On-policy collectors on Gymnasium vector environments (C01): ppo.collect_trajectories
    (SAME_STEP autoreset, bootstrap observation patched from info["final_obs"] by environment
    index) and a2c.collect_trajectories (NEXT_STEP autoreset).  Sub-environments are the scripted
    recording environments of Loop.v; policies and critics are oracles. *)
From Coq Require Import List Arith Bool.
From RLV Require Import Model.Loop.
Import ListNotations.

Inductive automode := NextStep | SameStep.
Record venv := { v_env : env; v_pending : bool (* NEXT_STEP: the episode ended on the previous step *) }.
Record vout := { vo_obs : obs; vo_reward : nat; vo_term : bool; vo_trunc : bool; vo_final : option obs }.

Definition vinit (script : list (nat * endk)) : venv * obs :=
  let '(e, o) := env_reset (env_init script) in ({| v_env := e; v_pending := false |}, o).

(** one sub-environment under the vector wrapper's autoreset *)
Definition vstep (m : automode) (v : venv) : venv * vout :=
  match m with
  | NextStep =>
      if v_pending v then
        let '(e, o) := env_reset (v_env v) in
        ({| v_env := e; v_pending := false |}, {| vo_obs := o; vo_reward := 0; vo_term := false; vo_trunc := false; vo_final := None |})
      else
        let '(e, (o, r, te, tr)) := env_step (v_env v) in
        ({| v_env := e; v_pending := te || tr |}, {| vo_obs := o; vo_reward := r; vo_term := te; vo_trunc := tr; vo_final := None |})
  | SameStep =>
      let '(e, (o, r, te, tr)) := env_step (v_env v) in
      if te || tr then
        let '(e2, o0) := env_reset e in
        ({| v_env := e2; v_pending := false |}, {| vo_obs := o0; vo_reward := r; vo_term := te; vo_trunc := tr; vo_final := Some o |})
      else
        ({| v_env := e; v_pending := false |}, {| vo_obs := o; vo_reward := r; vo_term := te; vo_trunc := tr; vo_final := None |})
  end.

Definition vec_step (m : automode) (vs : list venv) : list venv * list vout :=
  let rs := map (vstep m) vs in (map fst rs, map snd rs).

(** how the bootstrap observation is obtained from next_obs and info["final_obs"] *)
Inductive patch_rule :=
| ByIndex               (* obs.at[env_idx].set(final_obs[env_idx]) for every finished env_idx  (the code) *)
| ByFilteredPosition    (* k-th finished environment written at position k  (the defect repaired by 76092e8) *)
| NoPatch.              (* bootstrap from the autoreset observation *)
Fixpoint somes {A} (l : list (option A)) : list A :=
  match l with [] => [] | Some x :: t => x :: somes t | None :: t => somes t end.
Definition patch (rule : patch_rule) (next : list obs) (finals : list (option obs)) : list obs :=
  match rule with
  | ByIndex => map (fun nf => match snd nf with Some x => x | None => fst nf end) (combine next finals)
  | ByFilteredPosition => let fs := somes finals in fs ++ skipn (length fs) next
  | NoPatch => next
  end.
(** which vector the next iteration acts on *)
Inductive carry_rule := CarryNext (* obs = next_obs *) | CarryPatched (* the patched vector is carried over *).

Record prow := { p_obs : obs; p_reward : nat; p_term : bool; p_trunc : bool (* ghost: not kept by the routine *); p_boot : obs }.
Definition mk_rows (cur : list obs) (outs : list vout) (boot : list obs) : list prow :=
  map (fun x => let '(o, out, b) := x in {| p_obs := o; p_reward := vo_reward out; p_term := vo_term out; p_trunc := vo_trunc out; p_boot := b |})
      (combine (combine cur outs) boot).

(** ppo.collect_trajectories: T vector steps; returns the rows per step, the environments and the carried observation *)
Fixpoint ppo_collect (rule : patch_rule) (carry : carry_rule) (T : nat) (vs : list venv) (cur : list obs)
  : list (list prow) * list venv * list obs :=
  match T with
  | 0 => ([], vs, cur)
  | S T' =>
      let '(vs1, outs) := vec_step SameStep vs in
      let next := map vo_obs outs in
      let boot := patch rule next (map vo_final outs) in
      let '(rows, vs2, last) := ppo_collect rule carry T' vs1 (match carry with CarryNext => next | CarryPatched => boot end) in
      (mk_rows cur outs boot :: rows, vs2, last)
  end.

(** a2c.collect_trajectories: rows (obs, reward, terminated, truncated) per step under NEXT_STEP autoreset *)
Record arow := { a_obs : obs; a_reward : nat; a_term : bool; a_trunc : bool }.
Fixpoint a2c_collect (T : nat) (vs : list venv) (cur : list obs) : list (list arow) * list venv * list obs :=
  match T with
  | 0 => ([], vs, cur)
  | S T' =>
      let '(vs1, outs) := vec_step NextStep vs in
      let '(rows, vs2, last) := a2c_collect T' vs1 (map vo_obs outs) in
      (map (fun x => {| a_obs := fst x; a_reward := vo_reward (snd x); a_term := vo_term (snd x); a_trunc := vo_trunc (snd x) |}) (combine cur outs) :: rows,
       vs2, last)
  end.

Definition vec_init (scripts : list (list (nat * endk))) : list venv * list obs :=
  let rs := map vinit scripts in (map fst rs, map snd rs).
Definition ppo_run rule carry T scripts := let '(vs, o) := vec_init scripts in ppo_collect rule carry T vs o.
Definition a2c_run T scripts := let '(vs, o) := vec_init scripts in a2c_collect T vs o.
