(** Operation interpreters over the buffer models: one [run] per buffer class,
    returning the observable output of every operation. Used by the
    correspondence checks (C02, C04, C08, C19) and by the history theorems. *)
From Coq Require Import ZArith QArith List Bool Arith.
From RLV Require Import Model.Buffers.
Import ListNotations.
Local Close Scope Q_scope.
Local Open Scope nat_scope.

(* ---- uniform ReplayBuffer over Z payloads ---- *)
Inductive rop := RAdd (x : Z) | RSample (idxs : list nat).
Record rout := { ro_len : nat; ro_range : nat; ro_rows : list (option Z) }.
Definition rb_step (b : rb Z) (o : rop) : rb Z * rout :=
  match o with
  | RAdd x => let b' := rb_add b x in
              (b', {| ro_len := len b'; ro_range := rb_draw_range b'; ro_rows := [] |})
  | RSample idxs => (b, {| ro_len := len b; ro_range := rb_draw_range b; ro_rows := rb_sample b idxs |})
  end.
Fixpoint rb_trace (b : rb Z) (ops : list rop) : list rout :=
  match ops with
  | [] => []
  | o :: t => let '(b', out) := rb_step b o in out :: rb_trace b' t
  end.

(* ---- LAP / PrioritizedReplayBuffer ---- *)
Inductive lapop :=
| LAdd (x : Z) | LSample (us : list Q) | LUpdate (ps : list Q) | LUpdateScalar (v : Q) | LReset.
Record lout := { lo_len : nat; lo_maxp : Q; lo_prio : list Q; lo_idx : list nat; lo_rows : list (option Z) }.
Definition lap_obs (b : lap Z) (idx : list nat) (rows : list (option Z)) : lout :=
  {| lo_len := len (l_rb b); lo_maxp := maxp (l_pb b);
     lo_prio := firstn (len (l_rb b)) (prio (l_pb b)); lo_idx := idx; lo_rows := rows |}.
(** [strat] selects PrioritizedReplayBuffer (stratified sampling). *)
Definition lap_step (strat : bool) (b : lap Z) (o : lapop) : lap Z * lout :=
  match o with
  | LAdd x => let b' := lap_add b x in (b', lap_obs b' [] [])
  | LSample us =>
      let '(b', idx, rows) := if strat then per_sample b us else lap_sample b us in
      (b', lap_obs b' idx rows)
  | LUpdate ps => let b' := lap_update b ps in (b', lap_obs b' [] [])
  | LUpdateScalar v => let b' := lap_update_scalar b v in (b', lap_obs b' [] [])
  | LReset => let b' := lap_reset b in (b', lap_obs b' [] [])
  end.
Fixpoint lap_trace (strat : bool) (b : lap Z) (ops : list lapop) : list lout :=
  match ops with
  | [] => []
  | o :: t => let '(b', out) := lap_step strat b o in out :: lap_trace strat b' t
  end.

(* ---- SubtrajectoryReplayBuffer ---- *)
Record sout := { so_len : nat; so_ins : nat; so_ept : nat; so_mask : list bool; so_envterm : bool;
                 so_at : list nat }.
Definition sb_obs (b : sb) (at_ : list nat) : sout :=
  {| so_len := s_len b; so_ins := s_ins b; so_ept := s_ept b; so_mask := s_mask b;
     so_envterm := s_envterm b; so_at := at_ |}.
(** After every add: observable state plus, for every enabled start and every
    sampling horizon h in [hs], the full window and the reduced view. *)
Definition sb_all_windows (b : sb) (hs : list nat)
  : list (nat * list (nat * (list (option srow) * reduced))) :=
  map (fun start => (start, map (fun h => (h, (sb_window b start h, sb_reduced b start h))) hs))
      (nonzero (s_mask b)).
Fixpoint sb_trace (b : sb) (hs : list nat) (rows : list srow)
  : list (sout * list (nat * list (nat * (list (option srow) * reduced)))) :=
  match rows with
  | [] => []
  | x :: t => let '(b', at_) := sb_add b x in (sb_obs b' at_, sb_all_windows b' hs) :: sb_trace b' hs t
  end.

(* ---- SubtrajectoryReplayBufferPER ---- *)
Inductive pop :=
| PAdd (x : srow) | PSample (us : list Q) (h : nat) | PUpdate (ps : list Q) | PReset.
Record pout := { po_state : sout; po_maxp : Q; po_prio : list Q; po_starts : list nat;
                 po_windows : list (list (option srow)) }.
Definition sbp_obs (b : sbp) (starts : list nat) (w : list (list (option srow))) : pout :=
  {| po_state := sb_obs (p_sb b) []; po_maxp := maxp (p_pb b);
     po_prio := firstn (s_len (p_sb b)) (prio (p_pb b)); po_starts := starts; po_windows := w |}.
Definition sbp_step (b : sbp) (o : pop) : sbp * pout :=
  match o with
  | PAdd x => let b' := sbp_add b x in (b', sbp_obs b' [] [])
  | PSample us h =>
      let '(b', starts) := sbp_sample_starts b us in
      (b', sbp_obs b' starts (map (fun s => sb_window (p_sb b') s h) starts))
  | PUpdate ps => let b' := sbp_update b ps in (b', sbp_obs b' [] [])
  | PReset => let b' := sbp_reset b in (b', sbp_obs b' [] [])
  end.
Fixpoint sbp_trace (b : sbp) (ops : list pop) : list pout :=
  match ops with
  | [] => []
  | o :: t => let '(b', out) := sbp_step b o in out :: sbp_trace b' t
  end.

(* ---- MultiTaskReplayBuffer over LAP (covers the uniform ring: LAP extends it) ---- *)
Inductive mop :=
| MSelect (t : Z) | MAdd (x : Z) | MSample (pos : nat) (us : list Q)
| MUpdate (ps : list Q) | MReset.
Record mout := { mo_ok : bool; mo_selected : nat; mo_active : list nat; mo_task : option nat;
                 mo_lens : list nat; mo_maxps : list Q; mo_prios : list (list Q);
                 mo_idx : list nat; mo_rows : list (option Z) }.
Definition mt_obs (m : mt (lap Z)) (ok : bool) (idx : list nat) (rows : list (option Z)) : mout :=
  {| mo_ok := ok; mo_selected := selected m; mo_active := active m; mo_task := sampled_task m;
     mo_lens := map (fun b => len (l_rb b)) (bufs m);
     mo_maxps := map (fun b => maxp (l_pb b)) (bufs m);
     mo_prios := map (fun b => firstn (len (l_rb b)) (prio (l_pb b))) (bufs m);
     mo_idx := idx; mo_rows := rows |}.
Definition set_buf (m : mt (lap Z)) (t : nat) (b : lap Z) : mt (lap Z) :=
  {| bufs := upd (bufs m) t b; selected := selected m; active := active m; sampled_task := sampled_task m |}.
Definition mt_step (m : mt (lap Z)) (o : mop) : mt (lap Z) * mout :=
  match o with
  | MSelect t => match mt_select m t with
                 | Some m' => (m', mt_obs m' true [] [])
                 | None => (m, mt_obs m false [] [])
                 end
  | MAdd x => let m' := mt_add lap_add m x in (m', mt_obs m' true [] [])
  | MSample pos us =>
      let '(m1, t) := mt_choose m pos in
      match t with
      | Some t =>
          match nth_error (bufs m1) t with
          | Some b => let '(b', idx, rows) := lap_sample b us in
                      let m2 := set_buf m1 t b' in (m2, mt_obs m2 true idx rows)
          | None => (m1, mt_obs m1 false [] [])
          end
      | None => (m1, mt_obs m1 false [] [])
      end
  | MUpdate ps =>
      match sampled_task m with
      | Some t => match nth_error (bufs m) t with
                  | Some b => let m' := set_buf m t (lap_update b ps) in (m', mt_obs m' true [] [])
                  | None => (m, mt_obs m false [] [])
                  end
      | None => (m, mt_obs m false [] [])
      end
  | MReset =>
      let m' := {| bufs := map lap_reset (bufs m); selected := selected m; active := active m;
                   sampled_task := sampled_task m |} in
      (m', mt_obs m' true [] [])
  end.
Fixpoint mt_trace (m : mt (lap Z)) (ops : list mop) : list mout :=
  match ops with
  | [] => []
  | o :: t => let '(m', out) := mt_step m o in out :: mt_trace m' t
  end.
Definition mt_lap_init (N n : nat) : mt (lap Z) := mt_init (lap_init N) n.

(* ---- MultiTaskReplayBuffer over the uniform ReplayBuffer ---- *)
Inductive uop := USelect (t : Z) | UAdd (x : Z) | USample (pos : nat) (idxs : list nat).
Record uout := { uo_ok : bool; uo_selected : nat; uo_active : list nat; uo_task : option nat;
                 uo_lens : list nat; uo_range : nat; uo_rows : list (option Z) }.
Definition mtu_obs (m : mt (rb Z)) (ok : bool) (range : nat) (rows : list (option Z)) : uout :=
  {| uo_ok := ok; uo_selected := selected m; uo_active := active m; uo_task := sampled_task m;
     uo_lens := map (fun b => len b) (bufs m); uo_range := range; uo_rows := rows |}.
Definition mtu_step (m : mt (rb Z)) (o : uop) : mt (rb Z) * uout :=
  match o with
  | USelect t => match mt_select m t with
                 | Some m' => (m', mtu_obs m' true 0 [])
                 | None => (m, mtu_obs m false 0 [])
                 end
  | UAdd x => let m' := mt_add rb_add m x in (m', mtu_obs m' true 0 [])
  | USample pos idxs =>
      let '(m1, t) := mt_choose m pos in
      match t with
      | Some t => match nth_error (bufs m1) t with
                  | Some b => (m1, mtu_obs m1 true (rb_draw_range b) (rb_sample b idxs))
                  | None => (m1, mtu_obs m1 false 0 [])
                  end
      | None => (m1, mtu_obs m1 false 0 [])
      end
  end.
Fixpoint mtu_trace (m : mt (rb Z)) (ops : list uop) : list uout :=
  match ops with
  | [] => []
  | o :: t => let '(m', out) := mtu_step m o in out :: mtu_trace m' t
  end.
Definition mtu_init (N n : nat) : mt (rb Z) := mt_init (rb_init N) n.
