(** L1 model of the training-loop skeleton shared by the off-policy routines (C01, C11):
    dqn.py, nature_dqn.py, ddqn.py, per.py, ddpg.py, td3.py, td3_lap.py, sac.py, td7.py,
    mrq.py, pets.py. Networks, updates and action choice are oracles; what is modelled is
    control flow and data routing: which observation is acted on and stored, when the
    environment is reset, when updates may run, when the loop stops, what is returned.
    The environment is the scripted recording environment of the harness (stubs.ScriptEnv):
    observation = (episode, t), reward = number of steps taken, episode lengths / end kinds
    from a cyclic script; stepping a finished episode without reset is an error. *)
From Coq Require Import List Arith Bool.
Import ListNotations.

Inductive endk := Term | Trunc.
Definition obs := (nat * nat)%type.                   (* (episode, t) *)

Record env := {
  e_script : list (nat * endk);     (* (length, end kind), cycled *)
  e_ep : nat;                       (* current episode index (meaningful after the first reset) *)
  e_t : nat; e_steps : nat;
  e_started : bool;                 (* reset() was called at least once *)
  e_done : bool;
  e_violated : bool                 (* step() on a finished episode happened *)
}.
Definition env_init (script : list (nat * endk)) : env :=
  {| e_script := script; e_ep := 0; e_t := 0; e_steps := 0; e_started := false; e_done := true; e_violated := false |}.
Definition script_at (e : env) (ep : nat) : nat * endk :=
  nth (ep mod Nat.max 1 (length (e_script e))) (e_script e) (1, Term).
Definition env_reset (e : env) : env * obs :=
  let ep := if e_started e then S (e_ep e) else 0 in
  ({| e_script := e_script e; e_ep := ep; e_t := 0; e_steps := e_steps e; e_started := true;
      e_done := false; e_violated := e_violated e |}, (ep, 0)).
(** returns (env', (next_obs, reward, terminated, truncated)) *)
Definition env_step (e : env) : env * (obs * nat * bool * bool) :=
  let t := S (e_t e) in
  let '(L, k) := script_at e (e_ep e) in
  let fin := Nat.leb L t in
  let term := fin && match k with Term => true | Trunc => false end in
  let trunc := fin && match k with Term => false | Trunc => true end in
  ({| e_script := e_script e; e_ep := e_ep e; e_t := t; e_steps := S (e_steps e); e_started := e_started e;
      e_done := term || trunc; e_violated := e_violated e || e_done e |},
   ((e_ep e, t), S (e_steps e), term, trunc)).

(** What happens to the current-observation variable when an episode ends. *)
Inductive obs_rule :=
| ResetElseNext      (* if done: obs = reset() else: obs = next_obs            (all routines after the PETS repair) *)
| ResetThenNext.     (* if done: obs = reset(); then unconditionally obs = next_obs   (PETS before the repair) *)

(** Where the episode limit is tested. *)
Inductive limit_pos :=
| LimitBeforeReset   (* ddpg, td3, sac, td7, mrq: count the episode, test, break before reset() *)
| LimitAfterReset.   (* nature_dqn, ddqn, per: reset(), test episode >= limit, break *)

Record cfg := {
  c_budget : nat;                       (* total_timesteps *)
  c_limit : option nat;                 (* total_episodes *)
  c_limit_pos : limit_pos;
  c_gate : nat -> bool;                 (* may parameter updates run in iteration `step`? *)
  c_obs_rule : obs_rule
}.

(** stored transition: (observation, step index as action tag, reward, next_observation, terminated) *)
Definition trans := (obs * nat * nat * obs * bool)%type.
Inductive event := EReset (o : obs) | EStep (prev : obs) (step : nat) (o' : obs) (r : nat) (term trunc : bool).

Record lstate := {
  l_step : nat;                 (* the step counter *)
  l_episodes : nat;             (* finished episodes *)
  l_cur : obs;                  (* the current-observation variable of the routine *)
  l_last : obs;                 (* ghost: the observation the environment returned last *)
  l_env : env;
  l_stored : list trans;
  l_acted_on : list obs;        (* observation handed to the policy in each iteration *)
  l_updates : list nat;         (* iterations in which updates ran *)
  l_log : list event;           (* ghost: the environment's call log *)
  l_stop : bool                 (* left the loop through the episode limit *)
}.

Definition loop_init (script : list (nat * endk)) (start : nat) : lstate :=
  let '(e, o) := env_reset (env_init script) in
  {| l_step := start; l_episodes := 0; l_cur := o; l_last := o; l_env := e; l_stored := []; l_acted_on := [];
     l_updates := []; l_log := [EReset o]; l_stop := false |}.

Definition limit_reached (c : cfg) (episodes : nat) : bool :=
  match c_limit c with Some E => Nat.leb E episodes | None => false end.

(** One iteration of `while step < total_timesteps` (no-op once the loop has been left). *)
Definition iter (c : cfg) (s : lstate) : lstate :=
  if l_stop s || negb (Nat.ltb (l_step s) (c_budget c)) then s else
  let '(e1, (o', r, term, trunc)) := env_step (l_env s) in
  let stored := l_stored s ++ [(l_cur s, l_step s, r, o', term)] in
  let acted := l_acted_on s ++ [l_cur s] in
  let updates := if c_gate c (l_step s) then l_updates s ++ [l_step s] else l_updates s in
  let log1 := l_log s ++ [EStep (l_last s) (l_step s) o' r term trunc] in
  if term || trunc then
    let eps := S (l_episodes s) in
    match c_limit_pos c with
    | LimitBeforeReset =>
        if limit_reached c eps then
          {| l_step := S (l_step s); l_episodes := eps; l_cur := l_cur s; l_last := o'; l_env := e1; l_stored := stored;
             l_acted_on := acted; l_updates := updates; l_log := log1; l_stop := true |}
        else
          let '(e2, o0) := env_reset e1 in
          {| l_step := S (l_step s); l_episodes := eps;
             l_cur := match c_obs_rule c with ResetElseNext => o0 | ResetThenNext => o' end;
             l_last := o0; l_env := e2; l_stored := stored; l_acted_on := acted; l_updates := updates;
             l_log := log1 ++ [EReset o0]; l_stop := false |}
    | LimitAfterReset =>
        let '(e2, o0) := env_reset e1 in
        {| l_step := S (l_step s); l_episodes := eps;
           l_cur := match c_obs_rule c with ResetElseNext => o0 | ResetThenNext => o' end;
           l_last := o0; l_env := e2; l_stored := stored; l_acted_on := acted; l_updates := updates;
           l_log := log1 ++ [EReset o0]; l_stop := limit_reached c eps |}
    end
  else
    {| l_step := S (l_step s); l_episodes := l_episodes s; l_cur := o'; l_last := o'; l_env := e1; l_stored := stored;
       l_acted_on := acted; l_updates := updates; l_log := log1; l_stop := false |}.

Fixpoint run (c : cfg) (fuel : nat) (s : lstate) : lstate :=
  match fuel with O => s | S f => run c f (iter c s) end.
(** the whole call: at most (budget - start) iterations can do anything *)
Definition train (c : cfg) (script : list (nat * endk)) (start : nat) : lstate :=
  run c (c_budget c - start) (loop_init script start).

(** update gates of the routines *)
Definition gate_gt (b : nat) (step : nat) : bool := Nat.ltb b step.                              (* step > batch_size *)
Definition gate_gt_every (b uf : nat) (step : nat) : bool := Nat.ltb b step && Nat.eqb (step mod uf) 0.
Definition gate_ge (ls : nat) (step : nat) : bool := Nat.leb ls step.                            (* step >= learning_starts *)
Definition gate_both (b ls uf : nat) (step : nat) : bool :=
  Nat.ltb b step && Nat.leb ls step && Nat.eqb (step mod uf) 0.

(* ------------------------------------------------------------------ *)
(** ** which observation the executed action was computed from (the tabular loops)

    [ActFresh]: the behaviour policy is asked at the top of every iteration about the current
    observation (q_learning, sarsa, double_q_learning, monte_carlo, dynaq).
    [ActCarried]: the textbook on-policy form - the action for the next iteration is the
    [next_action] chosen after the step at the successor observation and carried over the end
    of the iteration, without a new choice after [env.reset()]. *)
Inductive act_rule := ActFresh | ActCarried.

Record astate := {
  a_env : env;
  a_last : obs;                    (* the observation the environment returned last (step or reset) *)
  a_pending : obs;                 (* the observation the carried action was computed from *)
  a_used : list (obs * obs)        (* per executed step: (observation its action was computed from, current observation) *)
}.

Definition act_init (script : list (nat * endk)) : astate :=
  let '(e, o) := env_reset (env_init script) in
  {| a_env := e; a_last := o; a_pending := o; a_used := [] |}.

Definition act_iter (rule : act_rule) (s : astate) : astate :=
  let src := match rule with ActFresh => a_last s | ActCarried => a_pending s end in
  let '(e1, (o', _, term, trunc)) := env_step (a_env s) in
  let used := a_used s ++ [(src, a_last s)] in
  if term || trunc then
    let '(e2, o0) := env_reset e1 in
    {| a_env := e2; a_last := o0; a_pending := o'; a_used := used |}
  else
    {| a_env := e1; a_last := o'; a_pending := o'; a_used := used |}.

Fixpoint act_run (rule : act_rule) (n : nat) (s : astate) : astate :=
  match n with O => s | S k => act_run rule k (act_iter rule s) end.

Definition obs_eqb (a b : obs) : bool := Nat.eqb (fst a) (fst b) && Nat.eqb (snd a) (snd b).
(** per executed step: was the action computed from the current observation? *)
Definition act_flags (rule : act_rule) (script : list (nat * endk)) (n : nat) : list bool :=
  map (fun p => obs_eqb (fst p) (snd p)) (a_used (act_run rule n (act_init script))).
