(** L2 kernels of prioritized replay: importance weights, LAP and PER priorities
    (replay_buffer.py: compute_importance_ratio, lap_priority, per_priority). *)
From Coq Require Import QArith List.
From RLV Require Import Model.Num.
Import ListNotations.
Local Close Scope Q_scope.

Section PrioNum.
  Context {F : Type} {N : NumOps F}.
  Local Open Scope num_scope.

  (** is_weight = (current_len * priority / sum(priority)) ** (-beta); normalised by its max. *)
  Definition is_raw (n : F) (ps : list F) (beta : F) : list F :=
    let s := nsum ps in map (fun p => npow (n * p / s) (- beta)) ps.
  Definition is_weights (n : F) (ps : list F) (beta : F) : list F :=
    let w := is_raw n ps beta in let m := nmaxl w in map (fun x => x / m) w.

  (** jnp.maximum(abs_td_error, min_priority) ** alpha *)
  Definition lap_priority (abs_td min_priority alpha : F) : F := npow (nmax abs_td min_priority) alpha.
  (** abs_td_error ** alpha + epsilon *)
  Definition per_priority (abs_td alpha eps : F) : F := npow abs_td alpha + eps.
End PrioNum.
