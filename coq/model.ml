
(** val fst : ('a1 * 'a2) -> 'a1 **)

let fst = function
| (x, _) -> x

(** val snd : ('a1 * 'a2) -> 'a2 **)

let snd = function
| (_, y) -> y

(** val app : 'a1 list -> 'a1 list -> 'a1 list **)

let rec app l m =
  match l with
  | [] -> m
  | a :: l1 -> a :: (app l1 m)

type comparison =
| Eq
| Lt
| Gt

(** val compOpp : comparison -> comparison **)

let compOpp = function
| Eq -> Eq
| Lt -> Gt
| Gt -> Lt

type positive =
| XI of positive
| XO of positive
| XH

type z =
| Z0
| Zpos of positive
| Zneg of positive

module Pos =
 struct
  (** val succ : positive -> positive **)

  let rec succ = function
  | XI p -> XO (succ p)
  | XO p -> XI p
  | XH -> XO XH

  (** val add : positive -> positive -> positive **)

  let rec add x y =
    match x with
    | XI p ->
      (match y with
       | XI q -> XO (add_carry p q)
       | XO q -> XI (add p q)
       | XH -> XO (succ p))
    | XO p ->
      (match y with
       | XI q -> XI (add p q)
       | XO q -> XO (add p q)
       | XH -> XI p)
    | XH -> (match y with
             | XI q -> XO (succ q)
             | XO q -> XI q
             | XH -> XO XH)

  (** val add_carry : positive -> positive -> positive **)

  and add_carry x y =
    match x with
    | XI p ->
      (match y with
       | XI q -> XI (add_carry p q)
       | XO q -> XO (add_carry p q)
       | XH -> XI (succ p))
    | XO p ->
      (match y with
       | XI q -> XO (add_carry p q)
       | XO q -> XI (add p q)
       | XH -> XO (succ p))
    | XH ->
      (match y with
       | XI q -> XI (succ q)
       | XO q -> XO (succ q)
       | XH -> XI XH)

  (** val pred_double : positive -> positive **)

  let rec pred_double = function
  | XI p -> XI (XO p)
  | XO p -> XI (pred_double p)
  | XH -> XH

  (** val mul : positive -> positive -> positive **)

  let rec mul x y =
    match x with
    | XI p -> add y (XO (mul p y))
    | XO p -> XO (mul p y)
    | XH -> y

  (** val compare_cont : comparison -> positive -> positive -> comparison **)

  let rec compare_cont r x y =
    match x with
    | XI p ->
      (match y with
       | XI q -> compare_cont r p q
       | XO q -> compare_cont Gt p q
       | XH -> Gt)
    | XO p ->
      (match y with
       | XI q -> compare_cont Lt p q
       | XO q -> compare_cont r p q
       | XH -> Gt)
    | XH -> (match y with
             | XH -> r
             | _ -> Lt)

  (** val compare : positive -> positive -> comparison **)

  let compare =
    compare_cont Eq

  (** val eqb : positive -> positive -> bool **)

  let rec eqb p q =
    match p with
    | XI p0 -> (match q with
                | XI q0 -> eqb p0 q0
                | _ -> false)
    | XO p0 -> (match q with
                | XO q0 -> eqb p0 q0
                | _ -> false)
    | XH -> (match q with
             | XH -> true
             | _ -> false)
 end

module Z =
 struct
  (** val double : z -> z **)

  let double = function
  | Z0 -> Z0
  | Zpos p -> Zpos (XO p)
  | Zneg p -> Zneg (XO p)

  (** val succ_double : z -> z **)

  let succ_double = function
  | Z0 -> Zpos XH
  | Zpos p -> Zpos (XI p)
  | Zneg p -> Zneg (Pos.pred_double p)

  (** val pred_double : z -> z **)

  let pred_double = function
  | Z0 -> Zneg XH
  | Zpos p -> Zpos (Pos.pred_double p)
  | Zneg p -> Zneg (XI p)

  (** val pos_sub : positive -> positive -> z **)

  let rec pos_sub x y =
    match x with
    | XI p ->
      (match y with
       | XI q -> double (pos_sub p q)
       | XO q -> succ_double (pos_sub p q)
       | XH -> Zpos (XO p))
    | XO p ->
      (match y with
       | XI q -> pred_double (pos_sub p q)
       | XO q -> double (pos_sub p q)
       | XH -> Zpos (Pos.pred_double p))
    | XH ->
      (match y with
       | XI q -> Zneg (XO q)
       | XO q -> Zneg (Pos.pred_double q)
       | XH -> Z0)

  (** val add : z -> z -> z **)

  let add x y =
    match x with
    | Z0 -> y
    | Zpos x' ->
      (match y with
       | Z0 -> x
       | Zpos y' -> Zpos (Pos.add x' y')
       | Zneg y' -> pos_sub x' y')
    | Zneg x' ->
      (match y with
       | Z0 -> x
       | Zpos y' -> pos_sub y' x'
       | Zneg y' -> Zneg (Pos.add x' y'))

  (** val opp : z -> z **)

  let opp = function
  | Z0 -> Z0
  | Zpos x0 -> Zneg x0
  | Zneg x0 -> Zpos x0

  (** val sub : z -> z -> z **)

  let sub m n =
    add m (opp n)

  (** val mul : z -> z -> z **)

  let mul x y =
    match x with
    | Z0 -> Z0
    | Zpos x' ->
      (match y with
       | Z0 -> Z0
       | Zpos y' -> Zpos (Pos.mul x' y')
       | Zneg y' -> Zneg (Pos.mul x' y'))
    | Zneg x' ->
      (match y with
       | Z0 -> Z0
       | Zpos y' -> Zneg (Pos.mul x' y')
       | Zneg y' -> Zpos (Pos.mul x' y'))

  (** val compare : z -> z -> comparison **)

  let compare x y =
    match x with
    | Z0 -> (match y with
             | Z0 -> Eq
             | Zpos _ -> Lt
             | Zneg _ -> Gt)
    | Zpos x' -> (match y with
                  | Zpos y' -> Pos.compare x' y'
                  | _ -> Gt)
    | Zneg x' ->
      (match y with
       | Zneg y' -> compOpp (Pos.compare x' y')
       | _ -> Lt)

  (** val leb : z -> z -> bool **)

  let leb x y =
    match compare x y with
    | Gt -> false
    | _ -> true

  (** val ltb : z -> z -> bool **)

  let ltb x y =
    match compare x y with
    | Lt -> true
    | _ -> false

  (** val eqb : z -> z -> bool **)

  let eqb x y =
    match x with
    | Z0 -> (match y with
             | Z0 -> true
             | _ -> false)
    | Zpos p -> (match y with
                 | Zpos q -> Pos.eqb p q
                 | _ -> false)
    | Zneg p -> (match y with
                 | Zneg q -> Pos.eqb p q
                 | _ -> false)

  (** val pos_div_eucl : positive -> z -> z * z **)

  let rec pos_div_eucl a b =
    match a with
    | XI a' ->
      let (q, r) = pos_div_eucl a' b in
      let r' = add (mul (Zpos (XO XH)) r) (Zpos XH) in
      if ltb r' b
      then ((mul (Zpos (XO XH)) q), r')
      else ((add (mul (Zpos (XO XH)) q) (Zpos XH)), (sub r' b))
    | XO a' ->
      let (q, r) = pos_div_eucl a' b in
      let r' = mul (Zpos (XO XH)) r in
      if ltb r' b
      then ((mul (Zpos (XO XH)) q), r')
      else ((add (mul (Zpos (XO XH)) q) (Zpos XH)), (sub r' b))
    | XH -> if leb (Zpos (XO XH)) b then (Z0, (Zpos XH)) else ((Zpos XH), Z0)

  (** val div_eucl : z -> z -> z * z **)

  let div_eucl a b =
    match a with
    | Z0 -> (Z0, Z0)
    | Zpos a' ->
      (match b with
       | Z0 -> (Z0, a)
       | Zpos _ -> pos_div_eucl a' b
       | Zneg b' ->
         let (q, r) = pos_div_eucl a' (Zpos b') in
         (match r with
          | Z0 -> ((opp q), Z0)
          | _ -> ((opp (add q (Zpos XH))), (add b r))))
    | Zneg a' ->
      (match b with
       | Z0 -> (Z0, a)
       | Zpos _ ->
         let (q, r) = pos_div_eucl a' b in
         (match r with
          | Z0 -> ((opp q), Z0)
          | _ -> ((opp (add q (Zpos XH))), (sub b r)))
       | Zneg b' -> let (q, r) = pos_div_eucl a' (Zpos b') in (q, (opp r)))

  (** val div : z -> z -> z **)

  let div a b =
    let (q, _) = div_eucl a b in q

  (** val modulo : z -> z -> z **)

  let modulo a b =
    let (_, r) = div_eucl a b in r
 end

(** val map : ('a1 -> 'a2) -> 'a1 list -> 'a2 list **)

let rec map f = function
| [] -> []
| a :: t -> (f a) :: (map f t)

(** val fold_left : ('a1 -> 'a2 -> 'a1) -> 'a2 list -> 'a1 -> 'a1 **)

let rec fold_left f l a0 =
  match l with
  | [] -> a0
  | b :: t -> fold_left f t (f a0 b)

(** val filter : ('a1 -> bool) -> 'a1 list -> 'a1 list **)

let rec filter f = function
| [] -> []
| x :: l0 -> if f x then x :: (filter f l0) else filter f l0

(** val combine : 'a1 list -> 'a2 list -> ('a1 * 'a2) list **)

let rec combine l l' =
  match l with
  | [] -> []
  | x :: tl ->
    (match l' with
     | [] -> []
     | y :: tl' -> (x, y) :: (combine tl tl'))

type lop =
| LStart
| LStop of z
| LRecord of z * z * z option * z option
| LEpoch of z * z option * z option
| LDefFreq of z * z

(** val k_episode_length : z **)

let k_episode_length =
  Z0

(** val dget : (z * 'a1) list -> z -> 'a1 option **)

let rec dget d k =
  match d with
  | [] -> None
  | p :: t -> let (k', v) = p in if Z.eqb k k' then Some v else dget t k

(** val dset : (z * 'a1) list -> z -> 'a1 -> (z * 'a1) list **)

let rec dset d k v =
  match d with
  | [] -> (k, v) :: []
  | p :: t ->
    let (k', v') = p in
    if Z.eqb k k' then (k, v) :: t else (k', v') :: (dset t k v)

type mlog = { m_episodes : z; m_steps : z; m_loc : (z * (z * z) list) list;
              m_val : (z * z list) list; m_epoch : (z * z) list;
              m_freq : (z * z) list; m_ckpt : (z * z) list }

(** val mlog_init : mlog **)

let mlog_init =
  { m_episodes = Z0; m_steps = Z0; m_loc = []; m_val = []; m_epoch = [];
    m_freq = []; m_ckpt = [] }

(** val odefault : z option -> z -> z **)

let odefault o d =
  match o with
  | Some x -> x
  | None -> d

(** val lget : (z * 'a1 list) list -> z -> 'a1 list **)

let lget d k =
  match dget d k with
  | Some l -> l
  | None -> []

(** val record_stat : mlog -> z -> z -> z option -> z option -> mlog **)

let record_stat s key val0 ep st =
  let e = odefault ep s.m_episodes in
  let t = odefault st s.m_steps in
  { m_episodes = s.m_episodes; m_steps = s.m_steps; m_loc =
  (dset s.m_loc key (app (lget s.m_loc key) ((e, t) :: []))); m_val =
  (dset s.m_val key (app (lget s.m_val key) (val0 :: []))); m_epoch =
  s.m_epoch; m_freq = s.m_freq; m_ckpt = s.m_ckpt }

(** val mstep : bool -> mlog -> lop -> mlog **)

let mstep standard s = function
| LStart ->
  { m_episodes = (Z.add s.m_episodes (Zpos XH)); m_steps = s.m_steps; m_loc =
    s.m_loc; m_val = s.m_val; m_epoch = s.m_epoch; m_freq = s.m_freq;
    m_ckpt = s.m_ckpt }
| LStop total ->
  let s' = { m_episodes = s.m_episodes; m_steps = (Z.add s.m_steps total);
    m_loc = s.m_loc; m_val = s.m_val; m_epoch = s.m_epoch; m_freq = s.m_freq;
    m_ckpt = s.m_ckpt }
  in
  record_stat s' k_episode_length total None None
| LRecord (key, val0, ep, st) -> record_stat s key val0 ep st
| LEpoch (key, _, _) ->
  if standard
  then let n = Z.add (odefault (dget s.m_epoch key) Z0) (Zpos XH) in
       let fire =
         match dget s.m_freq key with
         | Some f -> Z.eqb (Z.modulo n f) Z0
         | None -> false
       in
       { m_episodes = s.m_episodes; m_steps = s.m_steps; m_loc = s.m_loc;
       m_val = s.m_val; m_epoch = (dset s.m_epoch key n); m_freq = s.m_freq;
       m_ckpt = (if fire then app s.m_ckpt ((key, n) :: []) else s.m_ckpt) }
  else s
| LDefFreq (key, f) ->
  if standard
  then { m_episodes = s.m_episodes; m_steps = s.m_steps; m_loc = s.m_loc;
         m_val = s.m_val; m_epoch = s.m_epoch; m_freq =
         (dset s.m_freq key f); m_ckpt = s.m_ckpt }
  else s

(** val mrun : bool -> lop list -> mlog **)

let mrun standard ops =
  fold_left (mstep standard) ops mlog_init

(** val get_stat : mlog -> z -> ((z * z) * z) list **)

let get_stat s key =
  combine (lget s.m_loc key) (lget s.m_val key)

type slog = { s_episodes : z; s_steps : z; s_log : (z * ((z * z) * z)) list }

(** val slog_init : slog **)

let slog_init =
  { s_episodes = Z0; s_steps = Z0; s_log = [] }

(** val sstep : slog -> lop -> slog **)

let sstep s = function
| LStart ->
  { s_episodes = (Z.add s.s_episodes (Zpos XH)); s_steps = s.s_steps; s_log =
    s.s_log }
| LStop total ->
  { s_episodes = s.s_episodes; s_steps = (Z.add s.s_steps total); s_log =
    (app s.s_log ((k_episode_length, ((s.s_episodes,
      (Z.add s.s_steps total)), total)) :: [])) }
| LRecord (key, val0, ep, st) ->
  { s_episodes = s.s_episodes; s_steps = s.s_steps; s_log =
    (app s.s_log ((key, (((odefault ep s.s_episodes),
      (odefault st s.s_steps)), val0)) :: [])) }
| _ -> s

(** val srun : lop list -> slog **)

let srun ops =
  fold_left sstep ops slog_init

(** val spec_get_stat : slog -> z -> ((z * z) * z) list **)

let spec_get_stat s key =
  map snd (filter (fun kv -> Z.eqb key (fst kv)) s.s_log)

(** val list_step : bool list -> mlog list -> lop -> mlog list **)

let list_step kinds ss o =
  map (fun ks -> mstep (fst ks) (snd ks) o) (combine kinds ss)

(** val list_run : bool list -> lop list -> mlog list **)

let list_run kinds ops =
  fold_left (list_step kinds) ops (map (fun _ -> mlog_init) kinds)

(** val due : z -> z -> z -> bool **)

let due f last step =
  (||) (Z.ltb (Z.modulo step f) (Z.modulo last f)) (Z.leb f (Z.sub step last))

type ckpt = { c_episodes : z; c_steps : z; c_epoch : (z * z) list;
              c_last : (z * z) list; c_freq : (z * z) list;
              c_saved : (z * (z * z)) list }

(** val ckpt_init : ckpt **)

let ckpt_init =
  { c_episodes = Z0; c_steps = Z0; c_epoch = []; c_last = []; c_freq = [];
    c_saved = [] }

(** val cstep : ckpt -> lop -> ckpt **)

let cstep s = function
| LStart ->
  { c_episodes = (Z.add s.c_episodes (Zpos XH)); c_steps = s.c_steps;
    c_epoch = s.c_epoch; c_last = s.c_last; c_freq = s.c_freq; c_saved =
    s.c_saved }
| LStop t ->
  { c_episodes = s.c_episodes; c_steps = (Z.add s.c_steps t); c_epoch =
    s.c_epoch; c_last = s.c_last; c_freq = s.c_freq; c_saved = s.c_saved }
| LRecord (_, _, _, _) -> s
| LEpoch (key, _, st) ->
  let n = Z.add (odefault (dget s.c_epoch key) Z0) (Zpos XH) in
  let step = odefault st s.c_steps in
  let last = odefault (dget s.c_last key) Z0 in
  let fire =
    match dget s.c_freq key with
    | Some f -> due f last step
    | None -> false
  in
  { c_episodes = s.c_episodes; c_steps = s.c_steps; c_epoch =
  (dset s.c_epoch key n); c_last = (dset s.c_last key step); c_freq =
  s.c_freq; c_saved =
  (if fire then app s.c_saved ((key, (step, n)) :: []) else s.c_saved) }
| LDefFreq (key, f) ->
  { c_episodes = s.c_episodes; c_steps = s.c_steps; c_epoch = s.c_epoch;
    c_last = (dset s.c_last key Z0); c_freq = (dset s.c_freq key f);
    c_saved = s.c_saved }

(** val crun : lop list -> ckpt **)

let crun ops =
  fold_left cstep ops ckpt_init

(** val fired : z -> z -> z list -> bool list **)

let rec fired f last = function
| [] -> []
| s :: t -> (due f last s) :: (fired f s t)

(** val crossings : z -> z -> z list -> bool list **)

let rec crossings f last = function
| [] -> []
| s :: t -> (Z.ltb (Z.div last f) (Z.div s f)) :: (crossings f s t)
