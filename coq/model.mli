
val fst : ('a1 * 'a2) -> 'a1

val snd : ('a1 * 'a2) -> 'a2

val app : 'a1 list -> 'a1 list -> 'a1 list

type comparison =
| Eq
| Lt
| Gt

val compOpp : comparison -> comparison

type positive =
| XI of positive
| XO of positive
| XH

type z =
| Z0
| Zpos of positive
| Zneg of positive

module Pos :
 sig
  val succ : positive -> positive

  val add : positive -> positive -> positive

  val add_carry : positive -> positive -> positive

  val pred_double : positive -> positive

  val mul : positive -> positive -> positive

  val compare_cont : comparison -> positive -> positive -> comparison

  val compare : positive -> positive -> comparison

  val eqb : positive -> positive -> bool
 end

module Z :
 sig
  val double : z -> z

  val succ_double : z -> z

  val pred_double : z -> z

  val pos_sub : positive -> positive -> z

  val add : z -> z -> z

  val opp : z -> z

  val sub : z -> z -> z

  val mul : z -> z -> z

  val compare : z -> z -> comparison

  val leb : z -> z -> bool

  val ltb : z -> z -> bool

  val eqb : z -> z -> bool

  val pos_div_eucl : positive -> z -> z * z

  val div_eucl : z -> z -> z * z

  val div : z -> z -> z

  val modulo : z -> z -> z
 end

val map : ('a1 -> 'a2) -> 'a1 list -> 'a2 list

val fold_left : ('a1 -> 'a2 -> 'a1) -> 'a2 list -> 'a1 -> 'a1

val filter : ('a1 -> bool) -> 'a1 list -> 'a1 list

val combine : 'a1 list -> 'a2 list -> ('a1 * 'a2) list

type lop =
| LStart
| LStop of z
| LRecord of z * z * z option * z option
| LEpoch of z * z option * z option
| LDefFreq of z * z

val k_episode_length : z

val dget : (z * 'a1) list -> z -> 'a1 option

val dset : (z * 'a1) list -> z -> 'a1 -> (z * 'a1) list

type mlog = { m_episodes : z; m_steps : z; m_loc : (z * (z * z) list) list;
              m_val : (z * z list) list; m_epoch : (z * z) list;
              m_freq : (z * z) list; m_ckpt : (z * z) list }

val mlog_init : mlog

val odefault : z option -> z -> z

val lget : (z * 'a1 list) list -> z -> 'a1 list

val record_stat : mlog -> z -> z -> z option -> z option -> mlog

val mstep : bool -> mlog -> lop -> mlog

val mrun : bool -> lop list -> mlog

val get_stat : mlog -> z -> ((z * z) * z) list

type slog = { s_episodes : z; s_steps : z; s_log : (z * ((z * z) * z)) list }

val slog_init : slog

val sstep : slog -> lop -> slog

val srun : lop list -> slog

val spec_get_stat : slog -> z -> ((z * z) * z) list

val list_step : bool list -> mlog list -> lop -> mlog list

val list_run : bool list -> lop list -> mlog list

val due : z -> z -> z -> bool

type ckpt = { c_episodes : z; c_steps : z; c_epoch : (z * z) list;
              c_last : (z * z) list; c_freq : (z * z) list;
              c_saved : (z * (z * z)) list }

val ckpt_init : ckpt

val cstep : ckpt -> lop -> ckpt

val crun : lop list -> ckpt

val fired : z -> z -> z list -> bool list

val crossings : z -> z -> z list -> bool list
