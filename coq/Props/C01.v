(** C01 — stored experience equals what the environment actually produced.
    Only property theorems, each closed by [exact]. The loop skeleton (Model/Loop.v) is the
    control-flow / data-routing abstraction of the off-policy routines; tabular routines are
    covered by the update-argument records of C14, the on-policy collectors by correspondence. *)
From Coq Require Import List Arith Bool.
From RLV Require Import Model.Loop Proofs.LoopProofs.
Import ListNotations.

(** For every script of episode lengths / end kinds, every budget, start count, episode limit,
    limit position and update gate: the kept transitions are exactly the environment's step
    events (observation returned last before the action, action, reward, successor, termination
    flag) in order — also across episode boundaries — and the policy is conditioned on that same
    observation; [consistent] says the [prev] field of every logged step IS the observation
    returned by the preceding reset/step. *)
Theorem C01_loop_stores_env_transitions : forall c script start, c_obs_rule c = ResetElseNext ->
  let s := train c script start in
  l_stored s = transitions_of (l_log s) /\ l_acted_on s = acted_of (l_log s) /\ consistent None (l_log s).
Proof. exact loop_stores_env_transitions. Qed.
Print Assumptions C01_loop_stores_env_transitions.

(** The variant "reset, then unconditionally obs = next_obs" (PETS before its repair) is refuted:
    the first transition of a new episode starts from the previous episode's final observation. *)
Theorem C01_reset_then_next_refuted : exists c script start,
  c_obs_rule c = ResetThenNext /\
  let s := train c script start in l_stored s <> transitions_of (l_log s).
Proof. exact loop_obs_reset_then_next_refuted. Qed.
Print Assumptions C01_reset_then_next_refuted.
