(** C01 — stored experience equals what the environment actually produced.
    Only property theorems, each closed by [exact]. The loop skeleton (Model/Loop.v) is the
    control-flow / data-routing abstraction of the off-policy routines; tabular routines are
    covered by the update-argument records of C14, the on-policy collectors by correspondence. *)
From Coq Require Import List Arith Bool.
From RLV Require Import Model.Loop Proofs.LoopProofs.
Import ListNotations.

(** For every script of episode lengths / end kinds, every budget, start count, episode limit,
    limit position and update gate: the kept transitions are exactly the environment's step
    events (observation returned last before the action, action, reward, successor, termination
    flag) in order — also across episode boundaries — and the policy is conditioned on that same
    observation; [consistent] says the [prev] field of every logged step IS the observation
    returned by the preceding reset/step. *)
Theorem C01_loop_stores_env_transitions : forall c script start, c_obs_rule c = ResetElseNext ->
  let s := train c script start in
  l_stored s = transitions_of (l_log s) /\ l_acted_on s = acted_of (l_log s) /\ consistent None (l_log s).
Proof. exact loop_stores_env_transitions. Qed.
Print Assumptions C01_loop_stores_env_transitions.

(** The variant "reset, then unconditionally obs = next_obs" (PETS before its repair) is refuted:
    the first transition of a new episode starts from the previous episode's final observation. *)
Theorem C01_reset_then_next_refuted : exists c script start,
  c_obs_rule c = ResetThenNext /\
  let s := train c script start in l_stored s <> transitions_of (l_log s).
Proof. exact loop_obs_reset_then_next_refuted. Qed.
Print Assumptions C01_reset_then_next_refuted.

(* ------------------------------------------------------------------ *)
(** On-policy collectors on vector environments (ppo.collect_trajectories, a2c.collect_trajectories) *)
From RLV Require Import Model.Collect Proofs.CollectProofs.

(** PPO rollout under SAME_STEP autoreset, for every number of steps and every list of episode scripts:
    each row starts from the observation its environment returned last (the reset observation after an
    episode end, never the previous episode's final observation) and bootstraps from the successor
    inside the same episode *)
Theorem C01_ppo_rows_chain : forall T scripts,
  let '(rows, _, _) := ppo_run ByIndex CarryNext T scripts in
  rows_ok (map (fun _ => (0, 0)) scripts) rows /\ length rows = T.
Proof. exact ppo_run_chain. Qed.
Print Assumptions C01_ppo_rows_chain.

(** the three neighbouring variants violate it: bootstrap from the autoreset observation, final observation
    written at the position in the filtered list (the defect repaired by 76092e8), patched vector carried over *)
Theorem C01_ppo_no_patch_refuted : exists T scripts, let '(rows, _, _) := ppo_run NoPatch CarryNext T scripts in all_boot_ok rows = false.
Proof. exact no_patch_refuted. Qed.
Theorem C01_ppo_filtered_position_refuted : exists T scripts, let '(rows, _, _) := ppo_run ByFilteredPosition CarryNext T scripts in all_boot_ok rows = false.
Proof. exact filtered_position_refuted. Qed.
Theorem C01_ppo_carry_patched_refuted : exists T scripts, let '(rows, _, _) := ppo_run ByIndex CarryPatched T scripts in starts_chain rows = false.
Proof. exact carry_patched_refuted. Qed.
Print Assumptions C01_ppo_carry_patched_refuted.

(** A2C rollout under NEXT_STEP autoreset: rows chain from the observation returned last; the step after an
    episode end is the wrapper's reset step (reward 0, no flags) leading to the new episode's reset observation *)
Theorem C01_a2c_rows_chain : forall T scripts,
  let '(rows, _, _) := a2c_run T scripts in
  a_rows_ok (map (fun _ => (0, 0)) scripts) (map (fun _ => false) scripts) rows /\ length rows = T.
Proof. exact a2c_run_chain. Qed.
Print Assumptions C01_a2c_rows_chain.

(** the observation returned by the A2C collector is each environment's current observation, and two consecutive
    rollouts (the second continued from the returned observation, as train_a2c does) are one longer rollout *)
Theorem C01_a2c_returned_observation : forall T scripts,
  let '(_, vs', last) := a2c_run T scripts in
  Forall2 (fun v o => o = (e_ep (v_env v), e_t (v_env v))) vs' last.
Proof. exact a2c_returned_observation. Qed.
Print Assumptions C01_a2c_returned_observation.
Theorem C01_a2c_consecutive_rollouts : forall T1 T2 vs cur,
  let '(rows1, vs1, last1) := a2c_collect T1 vs cur in
  let '(rows2, vs2, last2) := a2c_collect T2 vs1 last1 in
  a2c_collect (T1 + T2) vs cur = (rows1 ++ rows2, vs2, last2).
Proof. exact a2c_collect_app. Qed.
Print Assumptions C01_a2c_consecutive_rollouts.

(** The tabular loops (q_learning, sarsa, double_q_learning, monte_carlo, dynaq) ask the behaviour policy at the
    top of every iteration: for every script and every number of steps, each executed action was computed
    from the observation the environment returned last - the reset observation at the start of an episode.
    Carrying the action chosen after the step over an episode end (no new choice after reset) breaks this. *)
Theorem C01_tabular_action_from_current_observation : forall (script : list (nat * endk)) (n : nat),
  Forall (fun p => fst p = snd p) (a_used (act_run ActFresh n (act_init script))) /\
  act_flags ActFresh script n = repeat true n.
Proof. exact (fun script n => conj (act_fresh_conditioned script n) (act_fresh_flags script n)). Qed.
Print Assumptions C01_tabular_action_from_current_observation.
Theorem C01_tabular_carried_action_refuted :
  exists script n, ~ Forall (fun p => fst p = snd p) (a_used (act_run ActCarried n (act_init script))).
Proof. exact act_carried_refuted. Qed.
Print Assumptions C01_tabular_carried_action_refuted.
