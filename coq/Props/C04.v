(** C04 — sampled subtrajectories are contiguous single-episode runs.
    Only property theorems, each closed by [exact]. *)
From Coq Require Import ZArith List Bool Arith.
From RLV Require Import Model.Buffers Proofs.RingProofs Proofs.SubtrajProofs.
Import ListNotations.

(** The invariant over every history of normal / terminating / truncating steps, for
    every capacity N > storage horizon H >= 1 (ring contents, episode_timesteps, mask). *)
Theorem C04_subtraj_inv : forall N H rows, H < N -> 1 <= H ->
  SInv N H (sb_run N H rows) (writes rows).
Proof. exact subtraj_inv. Qed.
Print Assumptions C04_subtraj_inv.

(** For every enabled start and every sampling horizon 1 <= h <= H: up to and including
    its first terminated step the window is a run of consecutive writes W[c..c+k] of the
    chronological history — real transitions only (never the synthetic successor row),
    none truncated, none terminated before the cut, all still live (not overwritten:
    |W| <= c + N) and each read from the slot that holds it. Consecutive real rows with no
    terminated / truncated row in between belong to one episode, in original order. *)
Theorem C04_window_valid : forall N H rows s h, H < N -> 1 <= H -> 1 <= h <= H ->
  let b := sb_run N H rows in let W := writes rows in
  nth s (s_mask b) false = true ->
  exists c k, c mod N = s /\ c + k < length W /\ length W <= c + N /\ k < h /\
    (forall j, j < k -> realnt W (c + j)) /\
    (exists x, nth_error W (c + k) = Some (x, true) /\ r_trunc x = false /\
               (r_term x = true \/ (r_term x = false /\ k = h - 1))) /\
    (forall j, j <= k -> exists x t, nth_error W (c + j) = Some (x, t) /\
                                     nth j (sb_window b s h) None = Some x).
Proof. exact window_valid. Qed.
Print Assumptions C04_window_valid.

(** No window ever reads a slot outside the filled region or one that was never written. *)
Theorem C04_window_reads_written : forall N H rows s h j, H < N -> 1 <= H ->
  let b := sb_run N H rows in
  nth s (s_mask b) false = true -> j < h ->
  (s + j) mod s_len b < s_len b /\ exists x, nth ((s + j) mod s_len b) (s_slots b) None = Some x.
Proof. exact window_reads_written. Qed.
Print Assumptions C04_window_reads_written.

Theorem C04_reduced_view : forall b s h,
  let w := sb_window b s h in let v := sb_reduced b s h in
  v_obs v = option_map r_obs (nth 0 w None) /\ v_act v = option_map r_act (nth 0 w None) /\
  v_nobs v = option_map r_nobs (nth (h - 1) w None) /\
  v_rew v = map (option_map r_rew) w /\ v_term v = map (option_map r_term) w /\
  v_trunc v = map (option_map r_trunc) w.
Proof. exact reduced_view_spec. Qed.
Print Assumptions C04_reduced_view.
