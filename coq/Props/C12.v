(** C12 — actor objectives have the documented value and gradient.
    Only property theorems, each closed by [exact]. D = R * R are dual numbers (value, tangent). *)
From Coq Require Import Reals List Bool Arith.
From RLV Require Import Model.Num Model.Tensor Model.Blocks Model.Losses Model.Dual Model.Actor
  Proofs.BlocksProofs Proofs.LossesProofs Proofs.ActorProofs.
Import ListNotations.
Local Open Scope R_scope.

Theorem C12_pg_value : forall w l : list R, length w = length l ->
  pg_pseudo_loss (T1 w) (T1 l) = Ok (- nmean (zipw Rmult w l)).
Proof. exact pg_value. Qed.
Print Assumptions C12_pg_value.

Theorem C12_pg_shape_mismatch_rejects : forall w l : list R, (2 <= length w)%nat -> length w = length l ->
  pg_pseudo_loss (T1 w) (col l) = Err.
Proof. exact pg_shape_mismatch_rejects. Qed.
Print Assumptions C12_pg_shape_mismatch_rejects.

(** weights are constants for the gradient: derivative = -mean(w_i * d log pi_i) *)
Theorem C12_pg_gradient : forall w l t : list R, w <> [] -> length w = length l -> length l = length t ->
  pg_pseudo_loss (T1 (map dconst w)) (T1 (combine l t)) =
  Ok (- rmean (zipw Rmult w l), - rmean (zipw Rmult w t)).
Proof. exact pg_gradient. Qed.
Print Assumptions C12_pg_gradient.

(** PPO at unchanged policy parameters: the gradient of the unclipped surrogate *)
Theorem C12_ppo_grad_at_ratio_one : forall (c : R) (lp t A : list R), 0 < c -> lp <> [] ->
  length lp = length t -> length t = length A ->
  ppo_policy_loss (F := R * R) (c, 0) (combine lp t) (map dconst lp) (map dconst A) =
  (- rmean A, - rmean (zipw Rmult t A)).
Proof. exact ppo_grad_at_ratio_one. Qed.
Print Assumptions C12_ppo_grad_at_ratio_one.

(** zero policy gradient for samples clipped on the side their advantage favours *)
Theorem C12_ppo_clipped_zero_grad : forall c lp old t A : R, 0 < c ->
  (1 + c < exp (lp - old) /\ 0 < A) \/ (exp (lp - old) < 1 - c /\ A < 0) ->
  snd (ppo_term (F := R * R) (c, 0) (lp, t) (old, 0) (A, 0)) = 0.
Proof. exact ppo_term_clipped_zero_grad. Qed.
Print Assumptions C12_ppo_clipped_zero_grad.

(** value term: per-sample squared error for critic outputs of shape (N,) and (N,1) *)
Theorem C12_ppo_value_term : forall returns v : list R, length returns = length v ->
  ppo_value_loss returns (T1 v) = Ok (mse_spec returns v) /\
  ppo_value_loss returns (col v) = Ok (mse_spec returns v).
Proof. exact ppo_value_term. Qed.
Print Assumptions C12_ppo_value_term.

Theorem C12_dpg_value : forall q : list R, dpg_loss (col q) = - nmean q.
Proof. exact dpg_value. Qed.
Print Assumptions C12_dpg_value.

Theorem C12_sac_actor_value : forall (alpha : R) (lp q : list R), (2 <= length q)%nat -> length lp = length q ->
  sac_actor_loss alpha (T1 lp) (col q) = Ok (nmean (zipw (fun l qv => alpha * l - qv) lp q)).
Proof. exact sac_actor_value. Qed.
Print Assumptions C12_sac_actor_value.

(** the temperature loss raises alpha exactly when the sampled entropy estimate
    -mean(log pi) is below the target *)
Theorem C12_alpha_rises_iff_entropy_low : forall (la target : R) (lp : list R), lp <> [] ->
  (snd (sac_exploration_loss (F := R * R) (la, 1) (target, 0) (map dconst lp)) < 0 <-> - rmean lp < target).
Proof. exact alpha_rises_iff_entropy_low. Qed.
Print Assumptions C12_alpha_rises_iff_entropy_low.

(** several epochs: the ratio is taken against the log-probabilities read before the first update; re-reading them in
    every epoch is refuted (a favourably clipped sample would keep a non-zero gradient) *)
Theorem C12_ppo_reread_old_logp_refuted :
  exists c lp old t A : R, 0 < c /\ 1 + c < exp (lp - old) /\ 0 < A /\
    snd (ppo_term (F := R * R) (c, 0) (lp, t) (old, 0) (A, 0)) = 0 /\
    snd (ppo_term (F := R * R) (c, 0) (lp, t) (lp, 0) (A, 0)) <> 0.
Proof. exact ppo_reread_refuted. Qed.
Print Assumptions C12_ppo_reread_old_logp_refuted.
