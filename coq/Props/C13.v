(** C13 — policy heads: sampling, log-probability and entropy describe one distribution;
    greedy / epsilon-greedy selection. Only property theorems, each closed by [exact]. *)
From Coq Require Import Reals List Bool Arith.
From RLV Require Import Model.Num Model.Blocks Model.Heads Model.Tabular Model.Greedy
  Proofs.BlocksProofs Proofs.TabularProofs Proofs.HeadsProofs.
Import ListNotations.
Local Open Scope R_scope.

Theorem C13_softmax_pos_sum1 : forall l : list R, l <> [] ->
  length (softmax l) = length l /\ Forall (fun p => 0 < p) (softmax l) /\ rsum (softmax l) = 1.
Proof. exact softmax_pos_sum1. Qed.
Print Assumptions C13_softmax_pos_sum1.

Theorem C13_cat_logprob : forall (l : list R) a, (a < length l)%nat ->
  cat_logprob l a = ln (nth a (softmax l) 0).
Proof. exact cat_logprob_spec. Qed.
Print Assumptions C13_cat_logprob.

Theorem C13_cat_entropy : forall l : list R, l <> [] ->
  cat_entropy l = - rsum (map (fun p => p * ln p) (softmax l)).
Proof. exact cat_entropy_spec. Qed.
Print Assumptions C13_cat_entropy.

Theorem C13_std_clipped_range : forall lv, exp (-20) <= gauss_std lv <= exp 2 /\ 0 < gauss_std lv.
Proof. exact std_clipped_range. Qed.
Print Assumptions C13_std_clipped_range.

(** closed-form diagonal-Gaussian log-density, any action dimension >= 0 *)
Theorem C13_gauss_logpdf_closed_form : forall mean lv act : list R,
  gauss_logpdf c2piR mean lv act =
  rsum (map (fun mla => let '(m, l, a) := mla in ln (normal_pdf m (gauss_std l) a)) (combine (combine mean lv) act)).
Proof. exact gauss_logpdf_closed_form. Qed.
Print Assumptions C13_gauss_logpdf_closed_form.

Theorem C13_gauss_entropy_closed_form : forall (lv : list R) i, (i < length lv)%nat ->
  nth i (gauss_entropy c2piR lv) 0 = / 2 * ln (2 * PI * exp 1 * (gauss_std (nth i lv 0)) ^ 2).
Proof. exact gauss_entropy_closed_form. Qed.
Print Assumptions C13_gauss_entropy_closed_form.

Theorem C13_gauss_sample_affine : forall (mean lv eps : list R) i,
  (i < length mean)%nat -> length mean = length lv -> length lv = length eps ->
  nth i (gauss_sample mean lv eps) 0 = nth i mean 0 + gauss_std (nth i lv 0) * nth i eps 0 /\
  (nth i (gauss_sample mean lv eps) 0 - nth i mean 0) / gauss_std (nth i lv 0) = nth i eps 0.
Proof. exact gauss_sample_affine. Qed.
Print Assumptions C13_gauss_sample_affine.

(** greedy selection returns a (first) maximiser *)
Theorem C13_greedy_is_max : forall l : list R, l <> [] ->
  (nargmax l < length l)%nat /\ Forall (fun x => x <= nth (nargmax l) l 0) l /\
  (forall j, (j < nargmax l)%nat -> nth j l 0 < nth (nargmax l) l 0).
Proof. exact argmax_is_max. Qed.
Print Assumptions C13_greedy_is_max.

Theorem C13_eps0_greedy : forall (t : table) s roll ra, 0 <= roll -> eps_greedy t s 0 roll ra = greedy t s.
Proof. exact eps0_greedy. Qed.
Print Assumptions C13_eps0_greedy.

Theorem C13_eps1_value_independent : forall (t t' : table) s roll ra, roll < 1 ->
  eps_greedy t s 1 roll ra = ra /\ eps_greedy t s 1 roll ra = eps_greedy t' s 1 roll ra.
Proof. exact eps1_value_independent. Qed.
Print Assumptions C13_eps1_value_independent.

Theorem C13_dqn_explores_when_eps_one : forall step ls roll ra (q : list R), roll < 1 ->
  dqn_choice step ls roll 1 ra q = ra.
Proof. exact dqn_explores_when_eps_one. Qed.
Print Assumptions C13_dqn_explores_when_eps_one.

Theorem C13_dqn_warmup_random : forall step ls (roll eps : R) ra (q : list R), (step < ls)%nat ->
  dqn_choice step ls roll eps ra q = ra.
Proof. exact dqn_warmup_random. Qed.
Print Assumptions C13_dqn_warmup_random.

Theorem C13_dqn_greedy_otherwise : forall step ls roll eps ra (q : list R),
  (ls <= step)%nat -> eps <= roll -> q <> [] ->
  let a := dqn_choice step ls roll eps ra q in
  (a < length q)%nat /\ Forall (fun x => x <= nth a q 0) q.
Proof. exact dqn_greedy_otherwise. Qed.
Print Assumptions C13_dqn_greedy_otherwise.
