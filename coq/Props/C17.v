(** C17 — PETS model: ensemble consistency, bootstraps and plan evaluation.
    Only property theorems, each closed by [exact].

    Vocabulary (defined in Proofs/EnsembleProofs.v, all plain unfoldings):
      safeR lv mn mx      = mn + softplus (mx - softplus (mx - lv) - mn), softplus z = ln (1 + e^z)
      ens_wf fwd n e      : every member returns n means and n raw log-variances; n learned bounds
      joint_means fwd e X / joint_logvars fwd e X
                          : the ensemble's joint forward pass on the batch X written out entry by
                            entry: [i][b] = member i's mean / bounded log-variance vector on row b
      meanR l = (sum l) / |l| ;  varR l = meanR (map (fun x => (x - meanR l)^2) l)
      gauss_pdf y mu var  : density of N(mu, var) at y
      norm_angleR x       = ((x + PI) mod 2 PI) - PI with the floored modulus
    [fwd m x] is an ARBITRARY member network (mean, raw log-variance of member m on input x). *)
From Coq Require Import QArith Reals List Bool Arith Permutation.
From RLV Require Import Model.Num Model.Ensemble Proofs.EnsembleProofs.
Import ListNotations.
Local Open Scope R_scope.

(* ---------------------------------------------------------------- log-variance bounds *)

(** Soft bounds of one log-variance: strictly above the lower bound, below the upper bound plus
    the softplus slack of the documented PETS formula — for EVERY raw value and bounds. *)
Theorem C17_logvar_bounds : forall lv mn mx : R,
  pe_safe_log_var lv mn mx = safeR lv mn mx /\
  mn < safeR lv mn mx /\ safeR lv mn mx < mx + ln (1 + exp (- (mx - mn))).
Proof. exact logvar_bounds_full. Qed.
Print Assumptions C17_logvar_bounds.

Theorem C17_logvar_slack_at_most_ln2 : forall mn mx : R, mn <= mx -> ln (1 + exp (- (mx - mn))) <= ln 2.
Proof. exact safe_log_var_slack_le_ln2. Qed.
Print Assumptions C17_logvar_slack_at_most_ln2.

(** Every bounded log-variance of the joint forward pass (all members, rows, output dimensions)
    lies within the bounds OF ITS OWN output dimension, and these learned bounds lie in
    (-20, 0) and (-4, 5). *)
Theorem C17_joint_logvars_bounded : forall (M : Type) (fwd : M -> list R -> list R * list R)
    n (e : pe_ens) X i b k, ens_wf fwd n e ->
  (i < length (pe_members e))%nat -> (b < length X)%nat -> (k < n)%nat ->
  let lv := nth k (nth b (nth i (joint_logvars fwd e X) []) []) 0 in
  let lo := nth k (pe_mn e) 0 in let hi := nth k (pe_mx e) 0 in
  lo < lv /\ lv < hi + ln (1 + exp (- (hi - lo))) /\ -20 < lo < 0 /\ -4 < hi < 5.
Proof. exact @joint_logvars_bounded. Qed.
Print Assumptions C17_joint_logvars_bounded.

(* ---------------------------------------------------------------- member slice *)

(** __call__ on a batch is the joint pass; on per-member batches (training) member i sees
    only its own inputs. *)
Theorem C17_call_is_joint_pass : forall (M : Type) (fwd : M -> list R -> list R * list R) (e : pe_ens) X,
  pe_call2 fwd e X = Some (pe_of_t3 (joint_means fwd e X), pe_of_t3 (joint_logvars fwd e X)).
Proof. exact @call2_joint. Qed.
Print Assumptions C17_call_is_joint_pass.

Theorem C17_individual_pass_own_inputs : forall (M : Type) (fwd : M -> list R -> list R * list R)
    (e : pe_ens) Xs i d, (i < length (pe_members e))%nat -> (i < length Xs)%nat ->
  pe_call3 fwd e Xs = Some (pe_of_t3 (indiv_means fwd e Xs), pe_of_t3 (indiv_logvars fwd e Xs)) /\
  nth i (indiv_means fwd e Xs) [] = map (fun x => fst (fwd (nth i (pe_members e) d) x)) (nth i Xs []) /\
  nth i (indiv_logvars fwd e Xs) [] =
    map (fun x => pe_map3 safeR (snd (fwd (nth i (pe_members e) d) x)) (pe_mn e) (pe_mx e)) (nth i Xs []).
Proof. exact individual_pass_own_inputs. Qed.
Print Assumptions C17_individual_pass_own_inputs.

(** BATCHES (every ensemble size, batch size and output dimension): member i's distribution has
    mean = slice i of the joint means and standard deviation exp(log_vars[i] / 2), whose square is
    the slice's variance; base_predict returns (means[i], exp(log_vars[i])). *)
Theorem C17_member_slice_batch : forall (M : Type) (fwd : M -> list R -> list R * list R)
    (e : pe_ens) d i X, (i < length (pe_members e))%nat ->
  pe_base_distribution fwd e d i (PBatch X) =
    Some (pe_of_mat (nth i (joint_means fwd e X) []),
          pe_of_mat (map (map (fun l => exp (l / 2))) (nth i (joint_logvars fwd e X) [])))
  /\ pe_base_predict fwd e d i (PBatch X) =
    Some (pe_of_mat (nth i (joint_means fwd e X) []), pe_of_mat (map (map exp) (nth i (joint_logvars fwd e X) []))).
Proof. exact @member_slice_batch. Qed.
Print Assumptions C17_member_slice_batch.

(** SINGLE VECTORS: the same, with slice [i][0] of the joint pass on the one-row batch [x];
    one variance per output dimension. *)
Theorem C17_member_slice_vector : forall (M : Type) (fwd : M -> list R -> list R * list R)
    (e : pe_ens) d i x, (i < length (pe_members e))%nat ->
  pe_base_distribution fwd e d i (PVec x) =
    Some (pe_of_vec (nth 0 (nth i (joint_means fwd e [x]) []) []),
          pe_of_vec (map (fun l => exp (l / 2)) (nth 0 (nth i (joint_logvars fwd e [x]) []) [])))
  /\ pe_base_predict fwd e d i (PVec x) =
    Some (pe_of_vec (nth 0 (nth i (joint_means fwd e [x]) []) []),
          pe_of_vec (map exp (nth 0 (nth i (joint_logvars fwd e [x]) []) []))).
Proof. exact @member_slice_vector. Qed.
Print Assumptions C17_member_slice_vector.

Theorem C17_stddev_squared_is_variance : forall l : R, exp (l / 2) * exp (l / 2) = exp l.
Proof. exact exp_half_sq. Qed.
Print Assumptions C17_stddev_squared_is_variance.

(* ---------------------------------------------------------------- aggregate *)

(** aggregate on a batch, every ensemble size >= 1 and output dimension: mean of the member
    means; variance = mean member variance + population variance of the member means. *)
Theorem C17_aggregate_batch : forall (M : Type) (fwd : M -> list R -> list R * list R)
    n (e : pe_ens) X, ens_wf fwd n e -> pe_members e <> [] ->
  exists Mean Var, pe_aggregate fwd e (PBatch X) = Some (pe_of_mat Mean, pe_of_mat Var) /\
    length Mean = length X /\ length Var = length X /\
    forall b k, (b < length X)%nat -> (k < n)%nat ->
      nth k (nth b Mean []) 0 = meanR (pe_col2 (joint_means fwd e X) b k) /\
      nth k (nth b Var []) 0 = meanR (map exp (pe_col2 (joint_logvars fwd e X) b k))
                               + varR (pe_col2 (joint_means fwd e X) b k).
Proof. exact @aggregate_batch_value. Qed.
Print Assumptions C17_aggregate_batch.

(** Law of total variance for the uniform mixture of E >= 1 Gaussians. *)
Theorem C17_total_variance : forall vs ms : list R, ms <> [] -> length vs = length ms ->
  meanR vs + varR ms = meanR (pe_map2 (fun v m => v + m * m) vs ms) - meanR ms * meanR ms.
Proof. exact total_variance_mixture. Qed.
Print Assumptions C17_total_variance.

Theorem C17_variance_of_means_nonneg : forall ms : list R, 0 <= varR ms.
Proof. exact varR_nonneg. Qed.
Print Assumptions C17_variance_of_means_nonneg.

(** aggregate on a single vector: the same law on slice [.][0] of the one-row batch. *)
Theorem C17_aggregate_vector : forall (M : Type) (fwd : M -> list R -> list R * list R)
    n (e : pe_ens) x, ens_wf fwd n e -> pe_members e <> [] ->
  exists Mean Var, pe_aggregate fwd e (PVec x) = Some (pe_of_vec Mean, pe_of_vec Var) /\
    length Mean = n /\ length Var = n /\
    forall k, (k < n)%nat ->
      nth k Mean 0 = meanR (pe_col2 (joint_means fwd e [x]) 0 k) /\
      nth k Var 0 = meanR (map exp (pe_col2 (joint_logvars fwd e [x]) 0 k))
                    + varR (pe_col2 (joint_means fwd e [x]) 0 k).
Proof. exact @aggregate_vector_value. Qed.
Print Assumptions C17_aggregate_vector.

(* ---------------------------------------------------------------- loss *)

(** gaussian_nll = average negative log-density minus (1/2) ln (2 pi), every N >= 1. *)
Theorem C17_nll_closed_form : forall mu lv y : list R,
  mu <> [] -> length lv = length mu -> length y = length mu ->
  pe_gaussian_nll mu lv y =
  meanR (pe_map3 (fun m l t => - ln (gauss_pdf t m (exp l))) mu lv y) - / 2 * ln (2 * PI).
Proof. exact nll_closed_form. Qed.
Print Assumptions C17_nll_closed_form.

(* ---------------------------------------------------------------- bootstrap / batches *)

(** Member e's q-th batch reads its own bootstrap row at the positions of batch q;
    all ensemble sizes >= 1, bootstrap sizes nb and batch sizes bs >= 1. *)
Theorem C17_batches_from_own_bootstrap : forall bs nb boot perm, (1 <= bs)%nat -> boot <> [] ->
  Forall (fun row => length row = nb) boot -> length perm = nb ->
  length (pe_epoch_batches bs boot perm) = (nb / bs)%nat /\
  forall q e, (q < nb / bs)%nat -> (e < length boot)%nat ->
    nth e (nth q (pe_epoch_batches bs boot perm) []) [] =
    map (fun j => nth j (nth e boot []) 0%nat) (nth q (pe_epoch_positions bs nb perm) []).
Proof. exact batches_from_own_bootstrap. Qed.
Print Assumptions C17_batches_from_own_bootstrap.

(** The positions of one epoch: nb / bs batches of bs positions, every position of the bootstrap
    row at most once, all in range, exactly the first nb - nb mod bs of the shuffled order;
    fewer than bs positions are dropped. *)
Theorem C17_positions_once_per_epoch : forall bs nb perm, (1 <= bs)%nat -> Permutation perm (seq 0 nb) ->
  let P := pe_epoch_positions bs nb perm in
  length P = (nb / bs)%nat /\ Forall (fun batch => length batch = bs) P /\
  Permutation (concat P) (firstn (nb - nb mod bs) perm) /\
  NoDup (concat P) /\ (forall j, In j (concat P) -> (j < nb)%nat) /\
  length (concat P) = (nb - nb mod bs)%nat /\ (nb mod bs < bs)%nat.
Proof. exact epoch_positions_once. Qed.
Print Assumptions C17_positions_once_per_epoch.

(* ---------------------------------------------------------------- planning *)

(** evaluate_plans: entry s = particle average of the rewards summed along the trajectory. *)
Theorem C17_plan_value : forall (Act Obs : Type) (r : Act -> Obs -> R) (dact : Act) (dobs : Obs)
    (actions : list (list Act)) (trajs : list (list (list Obs))) s H,
  (s < length actions)%nat -> (s < length trajs)%nat ->
  length (nth s actions []) = H -> Forall (fun traj => length traj = S H) (nth s trajs []) ->
  nth s (pe_evaluate_plans r actions trajs) 0 =
  meanR (map (fun traj => nsum (map (fun h => r (nth h (nth s actions []) dact) (nth h traj dobs)) (seq 0 H)))
             (nth s trajs [])).
Proof. exact @plan_value. Qed.
Print Assumptions C17_plan_value.

(** ... which is the documented objective: sum over the horizon of the particle-averaged reward. *)
Theorem C17_plan_value_sum_of_means : forall (Act Obs : Type) (r : Act -> Obs -> R) (dact : Act) (dobs : Obs)
    (acts : list Act) (parts : list (list Obs)) H,
  meanR (map (fun traj => nsum (map (fun h => r (nth h acts dact) (nth h traj dobs)) (seq 0 H))) parts) =
  nsum (map (fun h => meanR (map (fun traj => r (nth h acts dact) (nth h traj dobs)) parts)) (seq 0 H)).
Proof. exact @plan_value_sum_of_means. Qed.
Print Assumptions C17_plan_value_sum_of_means.

(* ---------------------------------------------------------------- pendulum *)

(** The bundled Pendulum reward model on the observation (cos th, sin th, thdot) equals the
    environment's reward for every state and action ... *)
Theorem C17_pendulum_reward_eq : forall th thdot (act : list R),
  pe_pendulum_reward acos floorR PI act [cos th; sin th; thdot] =
  pe_gym_pendulum_reward floorR PI th thdot act.
Proof. exact pendulum_reward_eq. Qed.
Print Assumptions C17_pendulum_reward_eq.

(** ... which is Gymnasium's -(angle_normalize(th)^2 + 0.1 thdot^2 + 0.001 clip(u,-2,2)^2),
    angle_normalize(th) being th shifted by whole turns into [-pi, pi). *)
Theorem C17_gym_pendulum_reward_formula : forall th thdot u : R,
  pe_gym_pendulum_reward floorR PI th thdot [u] =
  - (norm_angleR th * norm_angleR th + / 10 * (thdot * thdot)
     + / 1000 * (Rmin (Rmax u (-2)) 2 * Rmin (Rmax u (-2)) 2)).
Proof. exact gym_pendulum_reward_formula. Qed.
Print Assumptions C17_gym_pendulum_reward_formula.

Theorem C17_angle_normalize_spec : forall x : R,
  exists k : Z, norm_angleR x = x - 2 * PI * IZR k /\ - PI <= norm_angleR x < PI.
Proof. exact norm_angle_spec. Qed.
Print Assumptions C17_angle_normalize_spec.
